/* LD_PRELOAD shim: a virtual CLOCK_MONOTONIC for the profiler's timers.c.
 *
 * Reads that come from the _line_profiler extension return `now` and then add
 * `tick`; all other readers (the interpreter itself) get `now` and do not move the
 * clock, so the profiler's view of time is a deterministic function of its own
 * reads and of explicit vclock_advance(d) calls.  VCLOCK_START / VCLOCK_TICK are
 * read from the environment (nanoseconds).
 */
#define _GNU_SOURCE
#include <dlfcn.h>
#include <stdint.h>
#include <stdlib.h>
#include <string.h>
#include <time.h>

static int64_t now_ns = 0, tick_ns = 0, reads = 0;
static int inited = 0;
static int (*real_clock_gettime)(clockid_t, struct timespec *) = 0;

static void init(void) {
    const char *s = getenv("VCLOCK_START"), *t = getenv("VCLOCK_TICK");
    now_ns = s ? atoll(s) : 1234567890123LL;
    tick_ns = t ? atoll(t) : 0;
    real_clock_gettime = dlsym(RTLD_NEXT, "clock_gettime");
    inited = 1;
}

static int from_profiler(void *ra) {
    Dl_info info;
    if (dladdr(ra, &info) && info.dli_fname) return strstr(info.dli_fname, "_line_profiler") != 0;
    return 0;
}

int clock_gettime(clockid_t clk, struct timespec *ts) {
    if (!inited) init();
    if (clk != CLOCK_MONOTONIC) return real_clock_gettime(clk, ts);
    ts->tv_sec = now_ns / 1000000000LL;
    ts->tv_nsec = now_ns % 1000000000LL;
    if (from_profiler(__builtin_return_address(0))) { now_ns += tick_ns; reads++; }
    return 0;
}

void vclock_advance(int64_t d) { if (!inited) init(); now_ns += d; }
int64_t vclock_now(void) { if (!inited) init(); return now_ns; }
int64_t vclock_reads(void) { return reads; }
void vclock_set_tick(int64_t t) { if (!inited) init(); tick_ns = t; }
