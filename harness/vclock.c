/* LD_PRELOAD shim: a virtual CLOCK_MONOTONIC for the profiler's timers.c.
 *
 * Reads that come from the _line_profiler extension return `now` and then add
 * `tick`; all other readers (the interpreter itself) get the real clock, so the profiler's view of time is a deterministic function of its own
 * reads and of explicit vclock_advance(d) calls.  VCLOCK_START / VCLOCK_TICK are
 * read from the environment (nanoseconds).
 */
#define _GNU_SOURCE
#include <dlfcn.h>
#include <stdint.h>
#include <stdlib.h>
#include <string.h>
#include <time.h>

static int64_t now_ns = 0, tick_ns = 0, reads = 0;
static int inited = 0;
static int (*real_clock_gettime)(clockid_t, struct timespec *) = 0;

static void init(void) {
    const char *s = getenv("VCLOCK_START"), *t = getenv("VCLOCK_TICK");
    now_ns = s ? atoll(s) : 1234567890123LL;
    tick_ns = t ? atoll(t) : 0;
    real_clock_gettime = dlsym(RTLD_NEXT, "clock_gettime");
    inited = 1;
}

/* the text range(s) of the _line_profiler extension, set once by the harness from /proc/self/maps:
   no dladdr() (dynamic-loader lock) on the hot path, which could deadlock against a thread that
   holds the loader lock while waiting for the GIL */
static uintptr_t rng_lo[8], rng_hi[8];
static int nrng = 0;
void vclock_add_range(uint64_t lo, uint64_t hi) { if (nrng < 8) { rng_lo[nrng] = (uintptr_t)lo; rng_hi[nrng] = (uintptr_t)hi; nrng++; } }

static int from_profiler(void *ra) {
    uintptr_t a = (uintptr_t)ra;
    for (int i = 0; i < nrng; i++) if (a >= rng_lo[i] && a < rng_hi[i]) return 1;
    return 0;
}

int clock_gettime(clockid_t clk, struct timespec *ts) {
    if (!inited) init();
    /* only the profiler's own reads see the virtual clock; the interpreter (sleep deadlines, lock
       timeouts, the watchdog) keeps the real one - mixing them makes absolute deadlines nonsense */
    if (clk != CLOCK_MONOTONIC || !from_profiler(__builtin_return_address(0))) return real_clock_gettime(clk, ts);
    ts->tv_sec = now_ns / 1000000000LL;
    ts->tv_nsec = now_ns % 1000000000LL;
    now_ns += tick_ns; reads++;
    return 0;
}

/* the profiler's tick is one nanosecond whatever granularity the clock advertises: to the profiler the shim reports a
   coarse clock (CONFIG_HZ=250), so a unit derived from the resolution shows */
int clock_getres(clockid_t clk, struct timespec *ts) {
    static int (*real_getres)(clockid_t, struct timespec *) = 0;
    if (!real_getres) real_getres = dlsym(RTLD_NEXT, "clock_getres");
    if (clk != CLOCK_MONOTONIC || !from_profiler(__builtin_return_address(0))) return real_getres(clk, ts);
    if (ts) { ts->tv_sec = 0; ts->tv_nsec = 4000000; }
    return 0;
}

void vclock_advance(int64_t d) { if (!inited) init(); now_ns += d; }
int64_t vclock_now(void) { if (!inited) init(); return now_ns; }
int64_t vclock_reads(void) { return reads; }
void vclock_set_tick(int64_t t) { if (!inited) init(); tick_ns = t; }
