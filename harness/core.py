"""Shared machinery of the checks: implementation build, Coq build, obligations,
case shards evaluated inside Coq, evidence, known findings, verdict.

Run with /venv/bin/python (CPython 3.12.1, the interpreter the repository's own
test-suite uses).  Nothing here needs the network.
"""
import contextlib
import fcntl
import hashlib
import json
import os
import random
import re
import shutil
import subprocess
import sys
import time
from concurrent.futures import ThreadPoolExecutor
from pathlib import Path

VERIF = Path(__file__).resolve().parent.parent
REPO = Path(os.environ.get('VERIF_REPO', '/repo'))
COQ = VERIF / 'coq'
PY = '/venv/bin/python'
SCRATCH_ROOT = Path(os.environ.get('VERIF_SCRATCH', '/var/tmp/lpverif'))
NCPU = os.cpu_count() or 4

ALLOWED_AXIOMS = {
    # standard-library axioms only; every one that occurs is echoed into the
    # evidence file's trusted_base.
    'functional_extensionality_dep', 'FunctionalExtensionality.functional_extensionality_dep',
    'Classical_Prop.classic', 'classic', 'proof_irrelevance', 'ProofIrrelevance.proof_irrelevance',
    'Eqdep.Eq_rect_eq.eq_rect_eq', 'eq_rect_eq', 'JMeq_eq', 'JMeq.JMeq_eq',
    'propositional_extensionality', 'ClassicalDedekindReals.sig_forall_dec',
    'ClassicalDedekindReals.sig_not_dec',
}


# ----------------------------------------------------------------------------
# locking
@contextlib.contextmanager
def locked(name):
    SCRATCH_ROOT.mkdir(parents=True, exist_ok=True)
    path = SCRATCH_ROOT / ('.lock-' + name)
    with open(path, 'w') as f:
        fcntl.flock(f, fcntl.LOCK_EX)
        try:
            yield
        finally:
            fcntl.flock(f, fcntl.LOCK_UN)


def sh(cmd, timeout=600, cwd=None, env=None, check=False, input=None):
    p = subprocess.run(cmd, shell=isinstance(cmd, str), cwd=cwd, env=env,
                       stdout=subprocess.PIPE, stderr=subprocess.STDOUT,
                       timeout=timeout, text=True, input=input)
    if check and p.returncode != 0:
        raise RuntimeError('command failed (%s): %s\n%s' % (p.returncode, cmd, p.stdout[-4000:]))
    return p.returncode, p.stdout


# ----------------------------------------------------------------------------
# implementation build (scratch copy of /repo's working tree)
def _repo_files():
    rc, out = sh(['git', '-C', str(REPO), 'ls-files', '-co', '--exclude-standard', '-z'], check=True)
    files = [f for f in out.split('\0') if f]
    files = [f for f in files if (REPO / f).is_file()]
    return sorted(files)


def repo_hash():
    h = hashlib.sha256()
    for f in _repo_files():
        if f.startswith(('docs/', 'dev/', '.github/')):
            continue
        h.update(f.encode() + b'\0')
        h.update((REPO / f).read_bytes())
        h.update(b'\0')
    return h.hexdigest()[:16]


class BuildError(Exception):
    pass


def build_impl():
    """Copy /repo's working tree to a scratch directory (keyed by content hash),
    build the extension there and return the directory."""
    key = repo_hash()
    tag = hashlib.sha256(str(REPO.resolve()).encode()).hexdigest()[:6]
    dst = SCRATCH_ROOT / ('impl-%s-%s' % (tag, key))
    with locked('impl-' + tag):
        if (dst / '.built').exists():
            os.utime(dst / '.built')
            return dst
        for old in SCRATCH_ROOT.glob('impl-*'):
            # builds of other states of a source tree are stale once nobody has used them for a while
            # (a long run may still be using one when the tree changes under it)
            stamp = old / '.built'
            try:
                age = time.time() - stamp.stat().st_mtime
            except OSError:
                try:
                    age = time.time() - old.stat().st_mtime
                except OSError:
                    continue        # another run removed it meanwhile
            if age > 3 * 3600 or (old.name.startswith('impl-%s-' % tag) and age > 1800):
                shutil.rmtree(old, ignore_errors=True)
        dst.mkdir(parents=True)
        for f in _repo_files():
            if f.startswith(('docs/', 'dev/', '.github/')):
                continue
            t = dst / f
            t.parent.mkdir(parents=True, exist_ok=True)
            shutil.copy2(REPO / f, t)
        env = dict(os.environ, PIP_NO_INDEX='1')
        env.pop('PYTHONPATH', None)
        rc, out = sh([PY, 'setup.py', 'build_ext', '--inplace', '-j', '4'], cwd=dst, env=env, timeout=900)
        so = list((dst / 'line_profiler').glob('_line_profiler*.so'))
        if rc != 0 or not so:
            (dst / 'build.log').write_text(out)
            raise BuildError('build_ext failed in %s:\n%s' % (dst, out[-3000:]))
        shutil.rmtree(dst / 'build', ignore_errors=True)
        (dst / '.built').write_text(key)
        return dst


def impl_env(impl, **extra):
    env = dict(os.environ)
    env['PYTHONPATH'] = str(impl) + os.pathsep + str(VERIF)
    env['PYTHONHASHSEED'] = '0'
    env['PYTHONDONTWRITEBYTECODE'] = '1'
    env['LINE_PROFILER_VERIF'] = '1'
    env.pop('LINE_PROFILE', None)
    env.update({k: str(v) for k, v in extra.items()})
    return env


def run_impl(impl, module, payload, timeout=600, env_extra=None, cwd=None):
    """Run `python -m <module>` (a driver under /verif/harness/drivers) against the
    scratch build.  `payload` is sent as JSON on stdin, JSON comes back on stdout
    (last line starting with 'RESULT ')."""
    env = impl_env(impl, **(env_extra or {}))
    p = subprocess.run([PY, '-m', module], input=json.dumps(payload), env=env, cwd=cwd or str(impl),
                       stdout=subprocess.PIPE, stderr=subprocess.PIPE, text=True, timeout=timeout)
    res = None
    for line in p.stdout.splitlines():
        if line.startswith('RESULT '):
            res = json.loads(line[7:])
    if res is None:
        raise RuntimeError('driver %s gave no result (rc=%s)\nstdout: %s\nstderr: %s'
                           % (module, p.returncode, p.stdout[-3000:], p.stderr[-3000:]))
    if not res.get('impl_file', '').startswith(str(impl)):
        raise RuntimeError('driver %s did not run the scratch build: %r' % (module, res.get('impl_file')))
    return res


# ----------------------------------------------------------------------------
# Coq build
def gen_coqproject():
    lines = ['-R theories LP', '-arg -w', '-arg -notation-overridden,-deprecated-hint-without-locality,-deprecated-instance-without-locality,-ambiguous-paths']
    vs = sorted(str(p.relative_to(COQ)) for p in (COQ / 'theories').rglob('*.v'))
    txt = '\n'.join(lines + vs) + '\n'
    p = COQ / '_CoqProject'
    if not p.exists() or p.read_text() != txt:
        p.write_text(txt)
        sh('coq_makefile -f _CoqProject -o Makefile', cwd=COQ, check=True)
    elif not (COQ / 'Makefile').exists():
        sh('coq_makefile -f _CoqProject -o Makefile', cwd=COQ, check=True)


def write_if_changed(path, text):
    path = Path(path)
    if path.exists() and path.read_text() == text:
        return False
    path.parent.mkdir(parents=True, exist_ok=True)
    path.write_text(text)
    return True


def regenerate(targets=None):
    """Run the translator over /repo; returns {gen_file: error or None}."""
    from harness.py2coq import targets as T
    return T.regenerate(REPO, COQ / 'theories' / 'Gen', only=targets)


def coq_make(vo_targets, timeout=1500):
    """Full .vo build of the given targets (and what they depend on)."""
    with locked('coq-' + hashlib.sha256(str(COQ).encode()).hexdigest()[:6]):
        gen_coqproject()
        cmd = ['timeout', str(timeout), 'make', '-j%d' % NCPU] + list(vo_targets)
        rc, out = sh(cmd, cwd=COQ, timeout=timeout + 30)
    return rc, out


FORBIDDEN = re.compile(r'\b(Admitted|admit|Axiom|Axioms|Parameter|Parameters|Conjecture|Hypothesis|Variable|Variables|Hypotheses)\b|Unset\s+Guard|bypass_check|Admit\s+Obligations|-type-in-type|-impredicative-set|Unset\s+Positivity|Unset\s+Universe')


def scan_forbidden():
    """grep the whole development; Variable/Hypothesis are allowed inside Sections only."""
    bad = []
    for p in sorted((COQ / 'theories').rglob('*.v')):
        depth = 0
        txt = re.sub(r'\(\*.*?\*\)', lambda m: ' ' * 0 + re.sub(r'[^\n]', ' ', m.group(0)), p.read_text(), flags=re.S)
        for n, line in enumerate(txt.splitlines(), 1):
            s = line.strip()
            if re.match(r'Section\s+\w+', s):
                depth += 1
            elif re.match(r'End\s+\w+', s) and depth > 0:
                depth -= 1
            m = FORBIDDEN.search(line)
            if m:
                w = m.group(0)
                if w in ('Variable', 'Variables', 'Hypothesis', 'Hypotheses') and depth > 0:
                    continue
                bad.append('%s:%d: %s' % (p.relative_to(COQ), n, s))
    return bad


def print_assumptions(prop, module, theorems, timeout=300):
    """Compile a throw-away file that Requires the property file and prints the
    assumptions of every obligation.  Returns {thm: [axioms]} or raises."""
    d = COQ / 'cases'
    d.mkdir(exist_ok=True)
    f = d / ('Assum_%s.v' % prop)
    body = ['Require Import LP.%s.' % module]
    for t in theorems:
        body.append('Goal True. idtac "BEGIN %s". Abort.' % t)
        body.append('Print Assumptions %s.' % t)
        body.append('Goal True. idtac "END %s". Abort.' % t)
    f.write_text('\n'.join(body) + '\n')
    rc, out = sh(['timeout', str(timeout), 'coqc', '-R', 'theories', 'LP', str(f.relative_to(COQ))], cwd=COQ, timeout=timeout + 10)
    for ext in ('.vo', '.vok', '.vos', '.glob'):
        with contextlib.suppress(FileNotFoundError):
            f.with_suffix(ext).unlink()
    if rc != 0:
        raise RuntimeError('Print Assumptions failed for %s:\n%s' % (prop, out[-3000:]))
    res = {}
    for t in theorems:
        m = re.search(r'BEGIN %s\n(.*?)END %s' % (re.escape(t), re.escape(t)), out, flags=re.S)
        if not m:
            raise RuntimeError('no assumptions output for %s' % t)
        blk = m.group(1)
        if 'Closed under the global context' in blk:
            res[t] = []
        else:
            axs = re.findall(r'^([A-Za-z_][\w.\']*)\s*:', blk, flags=re.M)
            res[t] = axs
    return res


def check_obligations(prop, module, theorems, extra_vo=()):
    """Returns dict(obligations, discharged, failures[list of str], axioms, cmds)."""
    t0 = time.time()
    vo = 'theories/' + module.replace('.', '/') + '.vo'
    cmds = ['make -j%d %s' % (NCPU, vo)]
    failures = []
    axioms = {}
    rc, out = coq_make([vo] + list(extra_vo))
    if rc != 0:
        m = re.findall(r'^File "([^"]+)", line (\d+).*?\n(Error.*?)(?=\n\S|\Z)', out, flags=re.S | re.M)
        where = '; '.join('%s:%s %s' % (a, b, c.strip().splitlines()[0] if c.strip() else '') for a, b, c in m[:3])
        failures.append('build of %s failed: %s' % (vo, where or out[-1500:]))
        return dict(obligations=len(theorems), discharged=0, failures=failures, axioms={}, cmds=cmds,
                    log=out[-6000:], wall=time.time() - t0)
    bad = scan_forbidden()
    if bad:
        failures.append('forbidden declarations: ' + '; '.join(bad[:5]))
    try:
        axioms = print_assumptions(prop, module, theorems)
        cmds.append('coqc cases/Assum_%s.v  (Print Assumptions for %d theorems)' % (prop, len(theorems)))
    except RuntimeError as e:
        failures.append(str(e)[:1500])
        return dict(obligations=len(theorems), discharged=0, failures=failures, axioms={}, cmds=cmds,
                    log=str(e), wall=time.time() - t0)
    discharged = 0
    for t in theorems:
        notallowed = [a for a in axioms[t] if a not in ALLOWED_AXIOMS and a.split('.')[-1] not in ALLOWED_AXIOMS]
        if notallowed:
            failures.append('%s depends on non-standard axioms %s' % (t, notallowed))
        elif not bad:
            discharged += 1
    return dict(obligations=len(theorems), discharged=discharged, failures=failures, axioms=axioms,
                cmds=cmds, log='', wall=time.time() - t0)


def coqchk(module, timeout=1500):
    rc, out = sh(['timeout', str(timeout), 'coqchk', '-silent', '-o', '-R', 'theories', 'LP', 'LP.' + module],
                 cwd=COQ, timeout=timeout + 30)
    return rc, out


def thorough_coqchk(res, module):
    """Thorough tier: re-check the property's .vo closure with the independent checker and record the
    axioms it reports."""
    t0 = time.time()
    rc, out = coqchk(module)
    ax = re.findall(r'^\s*\*\s*Axioms?:\s*(.*?)(?=^\s*\*|\Z)', out, flags=re.S | re.M)
    res.coverage_extra = getattr(res, 'coverage_extra', {})
    res.coverage_extra['coqchk'] = dict(rc=rc, wall_s=round(time.time() - t0, 1), tail=out[-1500:])
    if rc != 0:
        res.obl['failures'].append('coqchk failed on LP.%s: %s' % (module, out[-800:]))
    else:
        res.obl['cmds'].append('coqchk -silent -o -R theories LP LP.%s' % module)


# ----------------------------------------------------------------------------
# evaluating case shards inside Coq
def coq_str(s):
    """Coq string literal for a Python str restricted to printable ASCII."""
    for ch in s:
        if not (32 <= ord(ch) < 127):
            raise ValueError('non-ASCII/unprintable character in Coq string: %r' % s)
    return '"' + s.replace('"', '""') + '"'


def coq_list(xs):
    return '[' + '; '.join(xs) + ']'


def coq_opt(x):
    return 'None' if x is None else '(Some %s)' % x


def coq_z(n):
    return '(%d)%%Z' % n


def coq_bool(b):
    return 'true' if b else 'false'


_RES = re.compile(r'^\s*=\s*(.*?)^\s*:\s', flags=re.S | re.M)


def run_shards(name, header, shard_bodies, timeout=900):
    """Each shard body is Coq text that ends with one or more
    `Eval vm_compute in (<expr> : list Z).` commands; returns for each shard the
    list of integer lists printed.  Shards run in parallel."""
    d = COQ / 'cases'
    d.mkdir(exist_ok=True)
    files = []
    for k, body in enumerate(shard_bodies):
        f = d / ('%s_%d.v' % (name, k))
        f.write_text(header + '\n' + body + '\n')
        files.append(f)

    def one(f):
        t0 = time.time()
        # a long history is one long list literal: the parser recurses on it, so lift the stack limit
        rc, out = sh(['sh', '-c', 'ulimit -s unlimited 2>/dev/null || ulimit -s 4000000 2>/dev/null; exec "$@"', 'sh',
                      'timeout', str(timeout), 'coqc', '-R', 'theories', 'LP', str(f.relative_to(COQ))],
                     cwd=COQ, timeout=timeout + 10)
        for ext in ('.vo', '.vok', '.vos', '.glob'):
            with contextlib.suppress(FileNotFoundError):
                f.with_suffix(ext).unlink()
        with contextlib.suppress(FileNotFoundError):
            (f.parent / ('.' + f.stem + '.aux')).unlink()
        if rc != 0:
            return ('error', out[-3000:], time.time() - t0)
        lists = []
        for m in _RES.finditer(out):
            lists.append([int(x) for x in re.findall(r'-?\d+', m.group(1))])
        return ('ok', lists, time.time() - t0)

    with ThreadPoolExecutor(max_workers=min(NCPU, max(1, len(files)))) as ex:
        res = list(ex.map(one, files))
    return res


# ----------------------------------------------------------------------------
# known findings
def load_findings(prop):
    p = VERIF / 'known_findings.json'
    if not p.exists():
        return []
    data = json.loads(p.read_text())
    return [e for e in data.get('findings', []) if e.get('property') == prop and e.get('status') == 'known']


# ----------------------------------------------------------------------------
# the uniform verdict
class Result:
    """What a property harness hands back to `check`."""

    def __init__(self, prop):
        self.prop = prop
        self.obl = None            # dict from check_obligations
        self.mismatches = []       # correspondence disagreements: list of dict(case=..., model=..., impl=...)
        self.spec_fails = []       # list of dict(case=..., why=..., finding=<id or None>)
        self.coverage = {}         # extra evidence keys
        self.assumptions = []
        self.notes = []
        self.search = None         # callable(budget)-> failing case dict or None (implementation + spec only)
        self.infra_errors = []     # harness problems that are not verdicts


def finish(res, tier, seed, t0, level='proof'):
    prop = res.prop
    known = {e['id']: e for e in load_findings(prop)}
    lines = []
    violations = []
    seen_known = {}
    for sf in res.spec_fails:
        fid = sf.get('finding')
        if fid and fid in known:
            seen_known.setdefault(fid, sf)
        else:
            violations.append(sf)
    for fid, sf in seen_known.items():
        lines.append('KNOWN-FINDING: property=%s %s [%s]' % (prop, known[fid]['what'], fid))
    rdir = VERIF / 'replays' / prop
    broken = []
    obl = res.obl or dict(obligations=0, discharged=0, failures=['no obligations run'], axioms={}, cmds=[])
    if obl['failures']:
        broken += ['obligation: ' + f for f in obl['failures']]
    if res.mismatches:
        broken += ['correspondence: model and implementation disagree on %d case(s)' % len(res.mismatches)]
    if res.infra_errors:
        broken += ['harness: ' + e for e in res.infra_errors]
    exit_code = 0
    if violations:
        rdir.mkdir(parents=True, exist_ok=True)
        v = violations[0]
        path = rdir / ('violation_%s_%d.json' % (tier, seed))
        path.write_text(json.dumps(dict(property=prop, kind='spec_fail', **v), indent=1, default=str))
        lines.append('VIOLATION property=%s replay=%s' % (prop, path))
        exit_code = 1
    elif broken:
        rdir.mkdir(parents=True, exist_ok=True)
        found = None
        if res.search is not None:
            try:
                found = res.search(tier)   # the search is sized by the tier: minutes in quick, the full budget in thorough
            except Exception as e:  # the search itself must not hide the broken proof
                res.notes.append('search failed: %r' % (e,))
        path = rdir / ('broken_%s_%d.json' % (tier, seed))
        if found is not None and not (found.get('finding') in known):
            path.write_text(json.dumps(dict(property=prop, kind='spec_fail_after_broken_proof', broken=broken, **found),
                                       indent=1, default=str))
            lines.append('VIOLATION property=%s replay=%s' % (prop, path))
        else:
            payload = dict(property=prop, kind='no-failing-input-found', broken=broken,
                           obligation_log=(obl.get('log') or '')[-4000:],
                           first_mismatch=res.mismatches[0] if res.mismatches else None)
            path.write_text(json.dumps(payload, indent=1, default=str))
            lines.append('VIOLATION property=%s replay=%s no-failing-input-found' % (prop, path))
        exit_code = 1
    tb = ['Coq 8.16.1 kernel + vm_compute (no native_compute)']
    axs = sorted({a for v in obl.get('axioms', {}).values() for a in v})
    tb.append('axioms (Print Assumptions): ' + (', '.join(axs) if axs else 'none - all obligations closed under the global context'))
    tb += res.coverage.pop('trusted_base_extra', [])
    cov = dict(obligations=obl['obligations'], discharged=obl['discharged'],
               checker_cmd=' && '.join(obl.get('cmds', [])) or 'make', trusted_base=tb)
    cov.update(res.coverage)
    cov.update(getattr(res, 'coverage_extra', {}))
    cov['obligation_names'] = list(obl.get('axioms', {}).keys())
    cov['broken'] = broken
    cov['known_findings_reproduced'] = sorted(seen_known)
    cov['notes'] = res.notes
    cov = sanitize_coverage(cov)
    ev = dict(property_id=prop, tier=tier, seed=seed, level=level, coverage=cov,
              assumptions=res.assumptions, wall_s=round(time.time() - t0, 2),
              violations=len(violations) + (1 if (broken and not violations) else 0))
    (VERIF / 'evidence').mkdir(exist_ok=True)
    (VERIF / 'evidence' / ('%s.json' % prop)).write_text(json.dumps(ev, indent=1, default=str) + '\n')
    for l in lines:
        print(l)
    print('%s %s tier=%s seed=%d obligations=%d/%d cases=%s mismatches=%d spec_fails=%d (%d known) wall=%.1fs'
          % ('FAIL' if exit_code else 'OK', prop, tier, seed, obl['discharged'], obl['obligations'],
             cov.get('evaluations'), len(res.mismatches), len(res.spec_fails), len(res.spec_fails) - len(violations),
             time.time() - t0))
    return exit_code


_INT_KEYS = ('evaluations', 'distinct_nontrivial', 'states', 'transitions', 'traces_validated_against_impl',
             'obligations', 'discharged', 'programs', 'disagreements_checked')


def sanitize_coverage(cov):
    """Keep the keys the evidence schema types in the type it demands; anything a harness put
    there in another shape moves to a *_note key instead of making the file invalid."""
    out = dict(cov)
    for k in _INT_KEYS:
        if k in out and not (isinstance(out[k], int) and not isinstance(out[k], bool)):
            out[k + '_note'] = out.pop(k)
    if 'exhaustive' in out and not isinstance(out['exhaustive'], bool):
        out['exhaustive_scope'] = out['exhaustive']
        out['exhaustive'] = True
    for k in ('rule', 'explanation', 'checker_cmd'):
        if k in out and not isinstance(out[k], str):
            out[k] = json.dumps(out[k], default=str)
    if 'samples' in out and not isinstance(out['samples'], list):
        out['samples'] = [out['samples']]
    if 'trusted_base' in out:
        out['trusted_base'] = [x if isinstance(x, str) else json.dumps(x, default=str) for x in out['trusted_base']]
    if not out.get('samples'):
        out['samples'] = ['(no case was generated in this run)']
    return out


def rng(seed, prop):
    return random.Random('%s-%d' % (prop, seed))


def chunks(xs, n):
    return [xs[i:i + n] for i in range(0, len(xs), n)]
