"""Shared harness of the tracer engine E1 (C01 C02 C04 C12 C13): program generation, the
two-phase oracle driver, Coq shards (Concrete model vs implementation, Spec on the
implementation), Python-side specification and hypothesis classification."""
import json
import os
import shutil
import subprocess
from concurrent.futures import ThreadPoolExecutor

from harness import core, progs

SHIM = core.VERIF / 'harness' / 'vclock.so'


def ensure_shim():
    src = core.VERIF / 'harness' / 'vclock.c'
    if not SHIM.exists() or SHIM.stat().st_mtime < src.stat().st_mtime:
        core.sh(['gcc', '-O2', '-shared', '-fPIC', '-o', str(SHIM), str(src), '-ldl'], check=True)


def gen_programs(rnd, n, feature_sets=None, threads=False, ticks=(0, 0, 1, 7)):
    out = []
    fs = feature_sets or progs.FEATURE_SETS
    for i in range(n):
        feats = fs[i % len(fs)]
        p = progs.make_program(rnd, set(feats), threads=threads)
        p['tick'] = rnd.choice(ticks)
        out.append(p)
    return out


def run_oracle(impl, programs, tag):
    """Run programs through harness.drivers.e1 in parallel worker processes."""
    ensure_shim()
    root = core.SCRATCH_ROOT / 'tmp' / ('e1_%s_%d' % (tag, os.getpid()))
    root.mkdir(parents=True, exist_ok=True)
    nw = min(core.NCPU, max(1, len(programs) // 8))
    # batches small enough that one of them finishes well inside its time limit on a loaded machine
    nparts = max(nw, -(-len(programs) // 250))
    parts = [programs[i::nparts] for i in range(nparts)]

    def attempt(k):
        env = core.impl_env(impl, LD_PRELOAD=str(SHIM), VCLOCK_TICK='0')
        p = subprocess.run([core.PY, '-m', 'harness.drivers.e1'], input=json.dumps(dict(programs=parts[k], root=str(root / str(k)))),
                           env=env, cwd=str(impl), stdout=subprocess.PIPE, stderr=subprocess.PIPE, text=True, timeout=900)
        for line in p.stdout.splitlines():
            if line.startswith('RESULT '):
                r = json.loads(line[7:])
                if not r['impl_file'].startswith(str(impl)):
                    raise RuntimeError('driver did not run the scratch build')
                if not r['have_clock']:
                    raise RuntimeError('virtual clock shim not loaded')
                return r['out']
        raise RuntimeError('e1 driver failed rc=%s: %s' % (p.returncode, p.stderr[-2000:]))

    def one(k):
        # a stuck or crashed worker is a harness problem, never a verdict: retry once, then give up (exit 2)
        try:
            return attempt(k)
        except (RuntimeError, subprocess.TimeoutExpired) as e:
            first = e
        try:
            return attempt(k)
        except (RuntimeError, subprocess.TimeoutExpired) as e:
            raise RuntimeError('oracle worker failed twice: %r / %r' % (first, e))
    try:
        with ThreadPoolExecutor(max_workers=nw) as ex:
            res = list(ex.map(one, range(nparts)))
    finally:
        shutil.rmtree(root, ignore_errors=True)
    out = [None] * len(programs)
    for k in range(nparts):
        for j, r in enumerate(res[k]):
            out[k + j * nparts] = r
    return out


# ---- Coq encoding -----------------------------------------------------------------
def z(n):
    return '(%d)' % n if n < 0 else str(n)


def enc_ops(ops):
    out = []
    for o in ops:
        k = o[0]
        if k in ('L', 'R'):
            out.append('%s %s %s %s %s %s' % (k, z(o[1]), z(o[2]), z(o[3]), z(o[4]), z(o[5])))
        elif k == 'G':
            out.append('G %s %s' % (z(o[1]), z(o[2])))
        elif k in ('E', 'D'):
            out.append('%s %s' % (k, z(o[1])))
        elif k == 'A':
            out.append('A %s' % z(o[1]))
        elif k == 'S':
            out.append('S')
    return '[' + '; '.join(out) + ']'


def enc_codes(codes):
    return '[' + '; '.join('mkcode %s %s %s %s [%s]' % (z(c['b']), z(c['k']), z(c['lbl']), z(c['hash']),
                                                         '; '.join(z(l) for l in c['lines'])) for c in codes) + ']'


def enc_snaps(snaps):
    return '[' + '; '.join('[' + '; '.join('(%s, [%s])' % (z(lbl), '; '.join('(%s, %s, %s)' % (z(a), z(b), z(c)) for a, b, c in ents))
                                            for lbl, ents in s['timings']) + ']' for s in snaps) + ']'


HEADER = 'From Coq Require Import List ZArith.\nFrom LP Require Import Trace.ZMap Trace.Concrete Trace.Spec Trace.Shard.\nImport ListNotations.\nOpen Scope Z_scope.\n'


def coq_verdicts(name, progs_, outs, with_time_flags):
    """Returns for every program (model_ok, spec_hits_ok, spec_time_ok) or None when skipped."""
    items = []
    for i, (p, o) in enumerate(zip(progs_, outs)):
        if o is None or 'fatal' in o:
            continue
        items.append(i)
    # shards by size
    shards, cur, size = [], [], 0
    for i in items:
        n = len(outs[i]['ops'])
        if cur and (size + n > 25000 or len(cur) >= 60):
            shards.append(cur)
            cur, size = [], 0
        cur.append(i)
        size += n
    if cur:
        shards.append(cur)
    bodies = []
    for sh in shards:
        rows = []
        for i in sh:
            o = outs[i]
            rows.append('(verdicts7 %s %d %s %s %s)' % (enc_codes(o['codes']), progs_[i].get('tick', 0),
                                                        'true' if with_time_flags[i] else 'false',
                                                        enc_ops(o['ops']), enc_snaps(o['snaps'])))
        body = 'Definition rows : list (bool * bool * bool * bool * bool * bool * bool) := [\n' + ';\n'.join(rows) + '].\n'
        body += 'Definition fi (l : list bool) := (fix go (i : Z) (l : list bool) := match l with [] => [] | b :: t => if b then go (i+1) t else i :: go (i+1) t end) 0 l.\n'
        body += 'Eval vm_compute in (fi (map (fun r => fst (fst (fst (fst (fst (fst r)))))) rows)).\n'
        body += 'Eval vm_compute in (fi (map (fun r => snd (fst (fst (fst (fst (fst r)))))) rows)).\n'
        body += 'Eval vm_compute in (fi (map (fun r => snd (fst (fst (fst (fst r))))) rows)).\n'
        body += 'Eval vm_compute in (fi (map (fun r => snd (fst (fst (fst r)))) rows)).\n'
        body += 'Eval vm_compute in (fi (map (fun r => snd (fst (fst r))) rows)).\n'
        body += 'Eval vm_compute in (fi (map (fun r => snd (fst r)) rows)).\n'
        body += 'Eval vm_compute in (fi (map (fun r => snd r) rows)).\n'
        bodies.append(body)
    res = core.run_shards(name, HEADER, bodies, timeout=1500)
    verdict = {}
    errors = []
    for sh, r in zip(shards, res):
        if r[0] != 'ok' or len(r[1]) != 7:
            errors.append(str(r[1])[-800:])
            continue
        bad = [set(x) for x in r[1]]
        for j, i in enumerate(sh):
            verdict[i] = tuple(j not in b for b in bad)
    return verdict, errors


# ---- Python-side specification (the ideal per-segment profiler) ---------------------
def py_spec_snaps(o, tick):
    codes = o['codes']
    stat = {}
    pend = {}
    reg = []
    en = set()
    thr = {}
    now = 0
    snaps = []
    for op in o['ops']:
        k = op[0]
        if k == 'G':
            if op[2] not in reg:
                reg.append(op[2])
        elif k == 'E':
            en.add(op[1])
        elif k == 'D':
            en.discard(op[1])
            for fs in [fs for fs, t in thr.items() if t == op[1]]:
                pend.pop(fs, None)
        elif k == 'A':
            now += op[1]
        elif k in ('W', 'WO', 'WC'):
            continue
        elif k == 'S':
            snap = {}
            for c in reg:
                lbl = codes[c]['lbl']
                snap[lbl] = sorted([l, h, t] for l, (h, t) in stat.get(lbl, {}).items())
            snaps.append(sorted([lbl, ents] for lbl, ents in snap.items()))
        else:
            _, t, c, f, s, l = op
            if t not in en or c not in reg:
                continue
            lbl = codes[c]['lbl']
            time1 = now
            now += tick
            if (f, s) in pend:
                plbl, pl, t2 = pend.pop((f, s))
                e = stat.setdefault(plbl, {}).setdefault(pl, [0, 0])
                e[1] += time1 - t2
            if k == 'L':
                e = stat.setdefault(lbl, {}).setdefault(l, [0, 0])
                e[0] += 1
                pend[(f, s)] = (lbl, l, now)
                thr[(f, s)] = t
                now += tick
    return snaps


def py_conserved(o, tick):
    """The conservation clause of C02 on the implementation's snapshots (one-thread histories): at every get_stats()
    the times a label reports sum to at most the clock time during which the thread had the profiler enabled -
    `enabled_time` of Trace/Conserved.v, computed here by the same fold (a step's clock advance counts when the thread
    is enabled at the step's start; accepted LINE events read the clock twice, accepted RETURN events once)."""
    codes = o['codes']
    reg, en, now, ent, k = [], set(), 0, 0, 0
    threads = {op[1] for op in o['ops'] if op[0] in ('E', 'D', 'L', 'R')}
    if len(threads) > 1:
        return True, ''
    for op in o['ops']:
        kind = op[0]
        adv = 0
        if kind == 'G':
            if op[2] not in reg and codes[op[2]]['lines']:
                reg.append(op[2])
        elif kind == 'A':
            adv = op[1]
        elif kind in ('L', 'R'):
            _, t, c, f, s_, l = op
            if t in en and c in reg and l in codes[c]['lines']:
                adv = 2 * tick if kind == 'L' else tick
        if en:
            ent += adv
        now += adv
        if kind == 'E':
            en.add(op[1])
        elif kind == 'D':
            en.discard(op[1])
        elif kind == 'S':
            if k < len(o['snaps']):
                for lbl, ents in o['snaps'][k]['timings']:
                    tot = sum(e[2] for e in ents)
                    if tot > ent:
                        return False, ('the line times of one function sum to %d ticks at snapshot %d although the profiler '
                                       'was enabled for only %d ticks (label %r)' % (tot, k, ent, lbl))
            k += 1
    return True, ''


def hypotheses(o):
    """Executable hypotheses of the theorems, evaluated on a history.  Returns dict name -> bool
    and witnesses used by the known-finding classifiers."""
    codes = o['codes']
    reg = []
    en = set()
    live = {}          # (t) -> list of (c, f, s) live segments stack (per thread, by events)
    inflight = {}      # (f, s) -> True when a line of registered code is open
    thr = {}
    res = dict(NoCollision=True, SegmentsClosed=True, LinesKnown=True, LabelsDistinct=True, NonReentrant=True, SnapsQuiescent=True)
    wit = {}
    nsnap = 0
    executed = set()
    open_seg = {}      # t -> dict c -> set of (f,s) with an open line
    for op in o['ops']:
        k = op[0]
        if k == 'G':
            if op[2] not in reg:
                reg.append(op[2])
        elif k == 'E':
            en.add(op[1])
        elif k == 'D':
            t = op[1]
            en.discard(t)
            if any(v for v in open_seg.get(t, {}).values()):
                res['SegmentsClosed'] = False
                wit.setdefault('SegmentsClosed', 'disable with a line in flight')
            open_seg[t] = {}
        elif k == 'S':
            for t, d in open_seg.items():
                if any(v for v in d.values()):
                    # the line being executed is counted when it ends: this snapshot is judged by the model (and the
                    # theorem's in_flight term) only, the others by the specification as usual
                    res['SnapsQuiescent'] = False
                    wit.setdefault('inflight_snaps', []).append(nsnap)
                    break
            nsnap += 1
        elif k in ('L', 'R'):
            _, t, c, f, s, l = op
            executed.add(c)
            if t in en and c in reg:
                if l not in codes[c]['lines']:
                    res['LinesKnown'] = False
                d = open_seg.setdefault(t, {}).setdefault(codes[c]['hash'], set())
                if k == 'L':
                    if any(fs != (f, s) for fs in d):
                        res['NonReentrant'] = False
                        wit.setdefault('NonReentrant', dict(code=c, line=l))
                    d.add((f, s))
                else:
                    d.discard((f, s))
    # LabelsDistinct: distinct registered code objects with one label
    seen = {}
    for c in reg:
        lbl = codes[c]['lbl']
        if lbl in seen and seen[lbl] != c:
            res['LabelsDistinct'] = False
            wit.setdefault('LabelsDistinct', dict(label=lbl, codes=[seen[lbl], c]))
        seen.setdefault(lbl, c)
    # NoCollision, as Trace/Main.v defines it: registered codes have pairwise distinct hashes; line hashes of
    # (registered code, line of its table) never coincide with those of another registered (code, line) or of
    # the (code, line) of any event in the history
    regs = list(dict.fromkeys(reg))
    for i, c1 in enumerate(regs):
        for c2 in regs[i + 1:]:
            if codes[c1]['hash'] == codes[c2]['hash']:
                res['NoCollision'] = False
    points = set()
    for op in o['ops']:
        if op[0] in ('L', 'R'):
            points.add((op[2], op[5]))
    keys = {}
    for c in regs:
        for l in codes[c]['lines']:
            keys.setdefault(codes[c]['hash'] ^ l, []).append((c, l, True))
    regset = set(regs)
    for (c, l) in points:
        keys.setdefault(codes[c]['hash'] ^ l, []).append((c, l, c in regset))
    for key, lst in keys.items():
        for (c1, l1, r1) in lst:
            if not r1:
                continue
            for (c2, l2, r2) in lst:
                if (c2, l2) != (c1, l1) and (r2 and c1 != c2 or not r2):
                    if not r2 or c1 != c2:
                        res['NoCollision'] = False
                        a = (codes[c1]['b'], codes[c1]['k'], codes[c1]['lbl'])
                        b = (codes[c2]['b'], codes[c2]['k'], codes[c2]['lbl'])
                        w = dict(a=list(a), b=list(b), line=l1, same_bytecode=(a[0], a[1]) == (b[0], b[1]),
                                 a_registered=True, b_registered=c2 in regset)
                        wit.setdefault('collisions', []).append(w)
                        wit.setdefault('NoCollision', w)
    return res, wit


def wrapped_always_enabled(o):
    """A function decorated by the profiler must execute with the profiler enabled in its thread (the
    wrapper enables around every call / generator step / coroutine step).  Checked on the recorded
    history: an L event of a decorated function's code in a thread that is not enabled is a violation."""
    codes = o['codes']
    en, wrapped = set(), set()
    direct = set(map(tuple, o.get('direct_segs', [])))
    for op in o['ops']:
        k = op[0]
        if k == 'E':
            en.add(op[1])
        elif k == 'D':
            en.discard(op[1])
        elif k == 'W':
            wrapped.add(op[1])
        elif k == 'L':
            if (op[3], op[4]) in direct:
                continue        # not run by the wrapper (e.g. the interpreter finalising an abandoned generator itself)
            if codes[op[2]]['lbl'] in wrapped and op[1] not in en:
                return False, 'decorated function (label %d) executed line %d with the profiler off' % (codes[op[2]]['lbl'], op[5])
    return True, ''


def program_windows_stay_enabled(o):
    """While the program itself holds an enable window open (`with prof:` / its own enable_by_count()), nothing may
    switch its thread's profiler off: a D event of that thread inside such a window is a violation."""
    depth = {}
    for op in o['ops']:
        k = op[0]
        if k == 'WO':
            depth[op[1]] = depth.get(op[1], 0) + 1
        elif k == 'WC':
            depth[op[1]] = depth.get(op[1], 0) - 1
        elif k == 'D' and depth.get(op[1], 0) > 0:
            return False, 'the profiler was switched off in thread %d while the program held an enable window open' % op[1]
    return True, ''


def impl_hits(snap):
    return [[lbl, [[l, h] for l, h, t in ents]] for lbl, ents in snap['timings']]


def spec_hits(s):
    return [[lbl, [[l, h] for l, h, t in ents]] for lbl, ents in s]


# ---- C12 on the Python side: snapshots well-formed and monotone --------------------------
def snaps_wf_monotone(o):
    codes = o['codes']
    lines_of = {}
    for c in codes:
        lines_of.setdefault(c['lbl'], set()).update(c['lines'])
    prev = None
    for s in o['snaps']:
        cur = {}
        for lbl, ents in s['timings']:
            ls = [e[0] for e in ents]
            if ls != sorted(set(ls)):
                return False, 'entries of label %d not sorted/unique' % lbl
            for l, h, t in ents:
                if h < 1 or t < 0 or l not in lines_of.get(lbl, ()):
                    return False, 'entry (%d,%d,%d) of label %d malformed' % (l, h, t, lbl)
            cur[lbl] = {l: (h, t) for l, h, t in ents}
        if prev is not None:
            for lbl, d in prev.items():
                if lbl not in cur:
                    return False, 'label %d vanished' % lbl
                for l, (h, t) in d.items():
                    if l not in cur[lbl] or cur[lbl][l][0] < h or cur[lbl][l][1] < t:
                        return False, 'label %d line %d went from %r to %r' % (lbl, l, (h, t), cur[lbl].get(l))
        prev = cur
    return True, ''


def peeks_below_final(o):
    """Reads taken by a monitoring thread while workers run: well-formed and never above the final snapshot."""
    final = {lbl: {l: (h, t) for l, h, t in ents} for lbl, ents in o['snaps'][-1]['timings']}
    for pk in o['peeks']:
        for lbl, ents in pk:
            for l, h, t in ents:
                f = final.get(lbl, {}).get(l)
                if h < 1 or t < 0 or f is None or f[0] < h or f[1] < t:
                    return False, 'a mid-run read showed (%d,%d,%d) for label %d, the final snapshot shows %r' % (l, h, t, lbl, f)
    return True, ''


def classify(o, hyp, wit, aspect):
    """Map a failing case to a known-finding id by the hypothesis it falls outside of."""
    if not hyp['NoCollision']:
        cols = [w for w in wit.get('collisions', []) if w['same_bytecode']]
        seen_after, rereg = set(), False
        for op in o['ops']:
            if op[0] == 'G':
                if op[1] in seen_after:
                    rereg = True        # a function that was registered before is registered again
                seen_after.add(op[2])
        if rereg and any(w['a_registered'] and w['b_registered'] for w in cols):
            return 'padcollide'
        if any(w['a_registered'] != w['b_registered'] for w in cols):
            return 'twin'
    if not hyp['LabelsDistinct']:
        return 'samelabel'
    if aspect == 'time' and not hyp['NonReentrant'] and hyp['NoCollision']:
        return 'recursion'      # (colliding block hashes also look re-entrant: that is not the recursion finding)
    return None


FINDING_IDS = {
    ('C04', 'twin'): 'C04-unregistered-twin-crosstalk',
    ('C04', 'padcollide'): 'C04-padding-collision-after-reregistration',
    ('C04', 'samelabel'): 'C04-equal-label-shadowing',
    ('C12', 'samelabel'): 'C12-reregister-loses-data',
    ('C02', 'recursion'): 'C02-recursion-callee-time',
}


def sample(p, o, n=12):
    return dict(features=p['features'], tick=p.get('tick'), threads=p['threads'], sched=p.get('sched'), nops=len(o.get('ops', [])),
                ops_head=o.get('ops', [])[:n], snaps=o.get('snaps', [])[:1])


def run_property(prop, module, theorems, tier, seed, nquick, nthorough, feature_sets, aspect, threads=False,
                 ticks=(0, 0, 1, 7), accept_findings=(), extra_cases=None):
    """aspect: 'hits' | 'time' | 'mono' - which part of the specification this property judges."""
    import time as _time
    rnd = core.rng(seed, prop)
    res = core.Result(prop)
    gen = core.regenerate(['TraceCore.v', 'PyLayer.v'])
    res.obl = core.check_obligations(prop, module, theorems, extra_vo=['theories/Trace/Shard.vo'])
    for g in ('TraceCore.v', 'PyLayer.v'):
        if gen.get(g):
            res.obl['failures'].append('translator refused the source (%s): %s' % (g, gen[g]))
    if tier == 'thorough' and not res.obl['failures']:
        core.thorough_coqchk(res, module)
    impl = core.build_impl()
    n = nquick if tier == 'quick' else nthorough
    programs = gen_programs(rnd, n, feature_sets, threads=threads, ticks=ticks)
    if extra_cases:
        programs = extra_cases + programs
    outs = run_oracle(impl, programs, prop.lower())
    # times are judged when the execution order is determined: one thread, or threads under an explicit schedule
    with_time = [not p['threads'] or p.get('sched') is not None for p in programs]
    model_built = not any('build of' in f for f in res.obl['failures'])
    if not model_built:
        # the property file may be broken by the source tie alone (the translator refused the source / the generated
        # core no longer equals the model): the hand model and the shard evaluator are still worth running, their
        # disagreement with the implementation is the failing input
        rc, _ = core.coq_make(['theories/Trace/Shard.vo'])
        model_built = rc == 0
    verdict, errors = ({}, [])
    if model_built:
        verdict, errors = coq_verdicts(prop.lower(), programs, outs, with_time)
        for e in errors:
            res.infra_errors.append('shard failed: ' + e[-400:])
    hyp_counts = dict(NoCollision=0, SegmentsClosed=0, LinesKnown=0, LabelsDistinct=0, NonReentrant=0, SnapsQuiescent=0, all=0)
    nontrivial = set()
    nevents = 0

    def judge(i, p, o):
        """python-side verdict: (ok, why, finding)"""
        if 'fatal' in o:
            return None
        if o.get('errA') != o.get('errB'):
            return (False, 'program ended differently with and without the profiler: %r vs %r' % (o.get('errA'), o.get('errB')), None)
        hyp, wit = hypotheses(o)
        spec = py_spec_snaps(o, p.get('tick', 0))
        impl_s = [x['timings'] for x in o['snaps']]
        ok, why = True, ''
        outside = not hyp['SegmentsClosed']     # code that switches its own profiler off mid-line: model only
        if o.get('not_registered'):
            ok, why = False, 'registration entry point did not register %r' % (o['not_registered'],)
        elif o.get('impure'):
            ok, why = False, 'reading the statistics performed profiler operations [mode, op]: %r' % (o['impure'][:3],)
        elif aspect in ('hits', 'time') and not outside:
            skip = set(wit.get('inflight_snaps', []))
            if len(spec) != len(impl_s):
                ok, why = False, 'number of snapshots differs: %d expected, %d delivered' % (len(spec), len(impl_s))
            else:
                q = [i for i in range(len(spec)) if i not in skip]
                if [spec_hits(spec[i]) for i in q] != [impl_hits(o['snaps'][i]) for i in q]:
                    ok, why = False, 'reported hit counts differ from the executed line events'
                elif aspect == 'time' and not p['threads'] and [spec[i] for i in q] != [impl_s[i] for i in q]:
                    ok, why = False, 'reported times differ from the per-activation specification'
        if ok and aspect == 'time' and not p['threads'] and hyp['NoCollision'] and hyp['LabelsDistinct']:
            # conservation (Props/C02.v C02_conserved) holds for every one-thread history, self-disabling code included
            ok, why = py_conserved(o, p.get('tick', 0))
        if ok and aspect == 'time' and any(abs(x.get('unit', 1e-9) - 1e-9) > 1e-24 for x in o['snaps']):
            # times are compared as integer ticks; the tick the profiler announces must be the nanosecond they are in
            ok, why = False, 'the reported timer unit is %r, the ticks are nanoseconds' % ([x.get('unit') for x in o['snaps']][:1],)
        if ok and aspect == 'mono':
            ok, why = snaps_wf_monotone(o)
        if ok and aspect == 'mono' and not outside and not p['threads'] and hyp['NoCollision'] and hyp['LabelsDistinct'] \
                and hyp.get('LinesKnown', True):
            # "reading never changes later results": whatever was read, and whenever, the quiescent snapshots still show
            # the executed line events (the reads are no operations of the specification)
            skip = set(wit.get('inflight_snaps', []))
            if len(spec) == len(impl_s):
                q = [i for i in range(len(spec)) if i not in skip]
                if [spec_hits(spec[i]) for i in q] != [impl_hits(o['snaps'][i]) for i in q]:
                    ok, why = False, 'reported hit counts differ from the executed line events (after earlier reads / re-registrations)'
        if ok and aspect in ('hits', 'time') and not outside and 'selfdisable' not in p['features']:
            # (programs whose functions switch their own profiler off legitimately run lines unprofiled)
            ok, why = wrapped_always_enabled(o)
            if ok:
                ok, why = program_windows_stay_enabled(o)
        if ok and o.get('peeks') and o.get('snaps'):
            ok, why = peeks_below_final(o)
        if p['threads']:
            if any(v != 0 for v in o.get('counts', {}).values()) or not o.get('gettrace_clear', True) or not o.get('tool_free', True):
                ok, why = False, 'enable count / trace slot / tool not released after the threads finished: %r' % (o.get('counts'),)
        fid = None
        if not ok:
            fid = FINDING_IDS.get((prop, classify(o, hyp, wit, 'time' if 'times' in why else aspect)))
        return (ok, why, fid, hyp, wit)

    for i, (p, o) in enumerate(zip(programs, outs)):
        if 'fatal' in o:
            res.infra_errors.append('driver: ' + o['fatal'][-300:])
            continue
        nevents += len(o['ops'])
        j = judge(i, p, o)
        ok, why, fid, hyp, wit = j if len(j) == 5 else (j[0], j[1], j[2], {}, {})
        for k in hyp:
            if hyp[k]:
                hyp_counts[k] += 1
        if hyp and all(hyp.values()):
            hyp_counts['all'] += 1
            if any(op[0] == 'L' for op in o['ops']):
                nontrivial.add(json.dumps(o['ops'][:400]))
        v = verdict.get(i)
        if v is not None and hyp and v[4] != hyp['NoCollision']:
            res.infra_errors.append('no_collision evaluated in Coq (%s) and in Python (%s) disagree on program %d' % (v[4], hyp['NoCollision'], i))
        if v is not None and not v[5] and ok and not p['threads'] and hyp.get('SegmentsClosed', True) and aspect in ('hits', 'time'):
            # the theorems' own right-hand sides (executed - in_flight - dropped; per-activation time) disagree
            # with the implementation's last snapshot although the executable specification agrees
            res.infra_errors.append('theorem right-hand side and executable specification disagree on program %d' % i)
        if v is not None and not v[5] and not ok:
            pass
        if v is not None and len(v) > 6 and not v[6] and ok and aspect == 'time' and not p['threads']:
            ok, why, fid = False, 'conservation evaluated in Coq on the implementation\'s snapshots fails: a label\'s line times sum to more than enabled_time (Shard.conserved_ok)', None
        if v is not None and not v[0]:
            res.mismatches.append(dict(case=sample(p, o, 40), program=p['files'], impl=dict(snaps=o['snaps'][:2]),
                                       model='concrete tracer model disagrees with the implementation'))
        if v is not None:
            coq_ok = {'hits': v[1], 'time': v[1] and v[2], 'mono': v[3]}[aspect]
            if coq_ok != ok and not p['threads'] and (o.get('errA') == o.get('errB')) and hyp.get('SegmentsClosed', True) \
                    and hyp.get('SnapsQuiescent', True) and not o.get('impure') and 'mid-run read' not in why \
                    and not o.get('not_registered') and 'decorated function' not in why and 'enable window' not in why and 'timer unit' not in why \
                    and 'line times' not in why:
                res.infra_errors.append('Coq-side and Python-side specification disagree on program %d (%s vs %s: %s)' % (i, coq_ok, ok, why))
        if not ok:
            res.spec_fails.append(dict(case=sample(p, o, 60), program=p['files'], why=why, finding=fid,
                                       hypotheses=hyp, witness=wit))

    def search(budget):
        rnd2 = core.rng(seed + 13, prop)
        ps = gen_programs(rnd2, max(nthorough, 400) if budget == 'thorough' else 1500, feature_sets, threads=threads, ticks=ticks)
        os_ = run_oracle(impl, ps, prop.lower() + 's')
        for i, (p, o) in enumerate(zip(ps, os_)):
            j = judge(i, p, o)
            if j is None or j[0]:
                continue
            known = {e['id'] for e in core.load_findings(prop)}
            if j[2] in known:
                continue
            return dict(case=sample(p, o, 60), program=p['files'], why=j[1], finding=j[2])
        return None
    res.search = search
    kinds = {}
    for o in outs:
        for op in o.get('ops', []):
            kinds[op[0]] = kinds.get(op[0], 0) + 1
    res.coverage = dict(
        evaluations=len(programs), distinct_nontrivial=len(nontrivial),
        rule='seeded structured program generator (harness/progs.py; features per program from %r%s); each program run twice '
             'in one process: phase A under an always-on sys.settrace recorder with marker-only enable/disable (the history), '
             'phase B under the real profiler and the virtual clock (the observations).  non-trivial = all theorem '
             'hypotheses hold and at least one line event; distinct by the recorded history' % (
                 [sorted(f) for f in feature_sets], ', real threads' if threads else ''),
        samples=[sample(p, o) for p, o in list(zip(programs, outs))[:3] if 'fatal' not in o],
        events=nevents, op_kinds=kinds, hypothesis_holds_on=hyp_counts,
        ticks=sorted(set(p.get('tick', 0) for p in programs)),
        trusted_base_extra=[
            'Trace/Concrete.v: hand model of _line_profiler.pyx, proved equal (gen_run = run) to Gen/TraceCore.v, which harness/py2coq/targets_pyx.py regenerates from the .pyx on every run (the translator\'s reading of the Cython forms and of C++ unordered_map is trusted), and tied by correspondence (every snapshot incl. times compared inside Coq)',
            'Gen/PyLayer.v: the Python layer of LineProfiler (which methods it adds, reading methods, registration loops) read off line_profiler.py / line_profiler_utils.py by harness/py2coq/targets_pylayer.py',
            'CPython event delivery: phase-A (sys.settrace) and phase-B (PyEval_SetTrace) see the same events (validated by model = implementation on every program)',
            'LD_PRELOAD virtual CLOCK_MONOTONIC (harness/vclock.c); hash(bytes) taken from the running interpreter',
            'the theorems\' hypotheses are evaluated per history (hypothesis_holds_on)'])
    res.assumptions = ['programs are deterministic (two executions produce the same history)',
                       'no_collision: line hashes injective over registered/executing code (checked per history)']
    return res


def replay(prop, path, aspect):
    data = json.load(open(path))
    impl = core.build_impl()
    files = data.get('program')
    if not files:
        print('replay file carries no program (kind=%s): %s' % (data.get('kind'), data.get('broken')))
        return 1
    case = data.get('case', {})
    p = dict(files=files, names=[], kinds={}, twin_of={}, threads=case.get('threads', False),
             features=case.get('features', []), tick=case.get('tick', 0) or 0)
    if case.get('sched') is not None:
        p['sched'] = case['sched']
    o = run_oracle(impl, [p], prop.lower() + 'r')[0]
    if 'fatal' in o:
        print(o['fatal'])
        return 2
    spec = py_spec_snaps(o, p['tick'])
    if aspect == 'mono':
        ok, why = snaps_wf_monotone(o)
    elif aspect == 'time':
        ok = spec == [x['timings'] for x in o['snaps']]
        why = 'times/hits vs specification'
    else:
        ok = [spec_hits(s) for s in spec] == [impl_hits(x) for x in o['snaps']]
        why = 'hits vs specification'
    print(json.dumps(dict(holds=ok, why=why, spec=spec[:3], impl=[x['timings'] for x in o['snaps']][:3]), indent=1)[:4000])
    return 0 if ok else 1


# ---- canonical replays of the known findings (always part of the corpus) ---------------------
def fixed(files, features, tick=0):
    return dict(files=files, names=[], kinds={}, twin_of={}, threads=False, features=features, tick=tick)


FIXED_RECURSION = fixed([('main.py', """# a directly recursive function: the recursive call line must include the callee's time
def f(x, d):
    if d > 0:
        x = f(x, d - 1) + 1
    A(100)
    return x
def main(P):
    P.reg('f')
    with P.prof:
        P.fn('f')(0, 2)
    P.snap()
""")], ['fixed-recursion'])

FIXED_TWIN = fixed([('main.py', """# f0 is registered; its byte-identical twin (bound as u0) lives at the same lines of another file and is not
def f0(x, d):
    y = x + 1
    return y
def main(P):
    P.reg('f0')
    with P.prof:
        for _ in range(5):
            P.fn('u0')(1, 0)
    P.snap()
"""), ('twin.py', """# twin file
def f0(x, d):
    y = x + 1
    return y
""")], ['fixed-twin'])

FIXED_REREG = fixed([('main.py', """# registering a function again after it ran
def f(x, d):
    y = x + 1
    return y
def main(P):
    P.reg('f')
    with P.prof:
        P.fn('f')(1, 0)
    P.snap()
    P.reg('f')
    P.snap()
""")], ['fixed-rereg'])


FIXED_COTASKS = fixed([('main.py', """# two decorated coroutines alive at once on one thread; the one started first finishes first
class Susp:
    def __await__(self):
        r = yield 7
        return r
async def first(x, d):
    x = x + 1
    await Susp()
    A(5)
    return x
async def second(x, d):
    x = x + 2
    await Susp()
    A(3)
    x = x * 2
    await Susp()
    A(7)
    x = x - 1
    return x
def main(P):
    P.deco('first')
    P.deco('second')
    c1 = P.fn('first')(1, 0)
    c2 = P.fn('second')(2, 0)
    live = [c1, c2]
    for r in range(4):
        for c in list(live):
            try:
                c.send(None)
            except StopIteration:
                live.remove(c)
    P.snap()
    # and the other way round: the one started second finishes first
    c2 = P.fn('second')(3, 0)
    c1 = P.fn('first')(4, 0)
    live = [c2, c1]
    for r in range(4):
        for c in list(live):
            try:
                c.send(None)
            except StopIteration:
                live.remove(c)
    P.snap()
""")], ['fixed-cotasks'])


FIXED_ASYNCIO = fixed([('main.py', """# decorated coroutines as tasks of a real event loop (each task has its own context), overlapping
class Susp:
    def __await__(self):
        r = yield
        return r
async def short(x, d):
    x = x + 1
    await Susp()
    A(5)
    return x
async def long(x, d):
    x = x + 2
    await Susp()
    A(3)
    x = x * 2
    await Susp()
    A(7)
    await Susp()
    x = x - 1
    return x
def main(P):
    import asyncio
    P.deco('short')
    P.deco('long')
    async def grp(*cs):
        return await asyncio.gather(*cs, return_exceptions=True)
    asyncio.run(grp(P.fn('short')(1, 0), P.fn('long')(2, 0)))
    P.snap()
    asyncio.run(grp(P.fn('long')(3, 0), P.fn('short')(4, 0), P.fn('long')(5, 0)))
    P.snap()
""")], ['fixed-asyncio'])


def merge_results(res, res2, label):
    res.mismatches += res2.mismatches
    res.spec_fails += res2.spec_fails
    res.infra_errors += res2.infra_errors
    c1, c2 = res.coverage, res2.coverage
    c1['evaluations'] += c2['evaluations']
    c1['distinct_nontrivial'] += c2['distinct_nontrivial']
    c1['events'] += c2['events']
    c1['samples'] += c2['samples'][:1]
    c1[label] = dict(evaluations=c2['evaluations'], hypothesis_holds_on=c2['hypothesis_holds_on'])
    return res
