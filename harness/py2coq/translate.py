"""py2coq: a fail-closed translator from a first-order subset of Python to Gallina
over LP.Prelude.Py.  Anything outside the subset raises Untranslatable, which
the checks treat like a failed proof obligation.

Shape of the output: every function becomes

    Definition/Fixpoint f [fuel] (params...) : res RET := <body>

where statements are translated in continuation style (the code after an `if`
is duplicated into both arms, so every path ends in `Ok v` or `Err e`).  Methods
thread `self` (a Coq record) and return `Ok (value, self)`.
"""
import ast
import textwrap


class Untranslatable(Exception):
    pass


def fail(node, why):
    line = getattr(node, 'lineno', '?')
    raise Untranslatable('line %s: %s: %s' % (line, why, ast.dump(node)[:200] if isinstance(node, ast.AST) else node))


# ---- types ------------------------------------------------------------------
Z, BOOL, STR, UNIT = 'Z', 'bool', 'string', 'unit'


def L(t):
    return ('list', t)


def O(t):
    return ('option', t)


def T(*ts):
    return ('tuple', tuple(ts))


def R(name):
    return ('rec', name)


def coq_type(t):
    if isinstance(t, str):
        return t
    k = t[0]
    if k == 'list':
        return '(list %s)' % coq_type(t[1])
    if k == 'option':
        return '(option %s)' % coq_type(t[1])
    if k == 'tuple':
        return '(' + ' * '.join(coq_type(x) for x in t[1]) + ')'
    if k == 'rec':
        return t[1]
    raise ValueError(t)


def eqb_for(t, node=None):
    if t == Z:
        return 'Z.eqb'
    if t == STR:
        return 'String.eqb'
    if t == BOOL:
        return 'Bool.eqb'
    fail(node, 'no equality for type %r' % (t,))


class Spec:
    """Everything the translator is told about one function."""

    def __init__(self, name, params, ret, coq_name=None, self_type=None, fuel=False,
                 attrs=None, calls=None, consts=None, defaults=None, methods=None, locals_=None):
        self.name = name                  # python function name
        self.coq_name = coq_name or name
        self.params = params              # [(pyname, type)] without self
        self.ret = ret
        self.self_type = self_type        # ('rec', name) or None
        self.fuel = fuel                  # recursive: add fuel
        self.attrs = attrs or {}          # 'node.level' -> (coq expr, type)   read-only attribute paths
        self.calls = calls or {}          # 'atexit.register' -> handler(tr, node, env) -> see Call handling
        self.consts = consts or {}        # module-level constants: name -> (coq expr, type)
        self.defaults = defaults or {}    # param -> python default AST source
        self.methods = methods or {}      # 'self.enable' -> (coq fn name, ret type) for translated sibling methods
        self.locals = locals_ or {}       # type hints for locals initialised with [] etc.


class Env:
    def __init__(self, vars_):
        self.vars = dict(vars_)           # pyname -> (coqname, type)
        self.refined = {}                 # attribute path -> (coqname, type)

    def copy(self):
        e = Env(self.vars)
        e.refined = dict(self.refined)
        return e


def path_of(node):
    if isinstance(node, ast.Name):
        return node.id
    if isinstance(node, ast.Attribute):
        p = path_of(node.value)
        return None if p is None else p + '.' + node.attr
    return None


class Translator:
    def __init__(self, spec, selffields=None):
        self.s = spec
        self.selffields = selffields or {}   # field -> type (of the self record)
        self.fresh = 0

    def gensym(self, base):
        self.fresh += 1
        return '%s_%d' % (base, self.fresh)

    # ---- expressions: return (text, type) ------------------------------------
    def expr(self, n, env, want=None):
        txt, t = self._expr(n, env, want)
        if want is not None and t != want:
            c = self.coerce(txt, t, want, n)
            return c, want
        return txt, t

    def coerce(self, txt, t, want, n):
        if t == want:
            return txt
        if isinstance(want, tuple) and want[0] == 'option' and want[1] == t:
            return '(Some %s)' % txt
        if t == ('list', None) and isinstance(want, tuple) and want[0] == 'list':
            return txt
        if t == ('option', None) and isinstance(want, tuple) and want[0] == 'option':
            return txt
        if isinstance(want, tuple) and want[0] == 'tuple' and isinstance(t, tuple) and t[0] == 'tuple':
            fail(n, 'tuple coercion must happen element-wise')
        fail(n, 'cannot use a value of type %r where %r is expected' % (t, want))

    def _expr(self, n, env, want):
        s = self.s
        if isinstance(n, ast.Constant):
            v = n.value
            if v is None:
                return 'None', ('option', want[1] if (isinstance(want, tuple) and want[0] == 'option') else None)
            if v is True or v is False:
                return ('true' if v else 'false'), BOOL
            if isinstance(v, int):
                return '(%d)' % v, Z
            if isinstance(v, str):
                if any(not (32 <= ord(c) < 127) for c in v):
                    fail(n, 'non-ASCII string literal')
                return '"%s"' % v.replace('"', '""'), STR
            fail(n, 'constant')
        p = path_of(n)
        if p is not None:
            if p in env.refined:
                return env.refined[p]
            if isinstance(n, ast.Name):
                if n.id in env.vars:
                    return env.vars[n.id]
                if n.id in s.consts:
                    return s.consts[n.id]
                fail(n, 'unbound name')
            if p in s.attrs:
                return s.attrs[p]
            if p.startswith('self.') and p.count('.') == 1 and n.attr in self.selffields:
                return '(%s %s)' % (n.attr_coq if hasattr(n, 'attr_coq') else self.field(n.attr), env.vars['self'][0]), self.selffields[n.attr]
            fail(n, 'attribute without a binding')
        if isinstance(n, ast.List):
            return self.list_display(n, env, want)
        if isinstance(n, ast.Tuple):
            wants = want[1] if (isinstance(want, tuple) and want[0] == 'tuple') else [None] * len(n.elts)
            if len(wants) != len(n.elts):
                fail(n, 'tuple arity')
            parts = [self.expr(e, env, w) for e, w in zip(n.elts, wants)]
            return '(' + ', '.join(p[0] for p in parts) + ')', ('tuple', tuple(p[1] for p in parts))
        if isinstance(n, ast.UnaryOp) and isinstance(n.op, ast.Not):
            return '(negb %s)' % self.truthy(n.operand, env), BOOL
        if isinstance(n, ast.UnaryOp) and isinstance(n.op, ast.USub):
            a, t = self.expr(n.operand, env, Z)
            return '(- %s)' % a, Z
        if isinstance(n, ast.BoolOp):
            op = ' && ' if isinstance(n.op, ast.And) else ' || '
            return '(' + op.join(self.truthy(v, env) for v in n.values) + ')', BOOL
        if isinstance(n, ast.BinOp):
            return self.binop(n, env, want)
        if isinstance(n, ast.Compare):
            return self.compare(n, env), BOOL
        if isinstance(n, ast.Subscript):
            return self.subscript(n, env)
        if isinstance(n, ast.Call):
            return self.call(n, env, want)
        if isinstance(n, ast.JoinedStr):
            return '""', STR   # only ever used as an exception message
        fail(n, 'expression form outside the subset')

    def field(self, name):
        return 'f_' + name.lstrip('_')

    def list_display(self, n, env, want):
        et = want[1] if (isinstance(want, tuple) and want[0] == 'list') else None
        parts = []
        for e in n.elts:
            if isinstance(e, ast.Starred):
                a, t = self.expr(e.value, env, L(et) if et else None)
                if not (isinstance(t, tuple) and t[0] == 'list'):
                    fail(e, 'starred non-list')
                et = et or t[1]
                parts.append(a)
            else:
                a, t = self.expr(e, env, et)
                et = et or t
                parts.append('[%s]' % a)
        if not parts:
            return '[]', ('list', et)
        return '(' + ' ++ '.join(parts) + ')', L(et)

    def binop(self, n, env, want):
        a, ta = self.expr(n.left, env)
        if isinstance(n.op, (ast.Add,)):
            if ta == Z:
                b, _ = self.expr(n.right, env, Z)
                return '(%s + %s)' % (a, b), Z
            if isinstance(ta, tuple) and ta[0] == 'list':
                b, tb = self.expr(n.right, env, ta if ta[1] else None)
                return '(%s ++ %s)' % (a, b), (ta if ta[1] else tb)
            if ta == STR:
                b, _ = self.expr(n.right, env, STR)
                return '(%s ++ %s)%%string' % (a, b), STR
        if isinstance(n.op, ast.Sub) and ta == Z:
            b, _ = self.expr(n.right, env, Z)
            return '(%s - %s)' % (a, b), Z
        if isinstance(n.op, ast.BitOr) and ta == BOOL:
            b = self.truthy(n.right, env)
            return '(%s || %s)' % (a, b), BOOL
        fail(n, 'binary operator')

    def compare(self, n, env):
        if len(n.ops) != 1:
            fail(n, 'chained comparison')
        op, l, r = n.ops[0], n.left, n.comparators[0]
        if isinstance(op, (ast.Is, ast.IsNot)):
            if not (isinstance(r, ast.Constant) and r.value is None):
                fail(n, '`is` with something other than None')
            a, t = self.expr(l, env)
            if not (isinstance(t, tuple) and t[0] == 'option'):
                fail(n, '`is None` on a non-optional value')
            e = '(match %s with None => true | Some _ => false end)' % a
            return e if isinstance(op, ast.Is) else '(negb %s)' % e
        if isinstance(op, (ast.In, ast.NotIn)):
            b, tb = self.expr(r, env)
            if not (isinstance(tb, tuple) and tb[0] == 'list'):
                fail(n, '`in` on a non-list')
            a, _ = self.expr(l, env, tb[1])
            e = '(py_in %s %s %s)' % (eqb_for(tb[1], n), a, b)
            return e if isinstance(op, ast.In) else '(negb %s)' % e
        a, ta = self.expr(l, env)
        b, _ = self.expr(r, env, ta)
        if isinstance(op, ast.Eq):
            return '(%s %s %s)' % (eqb_for(ta, n), a, b)
        if isinstance(op, ast.NotEq):
            return '(negb (%s %s %s))' % (eqb_for(ta, n), a, b)
        if ta == Z:
            sym = {ast.Lt: '<?', ast.LtE: '<=?', ast.Gt: '>?', ast.GtE: '>=?'}.get(type(op))
            if sym:
                return '(%s %s %s)' % (a, sym, b)
        fail(n, 'comparison')

    def truthy(self, n, env):
        if isinstance(n, (ast.BoolOp, ast.Compare)) or (isinstance(n, ast.UnaryOp) and isinstance(n.op, ast.Not)):
            return self.expr(n, env)[0]
        a, t = self.expr(n, env)
        if t == BOOL:
            return a
        if t == Z:
            return '(negb (Z.eqb %s 0))' % a
        if t == STR:
            return '(negb (str_empty %s))' % a
        if isinstance(t, tuple) and t[0] == 'list':
            return '(negb (list_empty %s))' % a
        if t == O(BOOL):
            return '(match %s with Some true => true | _ => false end)' % a
        if t == O(STR):
            return '(match %s with Some s => negb (str_empty s) | None => false end)' % a
        if isinstance(t, tuple) and t[0] == 'option' and isinstance(t[1], tuple) and t[1][0] == 'rec':
            return '(match %s with Some _ => true | None => false end)' % a
        fail(n, 'truthiness of type %r' % (t,))

    def subscript(self, n, env):
        a, t = self.expr(n.value, env)
        if isinstance(n.slice, ast.Slice):
            if n.slice.step is not None:
                fail(n, 'slice step')
            if not (isinstance(t, tuple) and t[0] == 'list'):
                fail(n, 'slice of non-list')
            lo = 'None' if n.slice.lower is None else '(Some %s)' % self.expr(n.slice.lower, env, Z)[0]
            hi = 'None' if n.slice.upper is None else '(Some %s)' % self.expr(n.slice.upper, env, Z)[0]
            return '(py_slice %s %s %s)' % (a, lo, hi), t
        fail(n, 'plain subscript must be bound by an assignment or return (it can raise IndexError)')

    def call(self, n, env, want):
        s = self.s
        fn = n.func
        p = path_of(fn)
        if p in s.calls:
            return s.calls[p](self, n, env)
        if isinstance(fn, ast.Name) and fn.id == 'len' and len(n.args) == 1:
            a, t = self.expr(n.args[0], env)
            if not (isinstance(t, tuple) and t[0] == 'list'):
                fail(n, 'len of non-list')
            return '(py_len %s)' % a, Z
        if isinstance(fn, ast.Name) and fn.id == 'list' and len(n.args) == 1:
            return self.expr(n.args[0], env, want)
        if isinstance(fn, ast.Name) and fn.id == 'any' and len(n.args) == 1 and isinstance(n.args[0], ast.GeneratorExp):
            g = n.args[0]
            if len(g.generators) != 1 or g.generators[0].ifs or not isinstance(g.generators[0].target, ast.Name):
                fail(n, 'generator expression shape')
            it, tit = self.expr(g.generators[0].iter, env)
            if not (isinstance(tit, tuple) and tit[0] == 'list'):
                fail(n, 'any() over non-list')
            v = g.generators[0].target.id
            env2 = env.copy()
            env2.vars[v] = (v, tit[1])
            body = self.truthy(g.elt, env2)
            return '(existsb (fun %s => %s) %s)' % (v, body, it), BOOL
        if isinstance(fn, ast.Attribute):
            m = fn.attr
            recv, tr_ = self.expr(fn.value, env)
            if tr_ == STR and m == 'split' and len(n.args) == 1 and isinstance(n.args[0], ast.Constant) \
                    and isinstance(n.args[0].value, str) and len(n.args[0].value) == 1:
                return '(split "%s"%%char %s)' % (n.args[0].value, recv), L(STR)
            if tr_ == STR and m == 'join' and len(n.args) == 1:
                a, _ = self.expr(n.args[0], env, L(STR))
                return '(join %s %s)' % (recv, a), STR
            if tr_ == STR and m == 'lower' and not n.args:
                return '(lower %s)' % recv, STR
        fail(n, 'call outside the subset / without a binding')

    # ---- statements -----------------------------------------------------------
    def ret_ok(self, valtxt, env):
        if self.s.self_type:
            return 'Ok (%s, %s)' % (valtxt, env.vars['self'][0])
        return 'Ok %s' % valtxt

    def block(self, stmts, env, k):
        """Translate stmts followed by continuation k (a function env -> text).
        Returns text of type res RET."""
        if not stmts:
            return k(env)
        st, rest = stmts[0], stmts[1:]
        kk = lambda e: self.block(rest, e, k)  # noqa: E731
        return self.stmt(st, env, kk)

    def bind(self, env, pyname, coqtxt, t, k):
        env2 = env.copy()
        cn = pyname if pyname not in ('self',) else 'self'
        env2.vars[pyname] = (cn, t)
        # any refinement mentioning this name is stale
        env2.refined = {p: v for p, v in env2.refined.items() if p != pyname and not p.startswith(pyname + '.')}
        ann = ''
        try:
            if t is not None and None not in _flat(t):
                ann = ' : ' + coq_type(t)
        except ValueError:
            ann = ''
        return 'let %s%s := %s in\n%s' % (cn, ann, coqtxt, k(env2))

    def stmt(self, st, env, k):
        s = self.s
        if isinstance(st, ast.Expr) and isinstance(st.value, ast.Constant) and isinstance(st.value.value, str):
            return k(env)   # docstring / string comment
        if isinstance(st, ast.Pass):
            return k(env)
        if isinstance(st, ast.Return):
            return self.ret(st, env)
        if isinstance(st, ast.Raise):
            return 'Err %s' % self.exc_name(st.exc)
        if isinstance(st, ast.Assert):
            return 'if %s then\n%s\nelse Err AssertionError' % (self.truthy(st.test, env), k(env))
        if isinstance(st, ast.If):
            return self.if_(st, env, k)
        if isinstance(st, ast.Try):
            return self.try_(st, env, k)
        if isinstance(st, ast.Assign):
            return self.assign(st, env, k)
        if isinstance(st, ast.AugAssign):
            return self.augassign(st, env, k)
        if isinstance(st, ast.Expr) and isinstance(st.value, ast.Call):
            return self.call_stmt(st.value, env, k)
        fail(st, 'statement form outside the subset')

    def exc_name(self, e):
        if isinstance(e, ast.Call):
            e = e.func
        if isinstance(e, ast.Name) and e.id in ('ValueError', 'AssertionError', 'IndexError', 'TypeError'):
            return e.id
        fail(e, 'exception type')

    def ret(self, st, env):
        want = self.s.ret
        v = st.value
        if v is None:
            if want != UNIT:
                fail(st, 'bare return in non-unit function')
            return self.ret_ok('tt', env)
        # returns of subscripts: bind them first
        pre, v2 = self.hoist_subscripts(v, env)
        if isinstance(v2, ast.Tuple) and isinstance(want, tuple) and want[0] == 'tuple':
            parts = [self.expr(e, env, w)[0] for e, w in zip(v2.elts, want[1])]
            body = self.ret_ok('(' + ', '.join(parts) + ')', env)
        else:
            body = self.ret_ok(self.expr(v2, env, want)[0], env)
        for name, lst, idx in reversed(pre):
            body = 'match py_get %s %s with\n| Some %s => %s\n| None => Err IndexError\nend' % (lst, idx, name, body)
        return body

    def hoist_subscripts(self, v, env):
        """Replace plain subscripts e[i] in a (tuple) expression by fresh names."""
        pre = []

        class H(ast.NodeTransformer):
            def visit_Subscript(h, node):
                if isinstance(node.slice, ast.Slice):
                    return h.generic_visit(node)
                lst, t = self.expr(node.value, env)
                if not (isinstance(t, tuple) and t[0] == 'list'):
                    fail(node, 'subscript of non-list')
                idx, _ = self.expr(node.slice, env, Z)
                name = self.gensym('item')
                pre.append((name, lst, idx))
                env.vars[name] = (name, t[1])
                return ast.copy_location(ast.Name(id=name, ctx=ast.Load()), node)
        v2 = H().visit(v)
        return pre, v2

    def if_(self, st, env, k):
        p = path_of(st.test)
        # refinement: `if <optional path>:` binds the unwrapped value in the true branch
        if p is not None:
            a, t = self.expr(st.test, env)
            if isinstance(t, tuple) and t[0] == 'option' and t != O(BOOL):
                name = self.gensym(p.split('.')[-1].lstrip('_') or 'v')
                env_t = env.copy()
                env_t.refined[p] = (name, t[1])
                inner_true = self.block(st.body, env_t, k)
                else_txt = self.block(st.orelse, env.copy(), k)
                if t[1] == STR:
                    return ('match %s with\n| Some %s => if negb (str_empty %s) then\n%s\nelse\n%s\n| None =>\n%s\nend'
                            % (a, name, name, inner_true, else_txt, else_txt))
                return 'match %s with\n| Some %s =>\n%s\n| None =>\n%s\nend' % (a, name, inner_true, else_txt)
        # `if x is None:` / `is not None` on a path: refine the other branch
        if isinstance(st.test, ast.Compare) and len(st.test.ops) == 1 and isinstance(st.test.ops[0], (ast.Is, ast.IsNot)) \
                and isinstance(st.test.comparators[0], ast.Constant) and st.test.comparators[0].value is None:
            p = path_of(st.test.left)
            a, t = self.expr(st.test.left, env)
            if p is not None and isinstance(t, tuple) and t[0] == 'option':
                name = self.gensym(p.split('.')[-1].lstrip('_') or 'v')
                env_some = env.copy()
                env_some.refined[p] = (name, t[1])
                none_body, some_body = (st.body, st.orelse) if isinstance(st.test.ops[0], ast.Is) else (st.orelse, st.body)
                return ('match %s with\n| None =>\n%s\n| Some %s =>\n%s\nend'
                        % (a, self.block(none_body, env.copy(), k), name, self.block(some_body, env_some, k)))
        c = self.truthy(st.test, env)
        return 'if %s then\n%s\nelse\n%s' % (c, self.block(st.body, env.copy(), k), self.block(st.orelse, env.copy(), k))

    def try_(self, st, env, k):
        # only:  try: x = L.index(v)  except ValueError: H  [else: E]
        if (len(st.body) == 1 and isinstance(st.body[0], ast.Assign) and len(st.handlers) == 1 and not st.finalbody
                and isinstance(st.handlers[0].type, ast.Name) and st.handlers[0].type.id == 'ValueError'
                and st.handlers[0].name is None):
            asg = st.body[0]
            c = asg.value
            if (isinstance(c, ast.Call) and isinstance(c.func, ast.Attribute) and c.func.attr == 'index'
                    and len(c.args) == 1 and len(asg.targets) == 1 and isinstance(asg.targets[0], ast.Name)):
                lst, t = self.expr(c.func.value, env)
                if not (isinstance(t, tuple) and t[0] == 'list'):
                    fail(st, 'index on non-list')
                x, _ = self.expr(c.args[0], env, t[1])
                v = asg.targets[0].id
                env_s = env.copy()
                env_s.vars[v] = (v, Z)
                return ('match py_index %s %s %s with\n| None =>\n%s\n| Some %s =>\n%s\nend'
                        % (eqb_for(t[1], st), lst, x, self.block(st.handlers[0].body, env.copy(), k),
                           v, self.block(st.orelse, env_s, k)))
        fail(st, 'try statement shape')

    def assign(self, st, env, k):
        s = self.s
        if len(st.targets) != 1:
            fail(st, 'multiple targets')
        tgt = st.targets[0]
        # x[:] = e   (whole-slice assignment == rebinding for our purposes: no aliasing in the subset)
        if isinstance(tgt, ast.Subscript) and isinstance(tgt.slice, ast.Slice) and tgt.slice.lower is None \
                and tgt.slice.upper is None and isinstance(tgt.value, ast.Name):
            name = tgt.value.id
            _, t = env.vars[name]
            a, t2 = self.expr(st.value, env, t if t[1] else None)
            return self.bind(env, name, a, t2, k)
        if isinstance(tgt, ast.Name):
            v = st.value
            # recursive / sibling call producing a res
            if isinstance(v, ast.Call):
                r = self.res_call(v, env)
                if r is not None:
                    txt, t = r
                    return 'match %s with\n| Err e => Err e\n| Ok %s =>\n%s\nend' % (txt, tgt.id, self._k_bind(env, tgt.id, t, k))
            want = s.locals.get(tgt.id)
            a, t = self.expr(v, env, want)
            if t == ('list', None) or t == ('option', None):
                if want is None:
                    fail(st, 'cannot infer the element type of %s; declare it in locals' % tgt.id)
                t = want
            return self.bind(env, tgt.id, a, t, k)
        if isinstance(tgt, ast.Tuple) and all(isinstance(e, ast.Name) for e in tgt.elts) and isinstance(st.value, ast.Call):
            r = self.res_call(st.value, env)
            if r is None:
                fail(st, 'tuple unpacking of a non-translated call')
            txt, t = r
            if not (isinstance(t, tuple) and t[0] == 'tuple' and len(t[1]) == len(tgt.elts)):
                fail(st, 'tuple arity')
            env2 = env.copy()
            names = []
            for e, et in zip(tgt.elts, t[1]):
                env2.vars[e.id] = (e.id, et)
                names.append(e.id)
            return 'match %s with\n| Err e => Err e\n| Ok (%s) =>\n%s\nend' % (txt, ', '.join(names), k(env2))
        if isinstance(tgt, ast.Attribute) and isinstance(tgt.value, ast.Name) and tgt.value.id == 'self':
            f = tgt.attr
            if f not in self.selffields:
                fail(st, 'assignment to undeclared field')
            p = 'self.' + f
            if isinstance(st.value, ast.Call) and path_of(st.value.func) in s.calls:
                # an effectful constructor: handler returns (value text, type, new self text)
                h = s.calls[path_of(st.value.func)](self, st.value, env)
                if len(h) == 3:
                    vtxt, vt, selftxt = h
                    env1 = env.copy()
                    out = 'let self := %s in\n' % selftxt
                    a = self.coerce(vtxt, vt, self.selffields[f], st)
                    return out + self.bind(env1, 'self', '(set_%s %s self)' % (f.lstrip('_'), a), s.self_type,
                                           lambda e: k(self._drop_ref(e, p)))
            a, _ = self.expr(st.value, env, self.selffields[f])
            return self.bind(env, 'self', '(set_%s %s %s)' % (f.lstrip('_'), a, env.vars['self'][0]), s.self_type,
                             lambda e: k(self._drop_ref(e, p)))
        fail(st, 'assignment target')

    def _drop_ref(self, env, p):
        env.refined.pop(p, None)
        return env

    def _k_bind(self, env, name, t, k):
        env2 = env.copy()
        env2.vars[name] = (name, t)
        return k(env2)

    def augassign(self, st, env, k):
        fake = ast.Assign(targets=[st.target], value=ast.BinOp(left=_load(st.target), op=st.op, right=st.value))
        ast.copy_location(fake, st)
        ast.fix_missing_locations(fake)
        return self.assign(fake, env, k)

    def res_call(self, c, env):
        """A call of the function being translated (recursion) or of a sibling
        translated method: returns (text of type res T, T) or None."""
        s = self.s
        p = path_of(c.func)
        if p == s.name:
            if not s.fuel:
                fail(c, 'recursion needs fuel=True')
            args = []
            if c.keywords:
                fail(c, 'keyword arguments in recursive call')
            for i, (pn, pt) in enumerate(s.params):
                if i < len(c.args):
                    args.append(self.expr(c.args[i], env, pt)[0])
                elif pn in s.defaults:
                    args.append(self.expr(ast.parse(s.defaults[pn], mode='eval').body, env, pt)[0])
                else:
                    fail(c, 'missing argument %s' % pn)
            return '(%s fuel %s)' % (s.coq_name, ' '.join(args)), s.ret
        return None

    def call_stmt(self, c, env, k):
        s = self.s
        p = path_of(c.func)
        # x.append(e) on a local list
        if isinstance(c.func, ast.Attribute) and c.func.attr == 'append' and isinstance(c.func.value, ast.Name) \
                and len(c.args) == 1 and c.func.value.id in env.vars:
            name = c.func.value.id
            cn, t = env.vars[name]
            if not (isinstance(t, tuple) and t[0] == 'list'):
                fail(c, 'append on non-list')
            a, _ = self.expr(c.args[0], env, t[1])
            return self.bind(env, name, '(%s ++ [%s])' % (cn, a), t, k)
        if p in s.methods:
            fn, _rt = s.methods[p]
            selfv = env.vars['self'][0]
            env2 = env.copy()
            env2.refined = {q: v for q, v in env2.refined.items() if not q.startswith('self.')}
            return 'match %s %s with\n| Err e => Err e\n| Ok (_, self) =>\n%s\nend' % (fn, selfv, k(env2))
        if p in s.calls:
            h = s.calls[p](self, c, env)
            # statement-level effect: handler returns new self text
            if isinstance(h, str):
                env2 = env.copy()
                env2.refined = {q: v for q, v in env2.refined.items() if not q.startswith('self.')}
                return 'let self := %s in\n%s' % (h, k(env2))
        fail(c, 'call statement without a binding')

    # ---- function ------------------------------------------------------------
    def function(self, fdef):
        s = self.s
        env = Env({})
        params = []
        if s.self_type:
            env.vars['self'] = ('self', s.self_type)
            params.append('(self : %s)' % coq_type(s.self_type))
        for pn, pt in s.params:
            env.vars[pn] = (pn, pt)
            params.append('(%s : %s)' % (pn, coq_type(pt)))
        got = [a.arg for a in fdef.args.args if a.arg != 'self']
        if got != [pn for pn, _ in s.params if pn in got] or len(got) != len(s.params):
            fail(fdef, 'parameter list changed: source has %r, binding has %r' % (got, [p for p, _ in s.params]))
        # defaults must match the binding
        defaults = dict(zip([a.arg for a in fdef.args.args][-len(fdef.args.defaults):] if fdef.args.defaults else [],
                            [ast.unparse(d) for d in fdef.args.defaults]))
        for pn, src in s.defaults.items():
            if defaults.get(pn) != src:
                fail(fdef, 'default of %s changed: source %r, binding %r' % (pn, defaults.get(pn), src))
        if fdef.args.vararg or fdef.args.kwarg or fdef.args.kwonlyargs:
            fail(fdef, 'star parameters')

        def end(e):
            if s.ret == UNIT:
                return self.ret_ok('tt', e)
            fail(fdef, 'control can fall off the end of a non-unit function')
        body = self.block(fdef.body, env, end)
        rett = coq_type(s.ret)
        if s.self_type:
            rett = '(%s * %s)' % (rett, coq_type(s.self_type))
        if s.fuel:
            return ('Fixpoint %s (fuel : nat) %s {struct fuel} : res %s :=\nmatch fuel with\n| O => Err OutOfFuel\n| S fuel =>\n%s\nend.\n'
                    % (s.coq_name, ' '.join(params), rett, body))
        return 'Definition %s %s : res %s :=\n%s.\n' % (s.coq_name, ' '.join(params), rett, body)


def _flat(t):
    if isinstance(t, tuple):
        out = []
        for x in t[1:]:
            if isinstance(x, tuple) and x and not isinstance(x[0], str):
                for y in x:
                    out += _flat(y)
            else:
                out += _flat(x)
        return out
    return [t]


def _load(t):
    t2 = ast.parse(ast.unparse(t), mode='eval').body
    return t2


def find_function(tree, qualname):
    parts = qualname.split('.')
    body = tree.body
    node = None
    for i, p in enumerate(parts):
        node = None
        for st in body:
            if isinstance(st, (ast.FunctionDef, ast.ClassDef)) and st.name == p:
                node = st
                break
        if node is None:
            raise Untranslatable('cannot find %s' % qualname)
        body = node.body
    if not isinstance(node, ast.FunctionDef):
        raise Untranslatable('%s is not a function' % qualname)
    return node


def cut_pyx_method(text, classname, method):
    """Cut `def method` out of a cdef class in a .pyx file and parse it as Python."""
    lines = text.splitlines()
    start = None
    inclass = False
    cls_indent = None
    for i, l in enumerate(lines):
        stripped = l.lstrip()
        ind = len(l) - len(stripped)
        if stripped.startswith(('cdef class %s' % classname, 'class %s' % classname)):
            inclass, cls_indent = True, ind
            continue
        if inclass and stripped and ind <= cls_indent and not stripped.startswith('#'):
            inclass = False
        if inclass and (stripped.startswith('def %s(' % method) or stripped.startswith('cpdef %s(' % method)):
            start = i
            break
    if start is None:
        raise Untranslatable('cannot find %s.%s in the .pyx' % (classname, method))
    ind0 = len(lines[start]) - len(lines[start].lstrip())
    out = [lines[start].replace('cpdef ', 'def ', 1)]
    for l in lines[start + 1:]:
        if l.strip() and (len(l) - len(l.lstrip())) <= ind0:
            break
        out.append(l)
    src = textwrap.dedent('\n'.join(out)) + '\n'
    try:
        tree = ast.parse(src)
    except SyntaxError as e:
        raise Untranslatable('%s.%s is not plain Python: %s' % (classname, method, e))
    return tree.body[0]
