"""further translation targets register themselves here"""
from . import targets_explicit  # noqa: F401,E402  (Gen/GlobalProfiler.v: C14, C19)
from . import targets_wrap  # noqa: F401,E402  (Gen/ByCount.v, C05)
from . import targets_ast  # noqa: F401,E402  (Gen/Select.v: C09/C08)
from . import targets_pyx  # noqa: F401,E402  (Gen/TraceCore.v: the tracer core of the .pyx, E1)
from . import targets_pylayer  # noqa: F401,E402  (Gen/PyLayer.v: the Python layer of LineProfiler, E1)
