"""further translation targets register themselves here"""
