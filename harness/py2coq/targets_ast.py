"""Translation target Gen/Select.v: ProfmodExtractor._ast_get_imports_from_tree and
ProfmodExtractor._find_modnames_in_tree_imports (line_profiler/autoprofile/profmod_extractor.py).

The translator subset is extended here (in a subclass, translate.py is untouched) with
what these two functions need; everything else still raises Untranslatable:

  * `for x in <list>:` and `for i, x in enumerate(<list>):` as a fold (LP.Ast.SelectBase.py_for /
    py_for_enum) whose state is the tuple of already-bound variables the body assigns;
    `continue` ends the iteration with the current state; `return` inside a loop, `break`
    and `for ... else` are refused;
  * `if isinstance(v, ast.Import) / elif isinstance(v, ast.ImportFrom)` on a statement
    variable as a `match` on the AstLite constructor, binding the fields that are read;
  * ast.alias attributes (`.name`, `.asname`);
  * the dict literal {'name':, 'alias':, 'tree_index':} as the record `imp`, `d['field']`
    reads, `{}` and `d.setdefault(k, []).append(v)` on a declared int->[str] dict
    (insertion-ordered `dict_add`);
  * `a or b` on (optional str, str); `s.rsplit('.', 1)[0]` as `parent s`;
  * `x = <optional str> + ...` raises TypeError when the left operand is None.
"""
import ast

from .translate import (Translator, Spec, Untranslatable, find_function, Z, BOOL, STR, L, O, R, fail, path_of)
from .targets import register

STMT, ALIAS, IMP, DICT = R('stmt'), R('alias'), R('imp'), R('dict')

CTORS = {
    'Import': [('names', L(ALIAS)), ('lineno', Z)],
    'ImportFrom': [('module', O(STR)), ('names', L(ALIAS)), ('level', Z), ('lineno', Z)],
}
REC_ATTRS = {ALIAS: {'name': ('fst', STR), 'asname': ('snd', O(STR))}}
IMP_FIELDS = [('name', STR, 'i_name'), ('alias', O(STR), 'i_alias'), ('tree_index', Z, 'i_idx')]


def assigned_names(stmts):
    """names (re)bound anywhere in a statement list: assignment, augmented assignment,
    subscript store, .append() -- the candidates for loop state"""
    out = []

    def add(n):
        if n not in out:
            out.append(n)

    def target(t):
        if isinstance(t, ast.Name):
            add(t.id)
        elif isinstance(t, (ast.Tuple, ast.List)):
            for e in t.elts:
                target(e)
        elif isinstance(t, (ast.Subscript, ast.Attribute)):
            b = t
            while isinstance(b, (ast.Subscript, ast.Attribute)):
                b = b.value
            if isinstance(b, ast.Name):
                add(b.id)        # the container that is stored into
            else:
                fail(t, 'store into something that is not a variable')
        else:
            fail(t, 'assignment target inside a translated loop')
    for st in stmts:
        for node in ast.walk(st):
            if isinstance(node, ast.Assign):
                for t in node.targets:
                    target(t)
            elif isinstance(node, ast.AugAssign):
                target(node.target)
            elif isinstance(node, ast.For):
                target(node.target)
            elif isinstance(node, ast.Call) and isinstance(node.func, ast.Attribute) \
                    and node.func.attr in ('append', 'extend', 'insert', 'pop', 'remove', 'clear', 'update', 'add',
                                           'setdefault', 'sort', 'reverse') \
                    and isinstance(node.func.value, ast.Name):
                add(node.func.value.id)
            elif isinstance(node, (ast.Delete, ast.Global, ast.Nonlocal, ast.With, ast.NamedExpr, ast.Import,
                                   ast.ImportFrom, ast.FunctionDef, ast.ClassDef, ast.Lambda, ast.Try, ast.While,
                                   ast.Break)):
                fail(node, 'statement form not supported inside a translated loop')
    return out


class AstTranslator(Translator):
    def __init__(self, spec):
        super().__init__(spec)
        self.loops = []      # stack of "end of iteration" continuations

    # ---- expressions -------------------------------------------------------------------
    def _expr(self, n, env, want):
        if isinstance(n, ast.Attribute) and isinstance(n.value, ast.Name) and path_of(n) not in env.refined:
            v = n.value.id
            if v in env.vars and env.vars[v][1] in REC_ATTRS and n.attr in REC_ATTRS[env.vars[v][1]]:
                fn, t = REC_ATTRS[env.vars[v][1]][n.attr]
                return '(%s %s)' % (fn, env.vars[v][0]), t
        if isinstance(n, ast.Dict):
            if not n.keys:
                if want == DICT:
                    return '[]', DICT
                fail(n, 'empty dict literal needs a declared type')
            keys = [k.value if isinstance(k, ast.Constant) else None for k in n.keys]
            if sorted(map(str, keys)) != sorted(f[0] for f in IMP_FIELDS) or None in keys:
                fail(n, 'dict literal with keys other than %r' % [f[0] for f in IMP_FIELDS])
            vals = dict(zip(keys, n.values))
            parts = [self.expr(vals[f], env, t)[0] for f, t, _p in IMP_FIELDS]
            return '(Build_imp %s)' % ' '.join(parts), IMP
        if isinstance(n, ast.BoolOp) and isinstance(n.op, ast.Or) and len(n.values) == 2:
            try:
                a, ta = self.expr(n.values[0], env)
            except Untranslatable:
                ta = None
            if ta == O(STR):
                b, _ = self.expr(n.values[1], env, STR)
                return '(str_or %s %s)' % (a, b), STR
        return super()._expr(n, env, want)

    def subscript(self, n, env):
        v, sl = n.value, n.slice
        if (isinstance(sl, ast.Constant) and sl.value == 0 and not isinstance(sl.value, bool)
                and isinstance(v, ast.Call) and isinstance(v.func, ast.Attribute)
                and v.func.attr == 'rsplit' and len(v.args) == 2 and not v.keywords
                and isinstance(v.args[0], ast.Constant) and v.args[0].value == '.'
                and isinstance(v.args[1], ast.Constant) and v.args[1].value == 1
                and not isinstance(v.args[1].value, bool)):
            recv, t = self.expr(v.func.value, env)
            if t == STR:
                return '(parent %s)' % recv, STR   # str.rsplit never returns an empty list
        if isinstance(sl, ast.Constant) and isinstance(sl.value, str):
            a, t = self.expr(v, env)
            if t == IMP:
                for f, ft, proj in IMP_FIELDS:
                    if f == sl.value:
                        return '(%s %s)' % (proj, a), ft
                fail(n, 'unknown key of the import record')
        return super().subscript(n, env)

    # ---- statements --------------------------------------------------------------------
    def stmt(self, st, env, k):
        if isinstance(st, ast.For):
            return self.for_(st, env, k)
        if isinstance(st, ast.Continue):
            if not self.loops:
                fail(st, 'continue outside a loop')
            return self.loops[-1](env)
        if isinstance(st, ast.Break):
            fail(st, 'break')
        return super().stmt(st, env, k)

    def ret(self, st, env):
        if self.loops:
            fail(st, 'return inside a loop')
        return super().ret(st, env)

    def if_(self, st, env, k):
        t = st.test
        if (isinstance(t, ast.Call) and isinstance(t.func, ast.Name) and t.func.id == 'isinstance'
                and len(t.args) == 2 and not t.keywords and isinstance(t.args[0], ast.Name)):
            v = t.args[0].id
            cls = path_of(t.args[1]) or ''
            if v not in env.vars or env.vars[v][1] != STMT or not cls.startswith('ast.') or cls[4:] not in CTORS:
                fail(st, 'isinstance test outside the declared node classes')
            cls = cls[4:]
            env_t = env.copy()
            pats = []
            for fname, ftype in CTORS[cls]:
                cn = self.gensym('%s_%s' % (v, fname))
                pats.append(cn)
                env_t.refined['%s.%s' % (v, fname)] = (cn, ftype)
            return ('match %s with\n| %s %s =>\n%s\n| _ =>\n%s\nend'
                    % (env.vars[v][0], cls, ' '.join(pats), self.block(st.body, env_t, k),
                       self.block(st.orelse, env.copy(), k)))
        return super().if_(st, env, k)

    def assign(self, st, env, k):
        if len(st.targets) == 1:
            tgt = st.targets[0]
            if isinstance(tgt, ast.Name) and isinstance(st.value, ast.BinOp) and isinstance(st.value.op, ast.Add):
                left = st.value
                while isinstance(left, ast.BinOp) and isinstance(left.op, ast.Add):
                    left = left.left
                p = path_of(left)
                if p is not None:
                    a, t = self.expr(left, env)
                    if t == O(STR):
                        nm = self.gensym(p.split('.')[-1])
                        env2 = env.copy()
                        env2.refined[p] = (nm, STR)
                        return ('match %s with\n| None => Err TypeError\n| Some %s =>\n%s\nend'
                                % (a, nm, super().assign(st, env2, k)))
        return super().assign(st, env, k)

    def call_stmt(self, c, env, k):
        # d.setdefault(key, []).append(value) on a declared int->[str] dict
        f = c.func
        if (isinstance(f, ast.Attribute) and f.attr == 'append' and len(c.args) == 1 and not c.keywords
                and isinstance(f.value, ast.Call) and isinstance(f.value.func, ast.Attribute)
                and f.value.func.attr == 'setdefault' and isinstance(f.value.func.value, ast.Name)
                and len(f.value.args) == 2 and not f.value.keywords
                and isinstance(f.value.args[1], ast.List) and not f.value.args[1].elts):
            name = f.value.func.value.id
            if name in env.vars and env.vars[name][1] == DICT:
                kx, _ = self.expr(f.value.args[0], env, Z)
                vx, _ = self.expr(c.args[0], env, STR)
                return self.bind(env, name, '(dict_add %s %s %s)' % (env.vars[name][0], kx, vx), DICT, k)
        return super().call_stmt(c, env, k)

    def for_(self, st, env, k):
        if st.orelse:
            fail(st, 'for ... else')
        it, enum = st.iter, False
        if (isinstance(it, ast.Call) and isinstance(it.func, ast.Name) and it.func.id == 'enumerate'
                and len(it.args) == 1 and not it.keywords):
            it, enum = it.args[0], True
        src, t = self.expr(it, env)
        if not (isinstance(t, tuple) and t[0] == 'list' and t[1] is not None):
            fail(st, 'for over something that is not a typed list')
        if enum:
            if not (isinstance(st.target, ast.Tuple) and len(st.target.elts) == 2
                    and all(isinstance(e, ast.Name) for e in st.target.elts)):
                fail(st, 'enumerate target')
            ivar, xvar = st.target.elts[0].id, st.target.elts[1].id
        else:
            if not isinstance(st.target, ast.Name):
                fail(st, 'for target')
            ivar, xvar = None, st.target.id
        assigned = assigned_names(st.body)
        for lv in (ivar, xvar):
            if lv is not None and (lv in env.vars or lv in assigned):
                fail(st, 'loop variable %s is rebound' % lv)
        state = [v for v in env.vars if v in assigned and v != 'self']

        def tup(e):
            if not state:
                return 'tt'
            if len(state) == 1:
                return e.vars[state[0]][0]
            return '(' + ', '.join(e.vars[v][0] for v in state) + ')'

        def kend(e):
            return 'Ok %s' % tup(e)
        env_b = env.copy()
        if ivar is not None:
            env_b.vars[ivar] = (ivar, Z)
        env_b.vars[xvar] = (xvar, t[1])
        self.loops.append(kend)
        try:
            body = self.block(st.body, env_b, kend)
        finally:
            self.loops.pop()
        if not state:
            pat, binder = '_', "(_ : unit)"
        elif len(state) == 1:
            pat = binder = state[0]
        else:
            pat = '(' + ', '.join(state) + ')'
            binder = "'" + pat
        args = '%s %s' % (ivar, xvar) if enum else xvar
        env_a = env.copy()
        for v in state:
            env_a.refined = {p: x for p, x in env_a.refined.items() if p != v and not p.startswith(v + '.')}
        return ('match %s %s %s (fun %s %s =>\n%s) with\n| Err e => Err e\n| Ok %s =>\n%s\nend'
                % ('py_for_enum' if enum else 'py_for', src, tup(env), binder, args, body, pat, k(env_a)))


HEADER = ('(* GENERATED by harness/py2coq from %s -- do not edit; regenerated on every run *)\n'
          'From LP Require Import Prelude.Py Ast.AstLite Ast.AuxStr Ast.SelectBase.\n\n')


@register('Select.v')
def gen_select(repo):
    rel = 'line_profiler/autoprofile/profmod_extractor.py'
    tree = ast.parse((repo / rel).read_text())
    out = HEADER % rel
    # --- _ast_get_imports_from_tree(tree): only tree.body is read
    f = find_function(tree, 'ProfmodExtractor._ast_get_imports_from_tree')
    f = ast.parse(ast.unparse(f)).body[0]
    if [a.arg for a in f.args.args] != ['tree']:
        raise Untranslatable('_ast_get_imports_from_tree: parameters changed')
    f.args.args = [ast.arg('tree_body')]
    spec = Spec('_ast_get_imports_from_tree', [('tree_body', L(STMT))], L(IMP), coq_name='gen_get_imports',
                attrs={'tree.body': ('tree_body', L(STMT))},
                locals_={'module_dict_list': L(IMP), 'modname_list': L(STR)})
    out += AstTranslator(spec).function(f) + '\n'
    # --- _find_modnames_in_tree_imports(modnames_to_profile, module_dict_list)
    g = find_function(tree, 'ProfmodExtractor._find_modnames_in_tree_imports')
    g = ast.parse(ast.unparse(g)).body[0]
    spec = Spec('_find_modnames_in_tree_imports', [('modnames_to_profile', L(STR)), ('module_dict_list', L(IMP))], DICT,
                coq_name='gen_find_modnames',
                locals_={'modnames_found_in_tree': DICT, 'modname_added_list': L(STR)})
    out += AstTranslator(spec).function(g)
    # --- how run() composes them
    run = find_function(tree, 'ProfmodExtractor.run')
    src = ast.unparse(run)
    for needle in ('self._ast_get_imports_from_tree(self._tree)',
                   'self._find_modnames_in_tree_imports(modnames_to_profile, module_dict_list)',
                   'return tree_imports_to_profile_dict'):
        if needle not in src:
            raise Untranslatable('ProfmodExtractor.run no longer contains %r' % needle)
    out += ('\n(* ProfmodExtractor.run(): module_dict_list = _ast_get_imports_from_tree(self._tree);\n'
            '   return _find_modnames_in_tree_imports(modnames_to_profile, module_dict_list) *)\n'
            'Definition gen_select (modnames_to_profile : list string) (tree_body : list stmt) : res dict :=\n'
            'match gen_get_imports tree_body with\n| Err e => Err e\n'
            '| Ok module_dict_list => gen_find_modnames modnames_to_profile module_dict_list\nend.\n')
    return out
