"""C10 - the text report shows every recorded number at the right source line.

Theorem side: Props/C10.v over Report/Layout*.v (show_text / show_func as list functions,
proved for every stats list, formatter, environment and option combination) and
Report/Cells*.v (binary64 arithmetic + correctly rounded %d/%f/%g as exact rationals).
Tie: correspondence.  Generated stats dictionaries over real temp source files (all the
source shapes C10 lists, valid line numbers taken from the compiled code objects' line
tables), all 16 option combinations, the REAL show_text; the text is tokenised here and
compared inside Coq with the model (whole text, line by line, and row tokens) and with the
executable property predicate (CellsSpec.spec_ok); the same predicate is evaluated here
with fractions.Fraction (py_spec)."""
import itertools
import json
import os
import shutil
import re
import time
from fractions import Fraction

from harness import core

PROP = 'C10'
MODULE = 'Props.C10'
THEOREMS = ['C10_every_function_once', 'C10_skip_zero_hides_exactly_no_hits',
            'C10_every_line_once_on_its_row', 'C10_every_line_once',
            'C10_missing_file_keeps_every_line', 'C10_ipython_cell_rows_shown',
            'C10_ipython_cell_example', 'C10_ipython_cell_without_source_refuted',
            'C10_encoding_placeholder_example', 'C10_duplicate_lineno_last_wins',
            'C10_hits_roundtrip', 'C10_hits_nine_digits_exact', 'C10_hits_fallback_six_digits',
            'C10_f1_precision', 'C10_f2_precision', 'C10_g_precision_partial',
            'C10_sort', 'C10_sort_default_by_key', 'C10_summarize',
            'C10_skipzero_summary_matches_details', 'C10_viewer_cli_every_function_once',
            'C10_kernprof_view_every_function_once', 'C10_print_stats_every_function_once', 'C10_nonvacuous']
LEVEL = 'proof'
DRIVER = 'harness.drivers.c10'
FINDING = 'C10-skipzero-summary-filters-on-time'
FINDING_CELL = 'C10-ipython-cell-rows-lost-after-file-block'
FINDING_UNCACHED = 'C10-ipython-cell-without-cached-source-has-no-rows'
FALLBACK = 'UnicodeEncodeError - help wanted for a fix'
COQ_ENC = {'ascii': 'Ascii', 'latin-1': 'Latin1'}
N_CANONICAL = 14
ENTRIES = ['show_text', 'show_text', 'print_stats', 'viewer']

COMBOS = [list(c) for c in itertools.product([False, True], repeat=4)]   # strip, sort, summarize, details
UNITS = [1e-9, 1e-7, 1e-6, 1.0, 1e-3, 2.5e-7]
OUT_UNITS = [None, 1e-6, 1e-3, 1.0, 7e-5]

# ----------------------------------------------------------------------------------------
# source shapes
SNIPPETS = {
    'plain': ["def f{n}(a, b=2):", "    x = a + b", "    y = x * 2", "    return y"],
    'decorated': ["@deco", "@deco2(1,", "       2)", "def f{n}(a):", '    """doc été"""',
                  "    for i in range(a):", "        a += i", "    return a"],
    'signature': ["def f{n}(a,", "        b=3,", "        *args,", "        **kw):", "    return (a +", "            b)"],
    'multiline': ["def f{n}(x):", "    d = {", "        'a': 1,", "        'b': [x,", "              2],", "    }",
                  '    s = """tri', "ple at column 0", '"""', "    t = x + \\", "        1",
                  "    return foo(d,", "               s, t)"],
    'nested': ["def f{n}(x):", "    def inner(y):", "        z = y + 1", "        return z", "    class K:",
               "        def m(self):", "            return 1", "    return inner(x)"],
    'oneliner': ["def f{n}(x): return x + 1"],
    'lambda1': ["g{n} = lambda x: x + 1"],
    'lambda_multi': ["h{n} = (lambda x:", "        x + 1)", "k{n} = foo(1,", "        lambda y: (y +", "                   2))"],
    'col0comment': ["def f{n}(x):", "    a = 1", "# comment at column 0  café λ 日本", "    b = 2", "",
                    "    return a + b"],
    'async_gen': ["async def f{n}(x):", "    await x", "    async with x as y:", "        pass", "def g{n}(x):",
                  "    yield x", "    yield from x"],
    'try_with': ["def f{n}(x):", "    try:", "        with open(x) as fh:", "            pass", "    except (OSError,",
                 "            ValueError) as e:", "        raise", "    finally:", "        pass"],
    'methods': ["class C{n}:", "    @staticmethod", "    def s(x):", "        return x", "    @property", "    def p(self):",
                "        return (1,", "                2)"],
    'tabs': ["def f{n}(x):", "\tif x:", "\t\treturn 1", "\treturn 2"],
    'nonascii': ["def f{n}(x):", "    s = 'héllo wörld ☃ 日本語 \U0001f600'", "    π = 3.14  # λ",
                 "    return s, π"],
    'formfeed': ["def f{n}(x):", "    a = x  # form\x0cfeed", "    return a"],
    'deco_lambda': ["@deco(lambda q: q,", "      3)", "def f{n}(x=lambda: 0):", "    return x"],
    'longline': ["def f{n}(x):", "    return " + " + ".join(['x'] * 40)],
    'docstring_only': ["def f{n}():", '    """only', "    a docstring", '    """'],
    'trailing_ws': ["def f{n}(x):   ", "    y = x    ", "    return y\t"],
    'long': ["def f{n}(x):"] + ["    x = x + %d" % i for i in range(28)] + ["    return x"],
}
WRAPS = [None, None, None, "if True:", "class Outer{n}:", "for _i in ():"]


def gen_source(rnd, shapes=None):
    """A module text and the shapes it contains."""
    names = shapes or [rnd.choice(sorted(SNIPPETS)) for _ in range(rnd.randint(1, 5))]
    lines = []
    if rnd.random() < 0.5:
        lines += ['# -*- coding: utf-8 -*-', 'import os', '']
    for k, nm in enumerate(names):
        body = [l.replace('{n}', str(k)) for l in SNIPPETS[nm]]
        wrap = rnd.choice(WRAPS)
        if wrap and nm not in ('multiline',):
            body = [wrap.replace('{n}', str(k))] + [('    ' + l if l else l) for l in body]
        lines += body
        lines += [''] * rnd.randint(0, 2)
        if rnd.random() < 0.3:
            lines.append('x%d = %d  # between ü' % (k, k))
    text = '\n'.join(lines)
    style = rnd.random()
    if style < 0.7:
        text += '\n'
    elif style < 0.8:
        text = text.replace('\n', '\r\n') + '\r\n'
    # else: no newline at the end of the file
    return text, names


def function_codes(text, filename):
    """(co_firstlineno, co_name, sorted distinct line numbers of the line table) for every
    def / async def / lambda in the module - the code objects LineProfiler can register."""
    res = []

    def walk(co):
        for c in co.co_consts:
            if hasattr(c, 'co_code'):
                if (c.co_flags & 0x1) and (not c.co_name.startswith('<') or c.co_name == '<lambda>'):
                    ls = sorted({l for _, _, l in c.co_lines() if l is not None and l >= c.co_firstlineno})
                    res.append((c.co_firstlineno, c.co_name, ls))
                walk(c)
    walk(compile(text, filename, 'exec'))
    return res


def file_lines(text):
    ls = re.split('\r\n|\r|\n', text)
    if ls and ls[-1] == '':
        ls = ls[:-1]
    return ls


# ----------------------------------------------------------------------------------------
# numbers
def gen_hits(rnd):
    k = rnd.random()
    if k < 0.35:
        return rnd.randint(1, 30)
    if k < 0.6:
        return int(10 ** rnd.uniform(0, 9))
    if k < 0.7:
        return rnd.choice([999999999, 10 ** 9, 10 ** 9 + 1, 999999500, 99999950000, 2 ** 53 + 1, 10 ** 12,
                           123456789012, 999999999999])
    if k < 0.95:
        return int(10 ** rnd.uniform(9, 12))
    return int(10 ** rnd.uniform(12, 18))


def gen_time(rnd):
    k = rnd.random()
    if k < 0.08:
        return 0
    if k < 0.3:
        return rnd.randint(1, 2000)
    if k < 0.4:
        return rnd.choice([5, 15, 25, 45, 50, 125, 250, 999950, 99995, 10 ** 18, 10 ** 18 - 1, 2 ** 53 + 1,
                           99950000000, 999999999999, 12345678901234567])
    return int(10 ** rnd.uniform(0, 18))


def gen_timings(rnd, lines, zero_time=False):
    p = rnd.choice([0.0, 0.3, 0.7, 1.0, 1.0])
    chosen = [l for l in lines if rnd.random() < p]
    return [[l, gen_hits(rnd), 0 if zero_time else gen_time(rnd)] for l in chosen]


def gen_case(rnd, idx, tmpdir, malformed=False, shapes=None):
    d = '%s/c%d' % (tmpdir, idx)
    files = {}
    used_shapes = set()
    cands = []     # (fn, start, name, lines)
    exts = ['mod{k}.py', 'pkg_{k}.py', 'möd{k}.py', 'Z{k}.py', '100%_{k}.py', 'a%%b{k}.py', 'p%s_%d{k}.py', 'c%{k}.py']
    for k in range(rnd.randint(1, 3)):
        fn = '%s/%s' % (d, rnd.choice(exts).replace('{k}', str(k)))
        if fn in files:
            continue
        text, used = gen_source(rnd, shapes)
        used_shapes.update(used)
        files[fn] = text
        for start, name, ls in function_codes(text, fn):
            cands.append((fn, start, name, ls))
    cells = {}
    if rnd.random() < 0.12:
        for k in range(rnd.randint(1, 2)):
            name = rnd.choice(['<ipython-input-%d-%06x>' % (k + 2, rnd.getrandbits(24)), '/tmp/ipykernel_4242/%d.py' % rnd.getrandbits(30)])
            text, used = gen_source(rnd, [rnd.choice(['plain', 'decorated', 'nested', 'lambda1', 'oneliner', 'nonascii'])])
            text = text.replace('\r\n', '\n')
            used_shapes.update(used)
            cells[name] = text
            cc = function_codes(text, name)
            rnd.shuffle(cc)
            for start, nm, ls in cc[:2]:
                cands.insert(0, (name, start, nm, ls))
    nfun = rnd.choice([0, 1, 1, 2, 3, 4, 5, 6])
    if not cells:
        rnd.shuffle(cands)
    else:
        head, tail = cands[:2], cands[2:]
        rnd.shuffle(tail)
        cands = head + tail
    stats = []
    kinds = []
    for fn, start, name, ls in cands[:nfun]:
        mode = rnd.random()
        tm = gen_timings(rnd, ls, zero_time=(mode < 0.04))
        stats.append([fn, start, name, tm])
        kinds.append('found')
    # missing files
    for _ in range(rnd.choice([0, 0, 0, 1, 1, 2])):
        if len(stats) >= 6:
            break
        fn = '%s/%s' % (d, rnd.choice(['gone.py', 'nowhere/else.py', 'göne.py', 'gone%.py', 'no%d/el%%se.py']))
        if rnd.random() < 0.4:      # pseudo file names of generated / frozen / interactive code: never files, never cells
            fn = rnd.choice(['<string>', '<frozen posixpath>', '<doctest a[0]>', '<python-input-3>', '<stdin>', '<generated>'])
        start = rnd.choice([1, 7, 120, 99998, 999990, 1234567])
        if any(s[0] == fn and s[1] == start for s in stats):
            continue
        ls = sorted(rnd.sample(range(start, start + 40), rnd.randint(0, 8)))
        stats.append([fn, start, rnd.choice(['f', 'g', '<lambda>', 'f%s', '100%']), gen_timings(rnd, ls) if ls else []])
        kinds.append('missing')
    # equal total times (stability of sort=True), never-run functions
    if len(stats) >= 2 and rnd.random() < 0.3:
        a, b = rnd.sample(range(len(stats)), 2)
        if stats[a][3] and stats[b][3]:
            ta = sum(t[2] for t in stats[a][3])
            tb = sum(t[2] for t in stats[b][3][1:])
            if ta >= tb:
                stats[b][3][0][2] = ta - tb
    rnd.shuffle(stats)
    if stats and rnd.random() < 0.15:
        rnd.shuffle(rnd.choice(stats)[3])        # not ordered by line: still every line once
    if len(stats) >= 2 and rnd.random() < 0.1:
        # exact totals beyond 2**53 that are equal as floats
        a, b = rnd.sample(range(len(stats)), 2)
        if stats[a][3] and stats[b][3]:
            base = rnd.choice([10 ** 16, 10 ** 17, 3 * 10 ** 17])
            for t in stats[a][3] + stats[b][3]:
                t[2] = 0
            stats[a][3][0][2] = base + rnd.randint(1, 3)
            stats[b][3][0][2] = base
    valid = True
    if malformed and stats:
        valid = False
        s = rnd.choice(stats)
        kind = rnd.choice(['dup', 'beyond', 'before', 'unsorted'])
        base = s[1]
        if kind == 'dup' and s[3]:
            t = rnd.choice(s[3])
            s[3].insert(rnd.randrange(len(s[3]) + 1), [t[0], gen_hits(rnd), gen_time(rnd)])
        elif kind == 'beyond':
            s[3].append([base + rnd.choice([60, 200, 600]), gen_hits(rnd), gen_time(rnd)])
        elif kind == 'before' and base > 1:
            s[3].insert(0, [base - 1, gen_hits(rnd), gen_time(rnd)])
        else:
            s[3].reverse()
    cells = {n: t for n, t in cells.items() if any(s[0] == n for s in stats)}
    if rnd.random() < 0.06 and len(stats) < 6 and valid and uncached_enabled():
        # an IPython cell name whose source is cached nowhere (statistics viewed outside the notebook)
        name = '<ipython-input-%d-%06x>' % (rnd.randint(1, 99), rnd.getrandbits(24))
        start = rnd.choice([1, 3, 12])
        ls = sorted(rnd.sample(range(start, start + 12), rnd.randint(1, 5)))
        stats.insert(rnd.randrange(len(stats) + 1), [name, start, 'cellfn', [[l, gen_hits(rnd), gen_time(rnd)] for l in ls]])
        cells[name] = None
    names = [x for s_ in stats for x in (s_[0], s_[2])]
    encs = [None, None, None] + [e for e in ('ascii', 'latin-1') if all(encodable(x, e) for x in names)]
    return dict(dir=d, files=files, cells=cells, encoding=rnd.choice(encs), stats=stats, unit=rnd.choice(UNITS), output_unit=rnd.choice(OUT_UNITS),
                combos=COMBOS, valid=valid, shapes=sorted(used_shapes) + (['ipython_cell'] if cells else [])
                + (['ipython_cell_without_cached_source'] if None in cells.values() else []))


def finding_case(tmpdir, idx):
    """Canonical replay of the finding repaired by /repo 49eff24 (hits > 0, time = 0, stripzeros +
    summarize: the summary line was missing); kept in every run as a regression case."""
    d = '%s/c%d' % (tmpdir, idx)
    fn = d + '/zero.py'
    text = 'def fast(x):\n    return x\n\ndef slow(x):\n    return x + 1\n'
    return dict(dir=d, files={fn: text}, cells={}, stats=[[fn, 1, 'fast', [[2, 3, 0]]], [fn, 4, 'slow', [[5, 3, 7000]]]],
                unit=1e-6, output_unit=None, combos=COMBOS, valid=True, shapes=['plain'])


def cell_finding_case(tmpdir, idx):
    """Canonical replay of the finding repaired by /repo 6c987c9 (an IPython-cell function reported
    after a function whose file is on disk lost all its rows: linecache.clearcache() in show_func);
    kept in every run as a regression case."""
    d = '%s/c%d' % (tmpdir, idx)
    fn = d + '/a.py'
    cell = '<ipython-input-3-abcdef>'
    return dict(dir=d, files={fn: 'def f(x):\n    return x\n'}, cells={cell: 'def c0(y):\n    y += 1\n    return y\n'},
                stats=[[fn, 1, 'f', [[2, 1, 100]]], [cell, 1, 'c0', [[2, 1, 50], [3, 1, 60]]]],
                unit=1e-6, output_unit=None, combos=COMBOS, valid=True, shapes=['plain', 'ipython_cell'])


def uncached_enabled():
    """Cell names without any cached source make HEAD drop the rows (finding FINDING_UNCACHED).  Until
    the lead has registered that finding in known_findings.json (any status) these inputs stay
    switched off, so that the check is green on the unchanged tree and seed runs mean something;
    once it is listed they are generated in every run (known: KNOWN-FINDING line, fixed: regression)."""
    p = core.VERIF / 'known_findings.json'
    try:
        return any(f.get('id') == FINDING_UNCACHED for f in json.loads(p.read_text()).get('findings', []))
    except (OSError, ValueError):
        return False


def uncached_cell_case(tmpdir, idx):
    """Canonical replay of C10-ipython-cell-without-cached-source-has-no-rows."""
    d = '%s/c%d' % (tmpdir, idx)
    cell = '<ipython-input-7-c0ffee>'
    return dict(dir=d, files={}, cells={cell: None}, stats=[[cell, 1, 'c1', [[2, 4, 900], [3, 4, 1100]]]],
                unit=1e-6, output_unit=None, combos=COMBOS, valid=True, shapes=['ipython_cell_without_cached_source'])


def encoding_case(tmpdir, idx, enc):
    """Non-ASCII source lines on a stream whose strict encoding cannot encode all of them."""
    d = '%s/c%d' % (tmpdir, idx)
    fn = d + '/enc.py'
    text = "def e(x):\n    a = 'é ü'  # latin-1 can\n    b = '日本 ☃'  # latin-1 cannot\n    c = x\n    d = 'ÿ'\n    return a, b, c, d\n"
    return dict(dir=d, files={fn: text}, cells={}, encoding=enc, stats=[[fn, 1, 'e', [[l, l, 10 * l] for l in range(2, 7)]]],
                unit=1e-6, output_unit=None, combos=COMBOS, valid=True, shapes=['nonascii'])


def big_totals_case(tmpdir, idx):
    """sort=True orders by the exact integer tick totals: totals above 2**53 that differ in the low
    digits (equal as floats), the larger one first by key."""
    d = '%s/c%d' % (tmpdir, idx)
    fn = d + '/big.py'
    text = 'def a(x):\n    return x\n\ndef b(x):\n    return x + 1\n\ndef c(x):\n    return x + 2\n'
    return dict(dir=d, files={fn: text}, cells={}, unit=1e-9, output_unit=None, combos=COMBOS, valid=True, shapes=['plain'],
                stats=[[fn, 1, 'a', [[2, 7, 10 ** 17 + 3]]], [fn, 4, 'b', [[5, 7, 10 ** 17 + 2]]], [fn, 7, 'c', [[8, 3, 4 * 10 ** 17], [7, 1, 6 * 10 ** 17 - 1]]],
                       [d + '/zz_gone.py', 3, 'z', [[4, 2, 10 ** 18 - 1]]]])


def unsorted_missing_case(tmpdir, idx, dups):
    """A missing file and a timings list that is not ordered by line (concatenated runs, hand-built
    statistics); with `dups` it also repeats line numbers (outside C12's guarantee: model only)."""
    d = '%s/c%d' % (tmpdir, idx)
    tm = [[15, 3, 300], [12, 2, 200], [19, 1, 100], [11, 5, 50], [14, 4, 40]]
    if dups:
        tm = tm + [[19, 2, 7], [11, 1, 9], [13, 6, 60]]
    return dict(dir=d, files={}, cells={}, unit=1e-6, output_unit=None, combos=COMBOS, valid=not dups, shapes=[],
                stats=[[d + '/absent.py', 10, 'u', tm], ['<string>', 2, 'v', [[6, 1, 10], [3, 2, 20], [4, 3, 30]]]])


def ties_case(tmpdir, idx, unit, ou):
    """Decimal ties and column-width boundaries: x.x5 values that are exact in binary, cells of
    exactly 12 / 13 and 8 / 9 characters, hits of 9 / 10 digits."""
    d = '%s/c%d' % (tmpdir, idx)
    fn = d + '/ties.py'
    hs = [(4, 1), (4, 3), (8, 1), (8, 5), (2, 1), (16, 1), (40, 1), (1, 9999999999), (1, 99999999999), (3, 999999),
          (1, 999999), (1, 1000000), (999999999, 10 ** 18), (10 ** 9, 10 ** 18), (7, 99999999994), (7, 99999999995)]
    text = 'def t(x):\n' + ''.join('    x += %d\n' % i for i in range(len(hs)))
    return dict(dir=d, files={fn: text}, cells={}, stats=[[fn, 1, 't', [[2 + i, h, t] for i, (h, t) in enumerate(hs)]]],
                unit=unit, output_unit=ou, combos=COMBOS, valid=True, shapes=['long'])


def history_cases(rnd, idx, tmpdir, nsteps=3):
    """One process, one path, several reports: the file is rewritten between the reports (the def
    stays on its line, the body changes text and length - grown, then shrunk), and every report
    must show the file as it is at the time of that report."""
    d = '%s/h%d' % (tmpdir, idx)
    fn = '%s/%s' % (d, rnd.choice(['live.py', 'reloaded_mod.py', 'lïve.py']))
    head = rnd.choice([[], ['# hot-reloaded module', 'import os', '']])
    unit, ou = rnd.choice(UNITS), rnd.choice(OUT_UNITS)
    lens = rnd.sample(range(1, 12), nsteps)
    lens[1] = max(lens) + rnd.randint(1, 6)        # step 2 is longer than step 1 ...
    lens[-1] = min(lens[0], 3) if nsteps > 2 else lens[-1]   # ... the last one shorter
    cases = []
    for step, n in enumerate(lens):
        body = ['    x = x %s %d  # v%d é' % (rnd.choice('+-*'), rnd.randint(1, 99), step) for _ in range(n)]
        text = '\n'.join(head + ['def hot(x):'] + body + ['    return x', '', 'y = hot(%d)' % step]) + '\n'
        (start, name, ls), = function_codes(text, fn)
        tm = [[l, gen_hits(rnd), gen_time(rnd)] for l in ls if l > start or rnd.random() < 0.3]
        cases.append(dict(dir=d, files={fn: text}, cells={}, stats=[[fn, start, name, tm]], unit=unit, output_unit=ou,
                          combos=COMBOS, valid=True, shapes=['rewritten_file'], step=step))
    return cases


# ----------------------------------------------------------------------------------------
# end-to-end sessions: kernprof -l -v, then the viewer CLI on the .lprof from another directory
ODD_CHARS = ['\x0c', '\x0b', '\x1c', '\x1d', '\x1e', '\x85', '\u2028', '\u2029']   # what str.splitlines splits at, Python does not
SESSION_UNITS = [None, '1e-3', '1', '7e-5', '1e-9']


def gen_session(rnd, idx, tmpdir):
    """A script with @profile functions that kernprof runs for real.  Input dimensions: characters
    that str.splitlines() treats as line ends but the Python compiler does not (page-break lines,
    comments, string literals), a script that also imports itself (the same functions are then
    recorded under a relative and an absolute spelling of one file), percent signs in the script
    name, -u / -z on kernprof, -u / -z / -t / -m on the viewer, which runs in another directory."""
    d = '%s/s%d' % (tmpdir, idx)
    chars = [ODD_CHARS[idx % len(ODD_CHARS)]] + rnd.sample(ODD_CHARS, rnd.randint(0, 2))
    if idx % 4 == 3:
        chars = []
    pick = (lambda: rnd.choice(chars)) if chars else (lambda: '')
    modname = ['script', 'run_me', 'pro%file', 'a%%s_%d', 'main_é'][idx % 5]
    self_import = idx % 2 == 0
    nfun = rnd.randint(1, 3)
    L = []
    if rnd.random() < 0.5:
        L.append('# -*- coding: utf-8 -*- header %s' % (pick() if rnd.random() < 0.5 else ''))
    if chars and rnd.random() < 0.7:
        L.append(chars[0] if chars[0] == '\x0c' else '# %s' % chars[0])   # a page-break line of its own
    L += ['import sys', '']
    for j in range(nfun):
        if chars and rnd.random() < 0.4:
            L.append('\x0c' if '\x0c' in chars else '# sep %s' % pick())
        L += ['@profile', 'def fn%d(n):' % j, '    total = 0  # c%s' % (pick() if rnd.random() < 0.6 else '')]
        L += ['    for i in range(n):', '        total += i * %d' % rnd.randint(1, 9)]
        if rnd.random() < 0.6:
            L.append("    s = 'lit %s é'" % pick())
        if rnd.random() < 0.4:
            L += ['    total = (total +', '             %d)  # m%s' % (rnd.randint(1, 9), pick())]
        L += ['    return total', '']
    gen_exec = not self_import and idx % 4 != 3
    if gen_exec:
        # code generated at run time (exec / dataclass / namedtuple style): its file name is a pseudo-name
        L += ['_SRC = "@profile\\ndef gen(n):\\n    t = 0\\n    for i in range(n):\\n        t += i\\n    return t\\n"',
              "exec(compile(_SRC, %r, 'exec'))" % rnd.choice(['<string>', '<generated>', '<frozen fake>']), '']
    # how the program leaves sys.stdout: untouched, rebound to a sink and never restored, or wrapped by an
    # object of an auto-profiled helper module (-p helper): kernprof's own prints then run profiled code
    stdout_mode = {1: 'devnull', 6: 'stringio', 5: 'tee'}.get(idx % 8) if not self_import else None
    helper = None
    L.append("if __name__ == '__main__':")
    if stdout_mode == 'tee':
        helper = ('class Tee:\n    def __init__(self, out):\n        self.out = out\n        self.n = 0\n\n'
                  '    def write(self, s):\n        self.n += 1\n        return self.out.write(s)\n\n'
                  '    def flush(self):\n        self.out.flush()\n\n\ndef make(out):\n    return Tee(out)\n')
        L[L.index('import sys')] = 'import sys\nfrom helper_tee import Tee, make'
        L += ['    sys.stdout = make(sys.stdout)', "    print('through the tee')"]
    if gen_exec:
        L.append('    gen(%d)' % rnd.randint(1, 5))
    if self_import:
        L.append('    __import__(%r)' % modname)
    for j in range(nfun):
        L.append('    fn%d(%d)' % (j, rnd.randint(1, 6)))
    if stdout_mode == 'devnull':
        L += ['    import os', "    sys.stdout = open(os.devnull, 'w')"]
    elif stdout_mode == 'stringio':
        L += ['    import io', '    sys.stdout = io.StringIO()', "    print('into the void')"]
    L.append('else:')
    called = [j for j in range(nfun) if rnd.random() < 0.6]
    L += ['    fn%d(%d)' % (j, rnd.randint(1, 4)) for j in called] or ['    pass']
    text = '\n'.join(L) + '\n'
    compile(text, modname, 'exec')
    ku, vu = rnd.choice(SESSION_UNITS), rnd.choice(SESSION_UNITS)
    kz = rnd.random() < 0.3
    vz, vt, vm = rnd.random() < 0.3, rnd.random() < 0.5, rnd.random() < 0.6
    enc = [None, 'ascii', 'latin-1'][idx % 3]
    if enc and not encodable(modname, enc):
        enc = 'latin-1' if encodable(modname, 'latin-1') else None
    files = {'%s/%s.py' % (d, modname): text}
    if helper:
        files[d + '/helper_tee.py'] = helper
    return dict(dir=d, view_cwd=d + 'v', encoding=enc, files=files, script=modname + '.py', stdout_mode=stdout_mode,
                kernprof_args=(['-u', ku] if ku else []) + (['-z'] if kz else []) + (['-p', 'helper_tee'] if helper else []),
                viewer_args=(['-u', vu] if vu else []) + [a for a, on in (('-z', vz), ('-t', vt), ('-m', vm)) if on],
                k_unit=float(ku or '1e-6'), v_unit=float(vu or '1e-6'), k_combo=[kz, False, False, True],
                v_combo=[vz, vt, vm, True], odd_chars=['U+%04X' % ord(c) for c in chars], self_import=self_import)


def run_sessions(impl, sessions, tmp):
    """-> (cases, outs, errors): every session gives two ordinary report cases (same stats = what
    the .lprof holds): the text kernprof -v printed, and the text the viewer printed elsewhere."""
    cases, outs, errors = [], [], []
    if not sessions:
        return cases, outs, errors
    keys = ('dir', 'view_cwd', 'files', 'script', 'kernprof_args', 'viewer_args', 'encoding')
    res = core.run_impl(impl, 'harness.drivers.c10s', dict(tmp=str(tmp), sessions=[{k: s.get(k) for k in keys} for s in sessions]))
    if not str(res.get('kernprof_file', '')).startswith(str(impl)):
        errors.append('kernprof did not come from the scratch build: %r' % res.get('kernprof_file'))
    for s, r in zip(sessions, res['sessions']):
        k = r['kernprof']
        if r['stats'] is None or r['viewer'] is None:
            errors.append('kernprof -l -v did not produce a report for %s (rc=%s): %s' % (s['script'], k['rc'], (k['err'] or k['out'])[-300:]))
            continue
        if not r.get('types_ok'):
            errors.append('the .lprof of %s holds non-int numbers' % s['script'])
            continue
        # the .lprof was written: from here on a report that is not printed is the property failing
        kerr = None
        if k['rc'] != 0 or 'Timer unit: ' not in k['out']:
            kerr = 'kernprof -l -v wrote the statistics but exited %s without a complete report: %s' % (k['rc'], (k['err'] or k['out'])[-200:])
        ktext = k['out'][k['out'].index('Timer unit: '):] if 'Timer unit: ' in k['out'] else ''
        vtext = r['viewer']['out']
        for which, text, unit_out, combo, envs, cwd in (('kernprof -l -v', ktext, s['k_unit'], s['k_combo'], r['env_kernprof'], s['dir']),
                                                        ('python -m line_profiler', vtext, s['v_unit'], s['v_combo'], r['env_viewer'], s['view_cwd'])):
            resolve = {fn: (fn if fn.startswith('/') else cwd + '/' + fn) for fn, _, _, _ in r['stats']}
            cases.append(dict(dir=s['dir'], files=s['files'], cells={}, encoding=s.get('encoding'), stats=r['stats'], unit=r['unit'], output_unit=unit_out,
                              combos=[combo], valid=True, shapes=['session:' + which] + (['odd_line_chars'] if s['odd_chars'] else [])
                              + (['two_spellings_of_one_file'] if s['self_import'] else [])
                              + (['program_leaves_stdout_' + s['stdout_mode']] if s.get('stdout_mode') else []),
                              resolve=resolve, session=s, report=which))
            err = kerr if which == 'kernprof -l -v' else (
                None if r['viewer']['rc'] == 0 else 'viewer exit %s: %s' % (r['viewer']['rc'], r['viewer']['err'][-300:]))
            outs.append(dict(env=envs, texts=[dict(text=text, err=err)]))
    for out in outs:
        parse_outs(out)
    return cases, outs, errors


def with_entry(case, entry):
    """Route the case through one of the entry points that print given statistics: show_text itself,
    LineProfiler.print_stats() of a profiler whose get_stats() returns LineStats(stats, unit), or the
    viewer main() on the pickled LineStats (details always on, -u always given: default 1e-6)."""
    case['entry'] = entry
    if entry == 'viewer':
        case['combos'] = [c for c in COMBOS if c[3]]
        if case['output_unit'] is None:
            case['output_unit'] = 1e-6
    return case


def gen_cases(tier, rnd, tmpdir):
    n_valid, n_bad, n_hist = (60, 12, 6) if tier == 'quick' else (1600, 320, 60)
    cases = [finding_case(tmpdir, 0), ties_case(tmpdir, 1, 1.0, None), ties_case(tmpdir, 2, 1e-6, 1e-6),
             ties_case(tmpdir, 3, 1e-9, 1e-3), cell_finding_case(tmpdir, 4),
             # called functions whose times sum to 0, under every option combination, through the
             # other two entry points as well (statistics' unit != the profiler's own clock resolution)
             with_entry(dict(finding_case(tmpdir, 5), unit=2.5e-7), 'print_stats'),
             with_entry(dict(finding_case(tmpdir, 6), unit=1e-3), 'viewer'),
             uncached_cell_case(tmpdir, 7) if uncached_enabled() else ties_case(tmpdir, 7, 2.5e-7, 1e-3),
             encoding_case(tmpdir, 8, 'ascii'),
             with_entry(encoding_case(tmpdir, 9, 'latin-1'), 'viewer'),
             big_totals_case(tmpdir, 10), with_entry(big_totals_case(tmpdir, 11), 'viewer'),
             unsorted_missing_case(tmpdir, 12, False), with_entry(unsorted_missing_case(tmpdir, 13, True), 'print_stats')]
    assert len(cases) == N_CANONICAL
    for i in range(n_hist):          # histories first: all steps of one history run in one driver process
        hs = history_cases(rnd, i, tmpdir)
        for j, h in enumerate(hs):
            with_entry(h, ENTRIES[(i + 1) % len(ENTRIES)])
            h['history'] = [{k: p.get(k) for k in ('dir', 'files', 'cells', 'stats', 'unit', 'output_unit', 'entry', 'encoding')} for p in hs[:j]]
        cases += hs
    assert len(cases) <= 200
    shape_names = sorted(SNIPPETS)
    for i in range(n_valid):
        # the first cases walk through every shape on its own, the rest mix them
        shapes = [shape_names[i % len(shape_names)]] if i < len(shape_names) else None
        cases.append(with_entry(gen_case(rnd, len(cases), tmpdir, shapes=shapes), ENTRIES[i % len(ENTRIES)]))
    for i in range(n_bad):
        cases.append(with_entry(gen_case(rnd, len(cases), tmpdir, malformed=True), ENTRIES[i % len(ENTRIES)]))
    return cases


# ----------------------------------------------------------------------------------------
# tokenising the real report
MISSING_TEXT = ['Are you sure you are running this program from the same directory',
                'that you ran the profiler from?', "Continuing without the function's contents."]
HEADER = re.compile(r'(Line #) ( *Hits) ( *Time) ( *Per Hit) (  % Time)  Line Contents')


class Unparseable(Exception):
    pass


def parse_report(text):
    if not text.endswith('\n'):
        raise Unparseable('text does not end with a newline')
    lines = text.split('\n')[:-1]
    m = re.fullmatch(r'Timer unit: (.*) s', lines[0]) if lines else None
    if not m or len(lines) < 2 or lines[1] != '':
        raise Unparseable('no timer unit header')
    obs = dict(lines=lines, unit=m.group(1), blocks=[], summary=[])
    i = 2
    while i < len(lines) and lines[i].startswith('Total time: '):
        m = re.fullmatch(r'Total time: (.*) s', lines[i])
        if not m:
            raise Unparseable('total line: %r' % lines[i])
        b = dict(total=m.group(1), rows=[])
        i += 1
        if i < len(lines) and lines[i].startswith('File: '):
            b['file'] = lines[i][6:]
            m = re.fullmatch(r'Function: (.*) at line (-?\d+)', lines[i + 1])
            if not m:
                raise Unparseable('function line: %r' % lines[i + 1])
            b['func'] = [m.group(1), int(m.group(2))]
            i += 2
        elif lines[i:i + 1] == [''] and lines[i + 1].startswith('Could not find file ') and lines[i + 2:i + 5] == MISSING_TEXT:
            b['file'] = lines[i + 1][len('Could not find file '):]
            b['func'] = None
            i += 5
        else:
            raise Unparseable('neither File: nor Could not find file at line %d' % i)
        if lines[i] != '':
            raise Unparseable('no blank line before the table header')
        hm = HEADER.fullmatch(lines[i + 1])
        if not hm or lines[i + 2] != '=' * len(lines[i + 1]):
            raise Unparseable('table header / ruler: %r' % lines[i + 1:i + 3])
        widths = [len(hm.group(k)) for k in range(1, 6)]
        i += 3
        while i < len(lines) and lines[i] != '':
            ln = lines[i]
            m = re.match(r' *(-?\d+)', ln)
            if not m or m.end() < 6:
                raise Unparseable('row without a line number: %r' % ln)
            pos = m.end()
            cellsv = []
            for w in widths[1:]:
                if ln[pos:pos + 1] != ' ':
                    raise Unparseable('row column separator: %r' % ln)
                cellsv.append(ln[pos + 1:pos + 1 + w])
                if len(cellsv[-1]) != w:
                    raise Unparseable('row too short: %r' % ln)
                pos += 1 + w
            if ln[pos:pos + 2] != '  ':
                raise Unparseable('row text separator: %r' % ln)
            b['rows'].append([int(m.group(1))] + [c.strip(' ') for c in cellsv] + [ln[pos + 2:]])
            i += 1
        if i >= len(lines):
            raise Unparseable('block not terminated by a blank line')
        i += 1
        obs['blocks'].append(b)
    while i < len(lines):
        m = re.fullmatch(r' *(\S+) seconds - (.*):(-?\d+) - (.*)', lines[i])
        if not m:
            raise Unparseable('summary line: %r' % lines[i])
        obs['summary'].append([m.group(1), [m.group(2), int(m.group(3)), m.group(4)]])
        i += 1
    return obs


# ----------------------------------------------------------------------------------------
# the property predicate on the observed report, exact rational arithmetic
NUM = re.compile(r'(\d+)(?:\.(\d+))?(?:e([+-]\d+))?')
SLACK = Fraction(1, 2 ** 50)


def parse_dec(s):
    m = NUM.fullmatch(s.strip(' '))
    if not m:
        return None
    ip, fp, ex = m.group(1), m.group(2) or '', int(m.group(3) or 0)
    M = int(ip + fp)
    E = ex - len(fp)
    return M, E, (E + len(str(M)) - 1)


def g_close(P, s, exact):
    p = parse_dec(s)
    if p is None:
        return False
    M, E, X = p
    tol = 0 if M == 0 else Fraction(1, 2) * Fraction(10) ** (X - P + 1)
    return abs(M * Fraction(10) ** E - exact) <= tol + exact * SLACK


def f_close(prec, s, exact):
    p = parse_dec(s)
    if p is None or p[1] != -prec:
        return False
    return abs(p[0] * Fraction(10) ** p[1] - exact) <= Fraction(1, 2) * Fraction(10) ** (-prec) + exact * SLACK


def cell_close(s, exact):
    return g_close(3, s, exact) if 'e' in s else f_close(1, s, exact)


def hits_ok(s, n):
    if re.fullmatch(r'\d+', s):
        return int(s) == n
    return n >= 10 ** 9 and g_close(6, s, Fraction(n))


def py_spec(case, combo, obs, file_info, summary_filter_on_time=False, cells_cleared=False, uncached_cells_empty=False):
    """None when the property holds of the observed report, else a reason.
    file_info: {(fn, start): (exists, [file lines from start on])} read independently."""
    strip, sort, summ, det = combo
    unit = Fraction(case['unit'])
    ou = unit if case['output_unit'] is None else Fraction(case['output_unit'])
    entries = [((fn, ln, name), tm) for fn, ln, name, tm in case['stats']]
    if sort:
        order = sorted(entries, key=lambda e: sum(t[2] for t in e[1]))
    else:
        order = sorted(entries, key=lambda e: e[0])
    expected = [e for e in order if not (strip and sum(t[1] for t in e[1]) == 0)]
    if not g_close(6, obs['unit'], ou):
        return 'timer unit header %r does not state %s' % (obs['unit'], float(ou))
    if det:
        if len(obs['blocks']) != len(expected):
            return 'expected %d function blocks, found %d' % (len(expected), len(obs['blocks']))
        cleared = False
        for (key, tm), b in zip(expected, obs['blocks']):
            fn, start, name = key
            exists, flines = file_info[(fn, start)]
            lost = (cells_cleared and cleared and (case.get('cells') or {}).get(fn) is not None) or (
                uncached_cells_empty and fn in (case.get('cells') or {}) and case['cells'][fn] is None)
            cleared = cleared or fn in case['files']
            if lost:
                # the alternative expectation of the known finding: header only, no rows
                if b['file'] != fn or b['func'] != [name, start] or b['rows']:
                    return 'cell block %r after a cleared linecache is not an empty table' % (key,)
                continue
            tot = sum(t[2] for t in tm)
            if b['file'] != fn or (b['func'] is None) == exists or (b['func'] is not None and b['func'] != [name, start]):
                return 'block header %r/%r is not function %r' % (b['file'], b['func'], key)
            if not g_close(6, b['total'], tot * unit):
                return 'total time %r of %r is not %s' % (b['total'], key, float(tot * unit))
            for i, r in enumerate(b['rows']):
                if r[0] != start + i:
                    return 'row %d of %r carries line %d' % (i, key, r[0])
                want = '' if not exists else (flines[i] if i < len(flines) else None)
                if want and not encodable(want, case.get('encoding')):
                    want = FALLBACK      # the stream cannot encode that line: the fixed placeholder, on a row of its own
                if r[5] != want:
                    return 'row of line %d of %r shows %r, the file has %r' % (r[0], key, r[5], want)
            for l, h, t in tm:
                rs = [r for r in b['rows'] if r[0] == l]
                if len(rs) != 1:
                    return 'recorded line %d of %r is on %d rows' % (l, key, len(rs))
                r = rs[0]
                ext = t * unit / ou
                if not hits_ok(r[1], h):
                    return 'hits cell %r of line %d is not %d' % (r[1], l, h)
                if not cell_close(r[2], ext):
                    return 'time cell %r of line %d is not %s' % (r[2], l, float(ext))
                if not cell_close(r[3], ext / h):
                    return 'per-hit cell %r of line %d is not %s' % (r[3], l, float(ext / h))
                if tot == 0:
                    if r[4] != '':
                        return 'percent cell %r with zero total' % r[4]
                elif not f_close(1, r[4], Fraction(100 * t, tot)):
                    return 'percent cell %r of line %d is not %s' % (r[4], l, float(Fraction(100 * t, tot)))
            rec = {t[0] for t in tm}
            for r in b['rows']:
                if r[0] not in rec and any(r[1:5]):
                    return 'line %d of %r was never recorded but shows numbers %r' % (r[0], key, r[1:5])
    elif obs['blocks']:
        return 'details off but %d blocks printed' % len(obs['blocks'])
    if summ:
        exp_s = expected
        if summary_filter_on_time and strip:
            exp_s = [e for e in expected if sum(t[2] for t in e[1]) != 0]
        if len(obs['summary']) != len(exp_s):
            return 'expected %d summary lines, found %d' % (len(exp_s), len(obs['summary']))
        for (key, tm), (txt, k2) in zip(exp_s, obs['summary']):
            if list(key) != k2:
                return 'summary line for %r where %r was expected' % (k2, key)
            if not f_close(2, txt, sum(t[2] for t in tm) * unit):
                return 'summary total %r of %r is not %s' % (txt, key, float(sum(t[2] for t in tm) * unit))
    elif obs['summary']:
        return 'summarize off but %d summary lines printed' % len(obs['summary'])
    return None


def encodable(text, enc):
    if not enc:
        return True
    try:
        text.encode(enc)
        return True
    except UnicodeEncodeError:
        return False


def classify(case, combo, obs, file_info):
    """The known finding, and only it: under stripzeros+summarize a function with total hits > 0
    and total time = 0 has its details shown but no summary line; with that one expectation
    changed the report satisfies the property."""
    strip, sort, summ, det = combo
    if not (strip and summ):
        return None
    if not any(sum(t[1] for t in tm) > 0 and sum(t[2] for t in tm) == 0 for _, _, _, tm in case['stats']):
        return None
    if py_spec(case, combo, obs, file_info, summary_filter_on_time=True) is None:
        return FINDING
    return None


def classify_cell(case, combo, obs, file_info):
    """The second known finding, and only it: a function defined in an IPython cell whose block
    comes after the block of a function whose file is on disk has a header and no rows; with that
    one expectation changed (alone, or together with the first finding when the case has both
    signatures) the report satisfies the property."""
    strip, sort, summ, det = combo
    if not det or not case.get('cells'):
        return None
    if not any(case['cells'].get(fn) is not None and tm for fn, _, _, tm in case['stats']):
        return None
    if not any(fn in case['files'] for fn, _, _, tm in case['stats']):
        return None
    if py_spec(case, combo, obs, file_info, cells_cleared=True) is None:
        return FINDING_CELL
    if classify_time_signature(case, combo) and py_spec(case, combo, obs, file_info, summary_filter_on_time=True, cells_cleared=True) is None:
        return FINDING_CELL
    return None


def classify_time_signature(case, combo):
    return combo[0] and combo[2] and any(sum(t[1] for t in tm) > 0 and sum(t[2] for t in tm) == 0 for _, _, _, tm in case['stats'])


def classify_uncached(case, combo, obs, file_info):
    """A function whose file name is an IPython cell name while the cell's source is in neither
    linecache nor a file (statistics viewed in another process than the notebook's): its block
    is a header and NO rows; with that one expectation changed the report satisfies the property."""
    if not combo[3] or not any(t is None for t in (case.get('cells') or {}).values()):
        return None
    if py_spec(case, combo, obs, file_info, uncached_cells_empty=True) is None:
        return FINDING_UNCACHED
    return None


def classify_any(case, combo, obs, file_info):
    return (classify(case, combo, obs, file_info) or classify_uncached(case, combo, obs, file_info)
            or classify_cell(case, combo, obs, file_info))


def file_info_of(case):
    info = {}
    resolve = case.get('resolve') or {}
    for fn, start, name, tm in case['stats']:
        path = resolve.get(fn, fn)
        if path in case['files']:
            info[(fn, start)] = (True, file_lines(case['files'][path])[start - 1:])
        elif fn in (case.get('cells') or {}):
            if case['cells'][fn] is None:      # no source anywhere: nothing to show beside the numbers
                info[(fn, start)] = (True, [''] * (max([t[0] for t in tm] + [start]) - start + 2))
            else:
                info[(fn, start)] = (True, case['cells'][fn].splitlines()[start - 1:])
        else:
            info[(fn, start)] = (False, [])
    return info


# ----------------------------------------------------------------------------------------
# Coq text
class Pool:
    """Interns strings as Coq definitions so that a line repeated in 16 reports is written once."""

    def __init__(self):
        self.names = {}
        self.defs = []

    @staticmethod
    def lit(s):
        if all(32 <= ord(ch) < 127 for ch in s):
            return core.coq_str(s)
        return '(bs [%s])' % '; '.join(str(b) for b in s.encode('utf-8'))

    def s(self, s):
        if len(s) <= 8 and all(32 <= ord(ch) < 127 for ch in s):
            return core.coq_str(s)
        if s not in self.names:
            self.names[s] = 's%d' % len(self.names)
            self.defs.append('Definition %s : string := %s.' % (self.names[s], self.lit(s)))
        return self.names[s]


def coq_q(x):
    fr = Fraction(x)
    return '(%d # %d)%%Q' % (fr.numerator, fr.denominator)


def coq_key(P, fn, start, name):
    return '(%s, %s, %s)' % (P.s(fn), core.coq_z(start), P.s(name))


def coq_case_defs(P, k, case, envs):
    st = core.coq_list('(%s, %s)' % (coq_key(P, fn, start, name),
                                     core.coq_list('(%s, %s, %s)' % (core.coq_z(l), core.coq_z(h), core.coq_z(t)) for l, h, t in tm))
                       for fn, start, name, tm in case['stats'])
    env = core.coq_list('(%s, %s, %s)' % (P.s(fn), core.coq_z(start),
                                          ('(%s %s)' % ('Cell' if e.get('kind') == 'cell' else 'Found', core.coq_list(P.s(x) for x in e['sub'])))
                                          if e['found'] else 'Missing')
                        for (fn, start, name, tm), e in zip(case['stats'], envs))
    info = file_info_of(case)
    fs = core.coq_list('(%s, %s, (%s, %s))' % (P.s(fn), core.coq_z(start), core.coq_bool(ex), core.coq_list(P.s(x) for x in ls[:400]))
                       for (fn, start), (ex, ls) in info.items())
    return ('Definition c%d_st : stats := %s.\nDefinition c%d_env : env := env_of %s.\nDefinition c%d_fs : files := %s.\n'
            % (k, st, k, env, k, fs))


def coq_obs(P, obs):
    blocks = core.coq_list(
        '(mkOBlock %s %s %s %s)' % (
            P.s(b['total']), P.s(b['file']),
            core.coq_opt('(%s, %s)' % (P.s(b['func'][0]), core.coq_z(b['func'][1])) if b['func'] is not None else None),
            core.coq_list('(mkORow %s %s %s %s %s %s)' % (core.coq_z(r[0]), P.s(r[1]), P.s(r[2]), P.s(r[3]), P.s(r[4]), P.s(r[5]))
                          for r in b['rows']))
        for b in obs['blocks'])
    summ = core.coq_list('(%s, %s)' % (P.s(t), coq_key(P, *k)) for t, k in obs['summary'])
    return '(mkObs %s %s %s %s)' % (core.coq_list(P.s(l) for l in obs['lines']), P.s(obs['unit']), blocks, summ)


SHARD_HEADER = ('From Coq Require Import QArith.\n'
                'From LP Require Import Prelude.Py Report.LayoutStr Report.Layout Report.Cells Report.CellsSpec.\n'
                'Open Scope Z_scope.\n')


def coq_combos(tier, k, n_single_from=16):
    """Which of the 16 reports of case k are also compared inside Coq.  Thorough: all.  Quick: all
    for the canonical cases, else the everything-on report plus five that rotate with k, so that
    every option combination is compared inside Coq in every run; the python-side predicate sees
    all 16 reports of every case in both tiers."""
    n = n_single_from
    if tier != 'quick' or k in (0, 1, 4, 5, 6, 7, 10, 12):      # the regression cases and one ties case: all of them
        return set(range(n))
    return {n - 1} | {(5 * k + i) % n for i in range(5 if n == 16 else 2)}


def build_shards(cases, outs, per=6, tier='thorough'):
    """-> (bodies, index) where index[shard] = list of (case idx, combo idx) in row order."""
    bodies, index = [], []
    for chunk in core.chunks(list(range(len(cases))), per):
        P = Pool()
        defs, rows, idx = [], [], []
        for k in chunk:
            case, out = cases[k], outs[k]
            if any(e['found'] and e['sub'] is None for e in out['env']):
                continue
            defs.append(coq_case_defs(P, k, case, out['env']))
            for j, combo in enumerate(case['combos']):
                o = out['parsed'][j]
                if o is None or (len(case['combos']) > 1 and j not in coq_combos(tier, k, len(case['combos']))):
                    continue
                opts = '(mkOpts %s)' % ' '.join(core.coq_bool(x) for x in combo)
                args = '%s %s c%d_env c%d_fs %s c%d_st %s' % (
                    coq_q(case['unit']), core.coq_opt(coq_q(case['output_unit']) if case['output_unit'] is not None else None),
                    k, k, opts, k, coq_obs(P, o))
                if case.get('encoding'):
                    row = '(case_ok_enc %s %s)' % (COQ_ENC[case['encoding']], args)
                    rows.append(row if case['valid'] else '(fst %s, true)' % row)
                elif case.get('entry') == 'print_stats':
                    rows.append(('(print_stats_case_ok %s)' if case['valid'] else '(fst (print_stats_case_ok %s), true)') % args)
                elif case.get('entry') == 'viewer':
                    row = '(viewer_case_ok %s %s %s c%d_env c%d_fs c%d_st %s)' % (
                        coq_q(case['unit']), coq_q(case['output_unit']), ' '.join(core.coq_bool(x) for x in combo[:3]), k, k, k, coq_obs(P, o))
                    rows.append(row if case['valid'] else '(fst %s, true)' % row)
                elif case.get('report') == 'python -m line_profiler':
                    rows.append('(viewer_case_ok %s %s %s c%d_env c%d_fs c%d_st %s)' % (
                        coq_q(case['unit']), coq_q(case['output_unit']), ' '.join(core.coq_bool(x) for x in combo[:3]), k, k, k, coq_obs(P, o)))
                elif case.get('report') == 'kernprof -l -v':
                    rows.append('(kernprof_case_ok %s %s %s c%d_env c%d_fs c%d_st %s)' % (
                        coq_q(case['unit']), coq_q(case['output_unit']), core.coq_bool(combo[0]), k, k, k, coq_obs(P, o)))
                else:
                    rows.append('(case_ok %s)' % args if case['valid'] else '(fst (case_ok %s), true)' % args)
                idx.append((k, j))
        body = '\n'.join(P.defs) + '\n' + '\n'.join(defs)
        body += 'Definition rows : list (bool * bool) := [\n' + ';\n'.join(rows) + '].\n'
        body += 'Eval vm_compute in (false_indices (map fst rows)).\nEval vm_compute in (false_indices (map snd rows)).\n'
        bodies.append(body)
        index.append(idx)
    return bodies, index


# ----------------------------------------------------------------------------------------
def run_cases(impl, cases, tmp):
    payload = dict(tmp=str(tmp), cases=[{k: c.get(k) for k in ('dir', 'files', 'cells', 'stats', 'unit', 'output_unit', 'combos', 'entry', 'encoding')} for c in cases])
    outs = []
    for chunk in core.chunks(payload['cases'], 200):
        outs += core.run_impl(impl, DRIVER, dict(tmp=str(tmp), cases=chunk))['cases']
    for out in outs:
        parse_outs(out)
    return outs


def parse_outs(out):
    out['parsed'] = []
    out['parse_err'] = []
    for t in out['texts']:
        try:
            out['parsed'].append(None if t['err'] else parse_report(t['text']))
            out['parse_err'].append(t['err'])
        except (Unparseable, IndexError) as e:
            out['parsed'].append(None)
            out['parse_err'].append('unparseable: %s' % e)


def spec_failures(cases, outs):
    fails = []
    for case, out in zip(cases, outs):
        if not case['valid']:
            continue
        info = file_info_of(case)
        for j, combo in enumerate(case['combos']):
            o = out['parsed'][j]
            if o is None:
                fails.append(dict(case=slim(case, combo), impl=out['texts'][j], why='report: ' + str(out['parse_err'][j]), finding=None))
                continue
            why = py_spec(case, combo, o, info)
            if why is not None:
                fails.append(dict(case=slim(case, combo), impl=dict(text=out['texts'][j]['text']), why=why,
                                  finding=classify_any(case, combo, o, info)))
    return fails


def slim(case, combo):
    c = {k: case.get(k) for k in ('dir', 'files', 'cells', 'stats', 'unit', 'output_unit', 'valid', 'step', 'entry', 'encoding')}
    if case.get('step'):
        c['history'] = case['history']
    if case.get('session'):
        c['session'], c['report'], c['resolve'] = case['session'], case['report'], case['resolve']
    c['combos'] = [list(combo)]
    c['options'] = dict(zip(['stripzeros', 'sort', 'summarize', 'details'], combo))
    return c


def run(tier, seed):
    rnd = core.rng(seed, PROP)
    res = core.Result(PROP)
    res.obl = core.check_obligations(PROP, MODULE, THEOREMS, extra_vo=['theories/Report/CellsSpec.vo'])
    impl = core.build_impl()
    # private to this run: concurrent checks (seed lanes) must not write and delete each other's files
    tmp = core.SCRATCH_ROOT / 'tmp' / ('c10-%d' % os.getpid())
    tmp.mkdir(parents=True, exist_ok=True)
    import atexit
    atexit.register(shutil.rmtree, str(tmp), True)
    cases = gen_cases(tier, rnd, str(tmp))
    outs = run_cases(impl, cases, tmp)
    sessions = [gen_session(rnd, i, str(tmp)) for i in range(8 if tier == 'quick' else 64)]
    s_cases, s_outs, s_errors = run_sessions(impl, sessions, tmp)
    cases, outs = cases + s_cases, outs + s_outs
    res.infra_errors += s_errors
    # live sessions: a real profiler (registrations, also repeated after runs) reports through print_stats() and
    # dump_stats()+load_stats(); both must agree, character by character, with show_text() on the same snapshot -
    # the function the model is tied to (harness/drivers/c10live.py)
    live = core.run_impl(impl, 'harness.drivers.c10live', dict(tmp=str(tmp), seed=seed * 7919 + 13,
                                                                sessions=12 if tier == 'quick' else 300), timeout=900)['sessions']
    live_fails = []
    for k, sl in enumerate(live):
        if not sl['ok']:
            f0 = sl['fails'][0]
            live_fails.append(dict(case=dict(live_session=k, history=sl['history'], source=sl['source'], seed=seed, tier=tier), impl=f0,
                                   why='live profiler: print_stats() / dump_stats()+load_stats() differ from show_text() on the same '
                                       'get_stats() snapshot (%s)' % (f0.get('why') or 'options stripzeros, sort, summarize, details = %r' % (f0.get('combo'),)),
                                   finding=None))

    def search(budget):
        r2 = core.rng(seed + 1, PROP)
        c2 = gen_cases('thorough' if budget == 'thorough' else 'quick', r2, str(tmp))
        o2 = run_cases(impl, c2, tmp)
        sc, so, _ = run_sessions(impl, [gen_session(r2, i, str(tmp)) for i in range(16)], tmp)
        c2, o2 = c2 + sc, o2 + so
        for f in spec_failures(c2, o2):
            if f['finding'] is None:
                f['why'] += ' (search)'
                return f
        return None
    res.search = search

    # python-side predicate on the implementation's reports
    py_fails = spec_failures(cases, outs)
    failed_py = {(json.dumps(f['case']['stats']), tuple(f['case']['combos'][0])) for f in py_fails}

    # ---- shards: model vs implementation, Coq-side predicate on the implementation ------
    model_ok = not any('build of' in f for f in res.obl['failures'])
    n_eval = sum(1 for c, o in zip(cases, outs) for p in o['parsed'] if p is not None)
    n_coq = 0
    t_sh = time.time()
    if model_ok:
        bodies, index = build_shards(cases, outs, per=7 if tier == 'quick' else 6, tier=tier)
        n_coq = sum(len(ix) for ix in index)
        shard_name = 'c10_%d' % os.getpid()     # concurrent checks in one tree must not share shard files
        shards = core.run_shards(shard_name, SHARD_HEADER, bodies, timeout=1500)
        for f in (core.COQ / 'cases').glob(shard_name + '_*.v'):
            if not any(x[0] != 'ok' for x in shards):
                f.unlink()
        for k, sres in enumerate(shards):
            if sres[0] != 'ok' or len(sres[1]) != 2:
                res.infra_errors.append('shard %d failed: %s' % (k, str(sres[1])[-600:]))
                continue
            mism, sfail = sres[1]
            for i in mism:
                ci, j = index[k][i]
                res.mismatches.append(dict(case=slim(cases[ci], cases[ci]['combos'][j]), impl=outs[ci]['texts'][j]['text'],
                                           model='render_report (show_text_py ...) or its rows differ from the observed text'))
            for i in sfail:
                ci, j = index[k][i]
                case, combo = cases[ci], cases[ci]['combos'][j]
                if (json.dumps(case['stats']), tuple(combo)) in failed_py:
                    continue
                res.spec_fails.append(dict(case=slim(case, combo), impl=dict(text=outs[ci]['texts'][j]['text']),
                                           why='Coq-side spec_ok is false (python-side predicate passed)',
                                           finding=classify_any(case, combo, outs[ci]['parsed'][j], file_info_of(case))))
    res.spec_fails += py_fails
    res.spec_fails += live_fails
    res.notes.append('live sessions (real profiler through print_stats / dump+load vs show_text on the same snapshot): %d, %d with a function registered again after it ran' % (len(live), sum(1 for x in live if x.get('registered_twice'))))
    t_sh = time.time() - t_sh
    for ci, (c, o) in enumerate(zip(cases, outs)):
        for e in o['env']:
            if e['found'] and e['sub'] is None:
                res.infra_errors.append('inspect.getblock raised %s on a generated source (case %d)' % (e.get('err'), ci))
            if e.get('kind') == 'cell' and (not e.get('is_cell') or e.get('exists')):
                res.infra_errors.append('generated IPython cell name is not recognised as a cell by the implementation (case %d)' % ci)

    # ---- evidence -------------------------------------------------------------------------
    shape_hist, mag_hist = {}, dict(hits_over_9_digits=0, hits_le_9_digits=0, time_zero=0, time_ge_1e12=0, lines=0)
    nontrivial = set()
    n_found = n_missing = n_strip_hidden = n_zero_time_fn = n_cell = 0
    for c, o in zip(cases, outs):
        for s in c['shapes']:
            shape_hist[s] = shape_hist.get(s, 0) + 1
        for (fn, start, name, tm), e in zip(c['stats'], o['env']):
            n_found += bool(e['found'] and e.get('kind') != 'cell')
            n_cell += (e.get('kind') == 'cell')
            n_missing += not e['found']
            n_strip_hidden += (sum(t[1] for t in tm) == 0)
            n_zero_time_fn += (bool(tm) and sum(t[2] for t in tm) == 0)
            for l, h, t in tm:
                mag_hist['lines'] += 1
                mag_hist['hits_over_9_digits' if h >= 10 ** 9 else 'hits_le_9_digits'] += 1
                mag_hist['time_zero'] += (t == 0)
                mag_hist['time_ge_1e12'] += (t >= 10 ** 12)
        if c['valid'] and any(tm for _, _, _, tm in c['stats']):
            for combo in c['combos']:
                if combo[3] or combo[2]:
                    nontrivial.add((json.dumps(c['stats']), c['unit'], c['output_unit'], tuple(combo)))
    sample_idx = [0, min(3, len(cases) - 1), len(cases) - 1]
    res.coverage = dict(
        evaluations=n_eval, compared_inside_coq=n_coq, distinct_nontrivial=len(nontrivial),
        rule='one evaluation = one real show_text call (one stats dict x one of the 16 option combinations), checked by the '
             'python-side predicate; compared_inside_coq of them are also compared with the model and the Coq predicate (all in '
             'the thorough tier; in the quick tier 6 of 16 per stats dict, rotating so every combination occurs); non-trivial = '
             'valid stats with at least one recorded line and details or summarize on, distinct by (stats, units, options)',
        exhaustive=True,
        exhaustive_scope='all 16 (stripzeros, sort, summarize, details) combinations for every generated stats dict',
        stats_dicts=len(cases), entry_points={e: sum(len(c['combos']) for c in cases if (c.get('entry') or c.get('report')) == e)
                                               for e in ('show_text', 'print_stats', 'viewer', 'kernprof -l -v', 'python -m line_profiler')},
        end_to_end_sessions=len(sessions), end_to_end_reports=len(s_cases),
        sessions_with_two_spellings_of_one_file=sum(1 for x in sessions if x['self_import']),
        sessions_odd_line_chars=sorted({c for x in sessions for c in x['odd_chars']}),
        names_with_percent_sign=sum(1 for c in cases for fn, _, nm, _ in c['stats'] if '%' in fn or '%' in nm),
        stream_encodings={str(e): sum(len(c['combos']) for c in cases if c.get('encoding') == e) for e in (None, 'ascii', 'latin-1')},
        rows_showing_the_encoding_placeholder=sum(1 for o in outs for p in o['parsed'] if p for b in p['blocks'] for r in b['rows'] if r[5] == FALLBACK),
        pseudo_file_names=sum(1 for c in cases for fn, _, _, _ in c['stats'] if fn.startswith('<')),
        reports_after_a_file_rewrite=16 * sum(1 for c in cases if c.get('step')),
        valid_stats=sum(c['valid'] for c in cases), malformed_stats=sum(not c['valid'] for c in cases),
        functions_found=n_found, functions_missing_file=n_missing, functions_in_ipython_cells=n_cell, functions_without_hits=n_strip_hidden,
        functions_hits_but_zero_time=n_zero_time_fn, magnitudes=mag_hist, shapes=shape_hist,
        units=sorted({c['unit'] for c in cases}), output_units=sorted({str(c['output_unit']) for c in cases}),
        shard_wall_s=round(t_sh, 1),
        samples=[dict(stats=cases[i]['stats'], unit=cases[i]['unit'], output_unit=cases[i]['output_unit'],
                      options=cases[i]['combos'][-1], report=cases[i].get('report', 'show_text'),
                      text=outs[i]['texts'][-1]['text'][:1500]) for i in sample_idx],
        hypothesis_holds_on=dict(unique_linenos_and_lines_in_code_object=sum(len(c['combos']) for c in cases if c['valid']),
                                 outside_hypothesis_model_only=sum(len(c['combos']) for c in cases if not c['valid'])),
        trusted_base_extra=[
            'hand model of show_text/show_func (Report/Layout.v) and of the float arithmetic and %d/%f/%g conversions '
            '(Report/Cells.v), tied by correspondence only: whole text compared line by line inside Coq on every run',
            'environment as input: os.path.exists + linecache.getlines + inspect.getblock deliver the source block; IPython '
            'cells are emulated by registering their source in linecache.cache exactly as IPython.core.compilerop does; '
            '(observed in the implementation process and handed to the model as `env`); that the block rows carry the text '
            'of lines start+i of the real file and contain every line of the code object is checked per run, not proved',
            'harness tokeniser of the report (column boundaries taken from the printed header), cross-checked against the '
            "model's structured rows inside Coq",
            'stats values are Python ints (what LineStats holds); float times are outside the model',
            'binary64 overflow/inf/nan and negative numbers are outside the modelled domain'])
    if not uncached_enabled():
        res.notes.append('IPython cell names without cached source are not generated until %s is listed in known_findings.json' % FINDING_UNCACHED)
    res.assumptions = ['nhits >= 1 for every recorded line (C12 invariant; nhits = 0 makes show_func raise ZeroDivisionError)',
                       'line numbers of one function are distinct (C12) and belong to the function\'s code object',
                       'times 0..1e18 ints, hits 1..1e18, timer unit in {1e-9,1e-7,1e-6,1}, output unit in {None,1e-6,1e-3,1,7e-5}',
                       'file and function names contain no newline; rich=False']
    return res


def replay(path):
    data = json.load(open(path))
    impl = core.build_impl()
    tmp = core.SCRATCH_ROOT / 'tmp' / ('c10-%d' % os.getpid())
    tmp.mkdir(parents=True, exist_ok=True)
    import atexit
    atexit.register(shutil.rmtree, str(tmp), True)
    case = data['case']
    if 'live_session' in case:
        # a live session is replayed by its seed: the driver regenerates the same sessions
        n = case['live_session'] + 1
        live = core.run_impl(impl, 'harness.drivers.c10live', dict(tmp=str(tmp), seed=case['seed'] * 7919 + 13, sessions=n), timeout=900)['sessions']
        sl = live[-1]
        print(json.dumps(dict(live_session=case['live_session'], history=sl['history'], holds=sl['ok'], fails=sl['fails']), indent=1))
        return 0 if sl['ok'] else 1
    # re-root the files under the current scratch directory
    old = case['dir']
    new = str(tmp / 'replay')
    case = json.loads(json.dumps(case).replace(json.dumps(old)[1:-1], json.dumps(new)[1:-1]))
    case.setdefault('valid', True)
    if case.get('session'):
        sc, so, errs = run_sessions(impl, [case['session']], tmp)
        pick = [(c, o) for c, o in zip(sc, so) if c['report'] == case['report']]
        fails = spec_failures([c for c, o in pick], [o for c, o in pick]) if pick else [dict(why='; '.join(errs), finding=None)]
        print(json.dumps(dict(report=case['report'], session=case['session']['script'], args=[case['session']['kernprof_args'], case['session']['viewer_args']],
                              text=pick[0][1]['texts'][0]['text'] if pick else None, holds=not fails,
                              why=[f['why'] for f in fails]), indent=1))
        return 0 if not fails else 1
    # a multi-step case: the earlier reports of its history run first, in the same driver process
    before = [dict(p, combos=case['combos'] if p.get('entry') == case.get('entry') else [[False, False, False, True]], valid=True)
              for p in case.get('history') or []]
    outs = run_cases(impl, before + [case], tmp)[len(before):]
    fails = spec_failures([case], outs)
    print(json.dumps(dict(options=case.get('options'), stats=case['stats'], earlier_reports=len(before), text=outs[0]['texts'][0]['text'],
                          holds=not fails, why=[f['why'] for f in fails], finding=[f['finding'] for f in fails]), indent=1))
    return 0 if not fails else 1
