"""C09 - auto-profiling profiles exactly what was asked for.

Theorem side: Props/C09.v over Ast/{AstLite,Select,Transform,TransformFacts,Placement}.v and
Gen/Select.v (the two matching functions regenerated from profmod_extractor.py on
every run; Ast/SelectGen.v proves them equal to the hand-written reading).

Tie: (i) generated project layouts and random program texts are put on disk, the real
ProfmodExtractor / AstTree(Module)Profiler run on them in-process, the Python trees are
converted to AstLite and compared inside Coq with the model's transform of the converted
original; the property predicates are evaluated on the implementation's own output;
(ii) end-to-end `kernprof -l -p ... script.py` subprocesses: keys of the written .lprof
against the set the property demands (computed from the layout alone)."""
import json
import os
import shutil
import time

from harness import core
from harness.drivers import c09_astconv as AC
from harness.props import c09_gen as G

PROP = 'C09'
MODULE = 'Props.C09'
THEOREMS = ['C09_whole_script', 'C09_whole_script_once_innermost', 'C09_selection_exact', 'C09_registered_names',
            'C09_registration_follows_import', 'C09_no_prefix_confusion', 'C09_parent_is_whole_component',
            'C09_translated_matching_agrees', 'C09_nonvacuous']
LEVEL = 'proof'
GEN_TARGETS = ['RelImport.v', 'Select.v']
HEADER = 'From LP Require Import Prelude.Py Ast.AstLite Ast.AuxStr Ast.Select Ast.Transform Ast.Cases.'

F_MULTI = 'C09-multi-name-import-statement'
F_WRAPPED = 'C09-wrapped-methods-of-imported-classes'
F_SUBPKG = 'C09-subpackage-init-not-selected'
F_DEADLINK = 'C09-dangling-symlink-in-selected-package'


# ---------------------------------------------------------------------------------------
# python mirror of the specification (Ast/Select.v: all_bindings, first_by_name, wanted)
def py_parent(n):
    return n.rsplit('.', 1)[0]


def py_matches(S, n):
    return n in S or py_parent(n) in S


def py_all_bindings(body):
    out = []
    for idx, s in enumerate(body):
        if s[0] == 'I':
            for n, a in s[1]:
                out.append((n, a, idx))
        elif s[0] == 'IF' and s[1] is not None and s[1] != '__future__':
            for n, a in s[2]:
                if n != '*':          # `from x import *` binds no single name
                    out.append((s[1] + '.' + n, a or n, idx))
    return out


def py_first_by_name(bs):
    seen, out = set(), []
    for b in bs:
        if b[0] not in seen:
            seen.add(b[0])
            out.append(b)
    return out


def py_wanted(S, body):
    """[(idx, registered name, real name)]"""
    return [(idx, (a or n), n) for n, a, idx in py_first_by_name(py_all_bindings(body)) if py_matches(S, n)]


def py_has_bare_relative(body):
    return any(s[0] == 'IF' and s[1] is None and s[2] for s in body)


def py_tree_spec(case, t):
    """The C09 predicates on the implementation's own in-process output.
    returns list of (why, finding) for every violated predicate."""
    fails = []
    if t.get('err') is not None or t.get('dict') is None:
        return fails   # the rewrite raised: a C08 matter (nothing was selected at all)
    S, pre, out = t['S'], t['pre'], t['out']
    want = py_wanted(S, pre)
    wset = {(i, n) for i, n, _r in want}
    dset = {(i, n) for i, n in t['dict']}
    in_order = all(ns == [n for i, n, _r in want if i == k] for k, ns in t['dict_order'])
    if wset != dset or not in_order:
        idxs = [i for i, _n, _r in want]
        survivors = {}
        for i, n, _r in want:
            survivors[i] = n
        explained = (len(idxs) != len(set(idxs))) and dset == set(survivors.items())
        fails.append(('selection not exact: demanded %s, registered %s' % ([(i, n) for i, n, _r in want], t['dict_order']),
                      F_MULTI if explained else None))
    full, imports = t['full'], case['imports']
    fo, fp = AC.funcs(out), AC.funcs(pre)
    heads_o = [(f[1], f[2], f[6], f[3], f[5]) for f in fo]
    prof = ['N', AC.PROFILER]
    if full:
        heads_p = [(f[1], f[2], f[6], f[3] if prof in f[3] else f[3] + [prof], f[5]) for f in fp]
    else:
        heads_p = [(f[1], f[2], f[6], f[3], f[5]) for f in fp]
    if heads_o != heads_p:
        fails.append(('function decorators differ from "every function once, innermost, nothing else"', None))
    if AC.erase(out) != AC.erase(pre):
        fails.append(('something other than hooks was changed', None))
    ro, rp = set(AC.regs(out)), set(AC.regs(pre)) | {n for _i, n in t['dict']}
    if (not (imports and full) and ro != rp) or ((imports and full) and not rp <= ro):
        fails.append(('names handed to registration calls %s differ from the selected ones %s' % (sorted(ro), sorted(rp)), None))
    return fails


# ---------------------------------------------------------------------------------------
# end-to-end: which functions must appear among the keys of the written stats
def reachable(case, real, drop_wrapped=False):
    """functions [(relfile, name)] reachable through a registered binding of `real`"""
    mods = case['mods']
    out = []

    def cls_methods(info, cn):
        return [(info['path'], m) for m, kind in info['classes'][cn] if not (drop_wrapped and kind != 'plain')]
    if real in mods:
        info = mods[real]
        out += [(info['path'], f) for f in info['funcs']]
        for cn in info['classes']:
            out += cls_methods(info, cn)
        return out
    par, last = real.rsplit('.', 1) if '.' in real else (None, real)
    if par in mods:
        info = mods[par]
        if last in info['funcs']:
            out.append((info['path'], last))
        elif last in info['classes']:
            out += cls_methods(info, last)
    return out


def py_e2e_spec(case, t, e):
    """returns list of (why, finding)"""
    if e.get('malformed'):
        return []       # the generated program fails under plain python too: skipped, counted in coverage
    if e['rc'] != 0 and 'ValueError: modpath=' in e['stderr'] and 'does not exist' in e['stderr'] and dead_link_hit(case):
        return [('kernprof dies with ValueError before the program runs: a dangling *.py symlink below a selected package',
                 F_DEADLINK)]
    if e['keys'] is None or e['rc'] != 0:
        return [('kernprof failed: rc=%s %s' % (e['rc'], e['stderr'][-300:]), None)]
    base_keys = {(f, n) for f, _l, n in e['keys'] if not os.path.isabs(f)}
    outside = sorted({f for f, _l, _n in e['keys'] if os.path.isabs(f)})
    S, full = case['S_h'], case['full_h']
    S_nosub = [x for x in S if x not in case.get('S_subpkgs', [])]
    body = t['pre'] if t.get('pre') is not None else t['orig']
    own = {(case.get('script_real', case['script']), f) for f in G.OWN_FUNCS} if (full and case['with_own']) else set()

    def funcs_of(reals, drop_wrapped=False):
        out = set()
        for r in reals:
            out |= set(reachable(case, r, drop_wrapped))
        return out
    want = py_wanted(S, body)
    demanded = funcs_of(r for _i, _n, r in want) | own
    # shapes of the known / repaired defects, most specific explanation first:
    #  E1 only plain methods of classes are registered (known: C09-wrapped-methods-of-imported-classes)
    #  E2 + sub-package names missing from the selection (repaired, fee45a8)
    #  E3 + one surviving binding per import statement (repaired, e92fb9a)
    want_ns = py_wanted(S_nosub, body)
    survivors = {}
    for i, _n, real in want_ns:
        survivors[i] = real
    e1 = funcs_of((r for _i, _n, r in want), drop_wrapped=True) | own
    e2 = funcs_of((r for _i, _n, r in want_ns), drop_wrapped=True) | own
    e3 = funcs_of(survivors.values(), drop_wrapped=True) | own
    if case['imports'] and full:
        upper = set(demanded)
        for n, _a, _i in py_all_bindings(body):
            upper |= set(reachable(case, n))

        def matches(x):
            return x <= base_keys <= upper
    else:
        def matches(x):
            return base_keys == x and not outside
    if matches(demanded):
        return []
    missing = demanded - base_keys
    if matches(e1):
        miss_sub, miss_multi, miss_wrapped = set(), set(), missing
    elif matches(e2):
        miss_sub = missing & (demanded - (funcs_of(r for _i, _n, r in want_ns) | own))
        miss_multi, miss_wrapped = set(), missing - miss_sub
    elif matches(e3):
        miss_sub = missing & (demanded - (funcs_of(r for _i, _n, r in want_ns) | own))
        miss_multi = (missing - miss_sub) & (funcs_of(r for _i, _n, r in want_ns) - funcs_of(survivors.values()))
        miss_wrapped = missing - miss_sub - miss_multi
    else:
        return [('profiled functions %s differ from the demanded %s (outside the project: %s)'
                 % (sorted(base_keys), sorted(demanded), outside[:3]), None)]
    fails = []
    if miss_sub:
        fails.append(('members of a sub-package __init__ of a selected package missing from the stats: %s'
                      % sorted(miss_sub), F_SUBPKG))
    if miss_multi:
        fails.append(('functions of selected imports missing from the stats (overwritten in one import statement): %s'
                      % sorted(miss_multi), F_MULTI))
    if miss_wrapped:
        fails.append(('static/class/property methods of selected imported classes missing from the stats: %s'
                      % sorted(miss_wrapped), F_WRAPPED))
    return fails


def dead_link_hit(case):
    """a dangling *.py symlink sits below a package the selection descends into"""
    dirs = {os.path.dirname(d) for d in case.get('dead_links') or []}
    sel = set(case.get('S_h') or [])
    return any(os.path.dirname(i['path']) in dirs or any(os.path.dirname(i['path']).startswith(x + '/') for x in ())
               for m, i in case['mods'].items() if i['is_pkg'] and m in sel) or \
        any(any(d.startswith(os.path.dirname(i['path']) + '/') for d in case.get('dead_links') or [])
            for m, i in case['mods'].items() if i['is_pkg'] and m in sel)


def py_sel_resolution(case, t):
    if case['kind'] != 'layout':
        return []
    if t.get('S') is None:
        if t.get('err') == 'ValueError' and dead_link_hit(case):
            return [('resolving the selection raises ValueError: a dangling *.py symlink below a selected package', F_DEADLINK)]
        if t.get('err'):
            return [('resolving the selection raised %s' % t['err'], None)]
        return []
    fails = []
    got, want = set(t['S']), set(case['S_h'])
    if got != want:
        sub = set(case.get('S_subpkgs', []))
        explained = bool(sub) and got == want - sub
        fails.append(('selection resolves to %s, the layout demands %s' % (sorted(got), sorted(want)),
                      F_SUBPKG if explained else None))
    if t.get('S_elsewhere') is not None and set(t['S_elsewhere']) != got:
        fails.append(('the selection depends on the directory kernprof is started from: %s from the script\'s directory, %s from a '
                      'directory holding unrelated plain directories of the selected names' % (sorted(got), sorted(t['S_elsewhere'])), None))
    if bool(t['full']) != bool(case['full_h']):
        fails.append(('whole-script test gives %s, the selection demands %s' % (t['full'], case['full_h']), None))
    return fails


# ---------------------------------------------------------------------------------------
def gen_cases(tier, rnd, root):
    n_lay, n_e2e, n_tree, n_mod = (96, 56, 220, 50) if tier == 'quick' else (1500, 500, 5000, 800)
    cases = []
    for k in range(n_lay):
        variant = {1: 'twins', 2: 'selected_link', 4: 'symlink', 6: 'twins', 7: 'module_path_link'}.get(k % 8)
        c = G.gen_layout_case(rnd, e2e=k < n_e2e, wrapped=(k % 3 == 0), variant=variant, dead_links=True)
        cases.append(c)
    for _k in range(3 if tier == 'quick' else 40):
        cases.append(G.gen_identical_helpers_case(rnd))
    for k in range(n_tree):
        cases.append(G.gen_tree_case(rnd, module_mode=False))
    for k in range(n_mod):
        cases.append(G.gen_tree_case(rnd, module_mode=True))
    # the canonical replays of the candidate findings are always included
    for fid in (F_MULTI, F_WRAPPED, F_SUBPKG, F_DEADLINK):
        p = core.VERIF / 'findings' / (fid + '.json')
        if p.exists():
            c = json.loads(p.read_text())['case']
            c = dict(c)
            c['canonical'] = fid
            cases.append(c)
    for k, c in enumerate(cases):
        c['base'] = os.path.join(root, 'c%d' % k)
        if '_lay' in c:
            G.finish_layout_case(rnd, c, c['base'])
    return cases


def new_root(tag):
    tmp = core.SCRATCH_ROOT / 'tmp'
    tmp.mkdir(parents=True, exist_ok=True)
    return str(tmp / ('c09_%s_%d_%d' % (tag, os.getpid(), int(time.time() * 1000) % 100000000)))


def drive(impl, cases, root, workers=12):
    """several driver processes in parallel; every case carries its own directory `base`"""
    from concurrent.futures import ThreadPoolExecutor
    os.makedirs(root, exist_ok=True)
    n = len(cases)
    nslices = max(1, min(8, n // 150))
    bounds = [(i * n // nslices, (i + 1) * n // nslices) for i in range(nslices)]

    def one(b):
        lo, hi = b
        sub = [slim(cases[k]) for k in range(lo, hi)]
        out = core.run_impl(impl, 'harness.drivers.c09', dict(cases=sub, workers=max(2, workers // nslices)), timeout=3000)
        return out['results']
    try:
        with ThreadPoolExecutor(max_workers=nslices) as ex:
            parts = list(ex.map(one, bounds))
    finally:
        shutil.rmtree(root, ignore_errors=True)
    return [r for p in parts for r in p]


def coq_strs(xs):
    return '[' + '; '.join(core.coq_str(x) for x in xs) + ']'


def err_code(name):
    return {None: 0, 'ValueError': 1, 'AssertionError': 2, 'IndexError': 3, 'TypeError': 4}.get(name, 6)


def coq_dictl(d):
    return '[' + '; '.join('(%s, %s)' % (core.coq_z(k), coq_strs(ns)) for k, ns in d) + ']'


def c09_row(case, t):
    ok = t.get('err') is None
    out = t.get('out') if ok else None
    pre = t.get('pre') if t.get('pre') is not None else t['orig']
    return '(c09_case %s %s %s %s\n %s\n %s\n %s\n %s)' % (
        core.coq_bool(bool(t.get('full'))), core.coq_bool(case['imports']),
        core.coq_opt(core.coq_str(t['modname']) if t.get('modname') else None),
        coq_strs(t.get('S') or []), AC.coq_body(t['orig']), AC.coq_body(pre),
        core.coq_opt(coq_dictl(t['dict_order']) if t.get('dict_order') is not None else None),
        core.coq_opt(AC.coq_body(out) if out is not None else None))


def shard_rows(rows, max_bytes=150000, max_rows=200):
    """split (index, text) rows into shards bounded by size"""
    shards, cur, size = [], [], 0
    for i, r in rows:
        if cur and (size + len(r) > max_bytes or len(cur) >= max_rows):
            shards.append(cur)
            cur, size = [], 0
        cur.append((i, r))
        size += len(r)
    if cur:
        shards.append(cur)
    return shards


def shard_body(rows, nflags):
    body = 'Definition rows : list (list bool) := [\n' + ';\n'.join(r for _i, r in rows) + '].\n'
    body += 'Definition flags := Eval vm_compute in rows.\n'
    for k in range(nflags):
        body += 'Eval vm_compute in (false_indices (map (fun r => nth %d r true) flags)).\n' % k
    return body


def evaluate_python(cases, results):
    """python-side spec on every case: list of (index, why, finding)"""
    fails = []
    for i, (c, r) in enumerate(zip(cases, results)):
        t = r.get('tree')
        if t is not None:
            for why, fid in py_tree_spec(c, t) + py_sel_resolution(c, t):
                fails.append((i, why, fid))
        if r.get('e2e') is not None and t is not None:
            for why, fid in py_e2e_spec(c, t, r['e2e']):
                fails.append((i, 'end-to-end: ' + why, fid))
    return fails


def slim(case):
    return {k: v for k, v in case.items() if not k.startswith('_')}


def run(tier, seed):
    rnd = core.rng(seed, PROP)
    res = core.Result(PROP)
    gen = core.regenerate(GEN_TARGETS)
    res.obl = core.check_obligations(PROP, MODULE, THEOREMS, extra_vo=['theories/Ast/Cases.vo'])
    for tgt in GEN_TARGETS:
        if gen.get(tgt):
            res.obl['failures'].append('translator refused the source (%s): %s' % (tgt, gen[tgt]))
    impl = core.build_impl()
    root = new_root('run')
    cases = gen_cases(tier, rnd, root)
    results = drive(impl, cases, root)

    def search(budget):
        rnd2 = core.rng(seed + 1, PROP)
        root2 = new_root('search')
        cs = gen_cases('thorough' if budget == 'thorough' else 'quick', rnd2, root2)
        cs = cs[:2500]
        rs = drive(impl, cs, root2)
        best = None
        for i, why, fid in evaluate_python(cs, rs):
            f = dict(case=slim(cs[i]), impl=rs[i], why=why + ' (search)', finding=fid)
            if fid is None:
                return f
            best = best or f
        return best
    res.search = search

    # ---- shards -----------------------------------------------------------------------
    model_ok = all('build of' not in f for f in res.obl['failures'])
    rows = []
    for i, (c, r) in enumerate(zip(cases, results)):
        t = r.get('tree')
        if t is None or t.get('orig') is None:
            continue
        if t.get('err') is not None:
            continue      # the implementation raised: nothing to compare; reported by the python-side spec
        try:
            rows.append((i, c09_row(c, t)))
        except ValueError as e:
            res.infra_errors.append('case %d not printable: %s' % (i, e))
    coq_sel, coq_whole = set(), set()
    if model_ok:
        shards = shard_rows(rows)
        sres = core.run_shards('c09', HEADER, [shard_body(s, 3) for s in shards])
        for k, (s, sr) in enumerate(zip(shards, sres)):
            if sr[0] != 'ok' or len(sr[1]) != 3:
                res.infra_errors.append('shard %d failed: %s' % (k, str(sr[1])[-600:]))
                continue
            mism, sel, whole = sr[1]
            for j in mism:
                i = s[j][0]
                res.mismatches.append(dict(case=slim(cases[i]), impl=results[i].get('tree'),
                                           model='Ast/Transform.v transform / select differ from the real profile() / run()'))
            coq_sel |= {s[j][0] for j in sel}
            coq_whole |= {s[j][0] for j in whole}
    # ---- python-side spec, classification ---------------------------------------------
    pyf = evaluate_python(cases, results)
    py_idx = {i for i, _w, _f in pyf}
    for i, why, fid in pyf:
        res.spec_fails.append(dict(case=slim(cases[i]), impl=results[i], why=why, finding=fid))
    for i in sorted((coq_sel | coq_whole) - py_idx):
        res.spec_fails.append(dict(case=slim(cases[i]), impl=results[i],
                                   why='Coq-side predicate false on the implementation output (selection exact: %s, whole-script: %s)'
                                       % (i in coq_sel, i in coq_whole), finding=None))
    for i in sorted(py_idx - (coq_sel | coq_whole)):
        # python found a tree-level failure Coq did not: the two readings of the spec disagree
        if any(w for j, w, _f in pyf if j == i and not w.startswith('end-to-end') and 'resolves to' not in w
               and 'whole-script test' not in w and not w.startswith('resolving the selection')) and model_ok:
            res.infra_errors.append('python and Coq spec predicates disagree on case %d' % i)
    # ---- coverage ------------------------------------------------------------------------
    trees = [(c, r['tree']) for c, r in zip(cases, results) if r.get('tree') and r['tree'].get('out') is not None]
    depths = {}
    nontrivial = set()
    n_multi = n_partial = n_full = n_imports = n_module = n_err = 0
    styles = dict(import_plain=0, import_as=0, from_plain=0, from_as=0, multi_name=0, star=0, relative=0)
    for c, t in trees:
        d = AC.depth(t['orig'])
        depths[d] = depths.get(d, 0) + 1
        want = py_wanted(t['S'], t['pre'])
        idxs = [i for i, _n, _r in want]
        if len(idxs) != len(set(idxs)):
            n_multi += 1
        elif want:
            n_partial += 1
        n_full += bool(t['full'])
        n_imports += bool(c['imports'])
        n_module += bool(c.get('module'))
        if want or t['full']:
            nontrivial.add(json.dumps([t['orig'], t['S'], t['full'], c['imports']], sort_keys=True))
        for s in AC.walk(t['orig']):
            if s[0] == 'I':
                for n, a in s[1]:
                    styles['import_as' if a else 'import_plain'] += 1
                styles['multi_name'] += len(s[1]) > 1
            elif s[0] == 'IF':
                for n, a in s[2]:
                    styles['from_as' if a else 'from_plain'] += 1
                    styles['star'] += n == '*'
                styles['multi_name'] += len(s[2]) > 1
                styles['relative'] += s[3] > 0
    n_err = sum(1 for c, r in zip(cases, results) if r.get('tree') and r['tree'].get('err'))
    e2e_n = sum(1 for r in results if r.get('e2e') is not None)
    spell = dict(dotted=0, path=0, comma=0, repeated=0)
    for c in cases:
        if c.get('cli'):
            for s in c['prof_mod']:
                spell['path' if ('/' in s or s.endswith('.py')) else 'dotted'] += 1
            joined = [a for a in c['cli'] if ',' in a]
            spell['comma'] += bool(joined)
            spell['repeated'] += sum(1 for a in c['cli'] if a in ('-p', '--prof-mod')) > 1
    samples = []
    for i in (0, len(cases) // 2, len(cases) - 1):
        t = results[i].get('tree') or {}
        samples.append(dict(script=cases[i]['files'][cases[i].get('script_real', cases[i]['script'])][:400], prof_mod=cases[i]['prof_mod'],
                            S=t.get('S'), full=t.get('full'), registered=t.get('dict'),
                            e2e_keys=(results[i].get('e2e') or {}).get('keys')))
    res.coverage = dict(
        evaluations=len(cases) + e2e_n, distinct_nontrivial=len(nontrivial),
        rule='non-trivial = the selection matches at least one top-level import or the script itself is selected; '
             'distinct by (converted tree, resolved selection, whole-script flag, --prof-imports)',
        samples=samples, in_process_tree_cases=len(trees), end_to_end_runs=e2e_n,
        layout_variants=dict(same_named_members=sum(1 for c in cases if c.get('variant') == 'twins'),
                             symlinked_spellings=sum(1 for c in cases if c.get('variant') == 'symlink'),
                             selected_package_through_renaming_symlink=sum(1 for c in cases if c.get('variant') == 'selected_link'),
                             identical_helper_modules_all_selected=sum(1 for c in cases if c.get('variant') == 'identical_helpers'),
                             module_through_symlinked_sys_path=sum(1 for c in cases if c.get('variant') == 'module_path_link'),
                             namespace_directories=sum(1 for c in cases if any(i.get('ns') for i in (c.get('mods') or {}).values())),
                             dangling_symlinks=sum(1 for c in cases if c.get('dead_links'))),
        end_to_end_malformed_skipped=sum(1 for r in results if (r.get('e2e') or {}).get('malformed')),
        tree_depth_histogram={str(k): v for k, v in sorted(depths.items())}, import_forms=styles,
        selection_spellings=spell,
        hypothesis_holds_on=dict(one_selected_name_per_statement=n_partial, several_selected_names_in_one_statement=n_multi,
                                 C09_whole_script=n_full, prof_imports=n_imports, module_mode=n_module,
                                 rewrite_raised=n_err),
        translated=['line_profiler/autoprofile/profmod_extractor.py::_ast_get_imports_from_tree, '
                    '_find_modnames_in_tree_imports -> Gen/Select.v',
                    'line_profiler/autoprofile/run_module.py::get_module_from_importfrom -> Gen/RelImport.v'],
        trusted_base_extra=[
            'py2coq translator + Prelude (Gen/Select.v, Gen/RelImport.v regenerated on every run)',
            'hand-modelled, tied by correspondence only: AstTreeProfiler._profile_ast_tree, AstProfileTransformer, '
            'ImportFromTransformer, ast.fix_missing_locations (Ast/Transform.v)',
            'the converter Python AST -> AstLite (harness/drivers/c09_astconv.py): parts the transformers never inspect are '
            'interned by ast.dump',
            'selection -> dotted names (_get_modnames_to_profile_from_prof_mod, util_static) is not modelled: its observed '
            'output is an input of the model and is compared with the layout-derived selection on every layout case',
            'run-time registration (add_imported_function_or_module, add_module) is exercised end-to-end only'])
    res.assumptions = ['the selection S handed to the matching functions is the list of whole dotted names the layout demands '
                       '(checked per layout case)',
                       'end-to-end: every function of the generated script is defined when the script runs (the generator calls all)']
    return res


def replay(path):
    data = json.load(open(path))
    impl = core.build_impl()
    c = dict(data['case'])
    root = new_root('replay')
    if not c.get('base') or os.path.exists(c['base']):
        c['base'] = os.path.join(root, 'c0')     # a recorded violation keeps its directory (absolute spellings)
    rs = drive(impl, [c], root)
    fails = evaluate_python([c], rs)
    print(json.dumps(dict(case=c, impl=rs[0], holds=not fails, fails=[[w, f] for _i, w, f in fails]), indent=1)[:6000])
    return 0 if not fails else 1
