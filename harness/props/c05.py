"""C05 - enable/disable counting is balanced and decides whether tracing is on.

Theorem side: Props/C05.v over Gen/ByCount.v (the by-count methods of LineProfiler and
ContextualProfile, LineProfiler.enable/disable and the sys.monitoring helpers,
regenerated from /repo on every run).
Tie: translation + correspondence: exhaustive and random by-count histories (bare
operations, context manager, decorated functions returning / raising / nested, wrapped
generators stepped / closed / thrown into / dropped, wrapped coroutines and async
generators suspended / resumed / closed) run on the real profilers from the main thread
and from lock-stepped worker threads, observing enable_count, sys.gettrace() and
sys.monitoring.get_tool(PROFILER_ID) after every operation and inside bodies; compared
inside Coq with the translated model and with the literal per-thread reading."""
import itertools
import json
import time
from concurrent.futures import ThreadPoolExecutor

from harness import core

PROP = 'C05'
MODULE = 'Props.C05'
THEOREMS = ['C05_generator_ops_matched', 'C05_suspended_steps_matched', 'C05_invariant', 'C05_invariant_initially', 'C05_count_fold', 'C05_count_fold_contextual',
            'C05_entries_minus_exits', 'C05_nonneg', 'C05_released_at_zero', 'C05_tracing_while_positive',
            'C05_call_restores', 'C05_matched_restores', 'C05_matched_restores_contextual',
            'C05_inside_call_positive', 'C05_threads', 'C05_threads_commute', 'C05_lineprofiler_meets_spec',
            'C05_contextual_single_thread', 'C05_contextual_per_thread_refuted', 'C05_expand_abstract',
            'C05_context_manager', 'C05_nonvacuous']
LEVEL = 'proof'
FINDING_CP = 'C05-contextualprofile-shared-count'
DRIVER = 'harness.drivers.c05'


# ---- the op language (mirrors Wrap/CountInterp.v and harness/drivers/c05.py) --------
def P(x):
    return ['p', x]


def seq(*xs):
    r = xs[-1]
    for x in reversed(xs[:-1]):
        r = ['seq', x, r]
    return r


OBS = ['obs']
A1 = {  # single-thread exhaustive alphabet
    'en': P('en'), 'dis': P('dis'), 'enter': ['ctx', 'en'], 'exit': ['ctx', 'dis'],
    'call_ret': ['call', OBS], 'call_raise': ['call', seq(OBS, ['raise'])],
    'gen_step': seq(['obj', 'gnew', 0, 1], ['obj', 'gnext', 0]), 'gen_drop': ['obj', 'gdrop', 0],
}
A3 = {  # run()/runctx()/runcall() entry points, single thread
    'en': P('en'), 'dis': P('dis'),
    'run_str': ['run', 'run', 'str', OBS], 'runctx_code_raise': ['run', 'runctx', 'code', seq(OBS, ['raise'])],
    'runctx_bad': ['run', 'runctx', 'bad', OBS], 'run_bad': ['run', 'run', 'bad', OBS],
    'runctx_empty': ['run', 'runctx', 'empty', OBS], 'runcall_raise': ['run', 'runcall', 'call', seq(OBS, ['raise'])],
}
A2 = {'en': P('en'), 'dis': P('dis'), 'call_ret': ['call', OBS]}   # per thread, two-thread exhaustive

OBJ_COQ = {'gnext': 'GNext', 'gclose': 'GClose', 'gthrow': 'GThrow', 'gdrop': 'GDrop',
           'costart': 'CoStart', 'coresume': 'CoResume', 'coclose': 'CoClose', 'cothrow': 'CoThrow',
           'codrop': 'CoDrop', 'agstart': 'AgStart', 'agresume': 'AgResume', 'agclose': 'AgClose'}


def coq_cop(c):
    k = c[0]
    if k == 'p':
        return '(CPrim %s)' % ('En' if c[1] == 'en' else 'Dis')
    if k == 'ctx':
        return '(CCtx %s)' % ('En' if c[1] == 'en' else 'Dis')
    if k == 'obs':
        return 'CObs'
    if k == 'raise':
        return 'CRaise'
    if k == 'seq':
        return '(CSeq %s %s)' % (coq_cop(c[1]), coq_cop(c[2]))
    if k == 'run':
        if c[1] != 'runcall' and c[2] == 'empty':
            return 'CRunEmpty'
        if c[1] != 'runcall' and c[2] == 'bad':
            return 'CRunBad'
        return '(CRun %s)' % coq_cop(c[3])
    if k in ('call', 'with', 'catch'):
        return '(%s %s)' % ({'call': 'CCall', 'with': 'CWith', 'catch': 'CCatch'}[k], coq_cop(c[1]))
    if k == 'obj':
        if c[1] in ('gnew', 'gnewr'):
            return '(CObj (%s %d) %d)' % ('GNew' if c[1] == 'gnew' else 'GNewR', c[3], c[2])
        return '(CObj %s %d)' % (OBJ_COQ[c[1]], c[2])
    raise ValueError(c)


def coq_hist(h):
    return core.coq_list(['(%d, %s)' % (t, coq_cop(c)) for t, c in h])


# ---- python mirror of expand / play (the python-side spec predicate) ---------------
def obj_expand(t, name, st, n):
    E, O, D = ('p', t, 'en'), ('o', t), ('p', t, 'dis')
    if name in ('gnew', 'gnewr'):
        return ([], ('fresh', n + 1)) if st is None else ([], st)
    if st is None:
        if name == 'costart':
            return [E, O], ('co',)
        if name == 'agstart':
            return [E, O], ('agmid',)
        return [], st
    if st[0] in ('fresh', 'susp'):
        if name == 'gnext':
            return [E, O, D], (None if st[1] <= 1 else ('susp', st[1] - 1))
        if name in ('gclose', 'gthrow', 'gdrop'):
            # forwarded into the wrapped generator between one enable/disable pair - unless never started
            return ([E, O, D] if st[0] == 'susp' else []), None
    elif st[0] == 'co':
        if name in ('coresume', 'coclose', 'cothrow', 'codrop'):
            return [O, D], None
    elif st[0] == 'agmid':
        if name == 'agresume':
            return [O, D], ('agyield',)
        if name == 'agclose':
            return [O, D], None
    elif st[0] == 'agyield':
        if name in ('agresume', 'agclose'):
            return [E, O, D], None
    return [], st


def expand(t, c, sl):
    k = c[0]
    if k in ('p', 'ctx'):
        return [('p', t, c[1])], False
    if k == 'obs':
        return [('o', t)], False
    if k == 'raise':
        return [], True
    if k == 'seq':
        ea, ra = expand(t, c[1], sl)
        if ra:
            return ea, True
        eb, rb = expand(t, c[2], sl)
        return ea + eb, rb
    if k == 'run':
        E, D = [('p', t, 'en')], [('p', t, 'dis')]
        if c[1] != 'runcall' and c[2] == 'empty':
            return E + D, False
        if c[1] != 'runcall' and c[2] == 'bad':
            return E + D, True
        eb, rb = expand(t, c[3], sl)
        return E + eb + D, rb
    if k in ('call', 'with'):
        eb, rb = expand(t, c[1], sl)
        return [('p', t, 'en')] + eb + [('p', t, 'dis')], rb
    if k == 'catch':
        eb, _ = expand(t, c[1], sl)
        return eb, False
    if k == 'foreign':
        return [], False
    if k == 'obj':
        e, st = obj_expand(t, c[1], sl.get(c[2]), c[3] if len(c) > 3 else 0)
        if st is None:
            sl.pop(c[2], None)
        else:
            sl[c[2]] = st
        return e, False
    raise ValueError(c)


def events(hist):
    sl = {}
    evs = []
    for t, c in hist:
        e, _ = expand(t, c, sl)
        evs += e
        evs.append(('all',))
    return evs


def play(kind, n, evs, shared):
    """shared=False: the literal per-thread reading (spec); shared=True: one counter for
    all threads (what ContextualProfile implements)."""
    cnt = [0] * n
    out = []

    def obs(t):
        c = cnt[0] if shared else cnt[t]
        if kind == 'LP':
            out.extend([c, int(c > 0), int(cnt[0] > 0)])
        else:
            out.extend([c, 0, int(any(x > 0 for x in cnt))])
    for e in evs:
        if e[0] == 'p':
            i = 0 if shared else e[1]
            cnt[i] = cnt[i] + 1 if e[2] == 'en' else max(0, cnt[i] - 1)
        elif e[0] == 'o':
            obs(e[1])
        else:
            for u in range(n):
                obs(u)
    return out


def foreign_out(case):
    """Reference for single-thread histories in which another party holds PROFILER_ID part of
    the time: an enable_by_count() / decorated call that would have to register the tool raises
    ValueError (-3 in the trace) and must leave count, trace slot and tool as they were."""
    cnt, foreign, out = 0, False, []
    lp = case['kind'] == 'LP'
    for _t, c in case['hist']:
        k = c[0]
        if k == 'foreign':
            if c[1] == 'acquire':
                if foreign or cnt > 0:
                    out.append(-3)
                else:
                    foreign = True
            else:
                foreign = False
        elif (k in ('p', 'ctx') and c[1] == 'en') or k == 'call':
            if cnt == 0 and foreign:
                out.append(-3)
            elif k == 'call':
                out.extend([cnt + 1, int(lp), 1])      # the body's observation
            else:
                cnt += 1
        else:
            cnt = max(0, cnt - 1)
        out.extend([cnt, int(lp and cnt > 0), 2 if foreign else int(cnt > 0)])
    return out


def spec_out(case):
    if case.get('tag') == 'foreign':
        return foreign_out(case)

    return play(case['kind'], case['n'], events(case['hist']), False)


def shared_out(case):
    return play(case['kind'], case['n'], events(case['hist']), True)


def py_spec(case, out):
    return out == spec_out(case)


def classify(case, out):
    """A spec failure is the known ContextualProfile finding only when the implementation's
    observations are exactly those of ONE counter shared by all threads, on a history that
    really uses more than one thread."""
    if case['kind'] == 'CP' and case['n'] > 1 and len({t for t, _ in case['hist']} | set(range(case['n']))) > 1 \
            and out == shared_out(case) and out != spec_out(case):
        return FINDING_CP
    return None


def why(case, out):
    ref = spec_out(case)
    if case.get('tag') == 'foreign':
        for i, (a, b) in enumerate(zip(out, ref)):
            if a != b:
                return ('another party holds PROFILER_ID: trace position %d is %d, reference says %d (triples enable_count, '
                        'gettrace, tool; -3 = the operation raised ValueError and must change nothing)' % (i, a, b))
        return 'trace has length %d, reference has %d' % (len(out), len(ref))
    for i, (a, b) in enumerate(zip(out, ref)):
        if a != b:
            what = ('enable_count', 'sys.gettrace() is profiler', 'PROFILER_ID tool held')[i % 3]
            return 'observation #%d: %s is %d, the per-thread reference counter says %d' % (i // 3, what, a, b)
    return 'observation trace has length %d, reference has %d' % (len(out), len(ref))


# ---- generation --------------------------------------------------------------------
def exhaustive1(kind, L):
    names = list(A1)
    for combo in itertools.product(names, repeat=L):
        yield dict(kind=kind, n=1, hist=[[0, A1[x]] for x in combo], tag='ex1', names=list(combo))


def exhaustive3(kind, L):
    names = list(A3)
    for combo in itertools.product(names, repeat=L):
        yield dict(kind=kind, n=1, hist=[[0, A3[x]] for x in combo], tag='ex3', names=list(combo))


def exhaustive2(kind, L):
    letters = [(t, x) for t in (0, 1) for x in A2]
    for combo in itertools.product(letters, repeat=L):
        yield dict(kind=kind, n=2, hist=[[t, A2[x]] for t, x in combo], tag='ex2',
                   names=['%d:%s' % (t, x) for t, x in combo])


def rand_body(rnd, depth, t, st):
    """a body for a decorated call / with-block"""
    parts = []
    for _ in range(rnd.choice([0, 1, 1, 2, 3])):
        parts.append(rand_op(rnd, depth - 1, t, st, inner=True))
    parts.append(OBS)
    if rnd.random() < 0.3:
        parts.append(['raise'])
    return seq(*parts)


def rand_op(rnd, depth, t, st, inner=False):
    r = rnd.random()
    if depth > 0 and r < 0.07:
        via = rnd.choice(['run', 'runctx', 'runcall'])
        return ['run', via, rnd.choice(['str', 'code', 'empty', 'bad']) if via != 'runcall' else 'call', rand_body(rnd, depth, t, st)]
    if depth > 0 and r < 0.30:
        return [rnd.choice(['call', 'call', 'with']), rand_body(rnd, depth, t, st)]
    if depth > 0 and r < 0.36:
        return ['catch', rand_body(rnd, depth, t, st)]
    if r < 0.56:
        w = st['bias']
        return rnd.choice([P('en'), ['ctx', 'en']]) if rnd.random() < w else rnd.choice([P('dis'), ['ctx', 'dis']])
    if r < 0.80:
        s = rnd.randrange(0, 2)
        return ['obj', rnd.choice(['gnew', 'gnewr', 'gnext', 'gnext', 'gnext', 'gclose', 'gthrow', 'gdrop']), s, rnd.randrange(0, 3)]
    # coroutine / async generator slots are private to a thread (an event loop lives in one thread)
    s = 10 + 2 * t + rnd.randrange(0, 2)
    if s % 2 == 0:
        return ['obj', rnd.choice(['costart', 'costart', 'coresume', 'coclose', 'cothrow', 'codrop']), s, 0]
    return ['obj', rnd.choice(['agstart', 'agstart', 'agresume', 'agresume', 'agclose']), s, 0]


def rand_case(rnd, kind=None):
    kind = kind or rnd.choice(['LP', 'LP', 'LP', 'CP'])
    n = rnd.choice([1, 1, 2, 2, 3])
    st = dict(bias=rnd.choice([0.35, 0.5, 0.5, 0.65]))   # 0.35: the malformed stream (surplus disables dominate)
    hist = []
    for _ in range(rnd.randrange(1, 13)):
        t = rnd.randrange(n)
        hist.append([t, rand_op(rnd, 3, t, st)])
    owners = {str(s): (s - 10) // 2 for s in range(10, 10 + 2 * n)}
    return dict(kind=kind, n=n, hist=hist, tag='rnd', owners=owners)


def foreign_case(rnd):
    ops = [P('en'), P('en'), P('dis'), ['ctx', 'en'], ['ctx', 'dis'], ['call', OBS], ['call', OBS],
           ['foreign', 'acquire'], ['foreign', 'acquire'], ['foreign', 'release']]
    return dict(kind=rnd.choice(['LP', 'LP', 'CP']), n=1, tag='foreign',
                hist=[[0, rnd.choice(ops)] for _ in range(rnd.randrange(2, 9))])


def finding_case():
    return dict(kind='CP', n=2, hist=[[0, P('en')], [1, P('dis')]], tag='finding')


def gen_cases(tier, rnd):
    cases = [finding_case(), dict(kind='LP', n=2, hist=[[0, P('en')], [1, P('dis')]], tag='finding-lp')]
    if tier == 'quick':
        l1, l1c, l2, nr = 4, 3, 4, 1200
    else:
        l1, l1c, l2, nr = 6, 5, 6, 30000
    cases += list(exhaustive1('LP', l1)) + list(exhaustive1('CP', l1c))
    cases += list(exhaustive2('LP', l2)) + list(exhaustive2('CP', min(l2, 5)))
    cases += list(exhaustive3('LP', 3 if tier == 'quick' else 5)) + list(exhaustive3('CP', 3 if tier == 'quick' else 4))
    cases += [rand_case(rnd) for _ in range(nr)]
    cases += [foreign_case(rnd) for _ in range(300 if tier == 'quick' else 5000)]
    scope = dict(single_thread_LP=l1, single_thread_CP=l1c, two_threads_LP=l2, two_threads_CP=min(l2, 5), random=nr)
    return cases, scope


def run_cases(impl, cases, per=4000):
    chunks = core.chunks(cases, per)

    def one(ch):
        payload = dict(cases=[dict(kind=c['kind'], n=c['n'], hist=c['hist'], owners=c.get('owners', {})) for c in ch])
        return core.run_impl(impl, DRIVER, payload, timeout=1500)
    with ThreadPoolExecutor(max_workers=min(core.NCPU, max(1, len(chunks)))) as ex:
        res = list(ex.map(one, chunks))
    outs, errs, clean = [], [], []
    for r in res:
        outs += r['outs']
        errs += r['errs']
        clean += r['clean']
    return outs, errs, clean


def features(case):
    evs = events(case['hist'])
    depth = {}
    maxd = 0
    surplus = False
    for e in evs:
        if e[0] == 'p':
            d = depth.get(e[1], 0)
            if e[2] == 'en':
                d += 1
            elif d == 0:
                surplus = True
            else:
                d -= 1
            depth[e[1]] = d
            maxd = max(maxd, d)
    txt = json.dumps(case['hist'])
    return dict(maxdepth=maxd, surplus=surplus, run_entry='"run"' in txt, run_noncompiling='"bad"' in txt, decorated='"call"' in txt or '"run"' in txt or '"obj"' in txt or '"with"' in txt,
                raises='"raise"' in txt, threads=len({t for t, _ in case['hist']}),
                gen='"gnext"' in txt, coro='"costart"' in txt, agen='"agstart"' in txt,
                balanced_end=all(v == 0 for v in depth.values()))


def run(tier, seed):
    rnd = core.rng(seed, PROP)
    res = core.Result(PROP)
    gen = core.regenerate(['ByCount.v'])
    res.obl = core.check_obligations(PROP, MODULE, THEOREMS)
    if gen.get('ByCount.v'):
        res.obl['failures'].append('translator refused the source: ' + gen['ByCount.v'])
    impl = core.build_impl()
    cases, scope = gen_cases(tier, rnd)
    t1 = time.time()
    outs, errs, clean = run_cases(impl, cases)
    t_impl = time.time() - t1

    def search(budget):
        r2 = core.rng(seed + 1, PROP)
        c2 = list(exhaustive3('LP', 3)) + list(exhaustive3('CP', 3)) + list(exhaustive1('LP', 4)) + list(exhaustive1('CP', 3)) + list(exhaustive2('LP', 4)) \
            + [rand_case(r2) for _ in range(6000)] + [foreign_case(r2) for _ in range(1500)]
        o2, e2, _ = run_cases(impl, c2)
        for c, o, e in zip(c2, o2, e2):
            if not py_spec(c, o) and classify(c, o) is None:
                return dict(case=c, impl=dict(out=o, err=e), why=why(c, o) + ' (search)', finding=None)
        return None
    res.search = search

    # ---- shards ------------------------------------------------------------------
    model_ok = not any('build of' in f for f in res.obl['failures'])
    flagged = set()
    t_coq = 0.0
    if model_ok:
        per = 400
        bodies = []
        idx = [j for j, c in enumerate(cases) if c['tag'] != 'foreign']   # foreign-holder cases: python reference only
        for chunk in core.chunks([(cases[j], outs[j]) for j in idx], per):
            rows = ['(case_ok %s %d%%nat %s %s)' % (c['kind'], c['n'], coq_hist(c['hist']),
                                                  core.coq_list([core.coq_z(x) for x in o])) for c, o in chunk]
            body = 'Definition rows : list (bool * bool) := [\n' + ';\n'.join(rows) + '].\n'
            body += 'Eval vm_compute in (false_indices (map fst rows)).\nEval vm_compute in (false_indices (map snd rows)).\n'
            bodies.append(body)
        t1 = time.time()
        shards = core.run_shards('c05', 'From LP Require Import Prelude.Py Wrap.Count Wrap.CountInterp.', bodies)
        t_coq = time.time() - t1
        for k, sres in enumerate(shards):
            if sres[0] != 'ok' or len(sres[1]) != 2:
                res.infra_errors.append('shard %d failed: %s' % (k, str(sres[1])[-500:]))
                continue
            mism, sfail = sres[1]
            for i in mism:
                j = idx[k * per + i]
                res.mismatches.append(dict(case=cases[j], impl=dict(out=outs[j], err=errs[j]),
                                           model='differs (Wrap/CountInterp.v model_out)'))
            for i in sfail:
                j = idx[k * per + i]
                flagged.add(j)
                res.spec_fails.append(dict(case=cases[j], impl=dict(out=outs[j], err=errs[j]),
                                           why='Coq-side spec: ' + why(cases[j], outs[j]), finding=classify(cases[j], outs[j])))
    n_py_only = 0
    for j, (c, o) in enumerate(zip(cases, outs)):
        if not py_spec(c, o) and j not in flagged:
            n_py_only += c['tag'] != 'foreign'
            res.spec_fails.append(dict(case=c, impl=dict(out=o, err=errs[j]), why=why(c, o), finding=classify(c, o)))
    if model_ok and n_py_only:
        res.infra_errors.append('python-side and Coq-side spec predicates disagree on %d case(s)' % n_py_only)
    for j, e in enumerate(errs):
        if e and not any(sf['case'] is cases[j] for sf in res.spec_fails):
            res.spec_fails.append(dict(case=cases[j], impl=dict(out=outs[j], err=e), why='operation raised: ' + e, finding=None))
    # keep the evidence small: all unknown failures, a few per known finding
    n_known = sum(1 for sf in res.spec_fails if sf['finding'])
    kept, seen = [], 0
    for sf in res.spec_fails:
        if sf['finding']:
            seen += 1
            if seen > 5 and sf['case'].get('tag') != 'finding':
                continue
        kept.append(sf)
    # report the smallest unexplained failure first
    kept.sort(key=lambda sf: (sf['finding'] is not None, len(json.dumps(sf['case']['hist']))))
    res.spec_fails = kept

    # ---- evidence ------------------------------------------------------------------
    feats = [features(c) for c in cases]
    distinct = {json.dumps([c['kind'], c['n'], c['hist']]) for c, f in zip(cases, feats)
                if f['decorated'] or f['maxdepth'] >= 2 or f['surplus']}
    hist_len = {}
    for c in cases:
        hist_len[len(c['hist'])] = hist_len.get(len(c['hist']), 0) + 1
    kinds = {}
    for c in cases:
        key = '%s/%d thread(s)/%s' % (c['kind'], c['n'], c['tag'])
        kinds[key] = kinds.get(key, 0) + 1
    pick = [0, 1, len(cases) // 3, len(cases) - 1]
    res.coverage = dict(
        evaluations=len(cases), distinct_nontrivial=len(distinct),
        rule='non-trivial = the history contains a decorated call / with-block / wrapped generator, coroutine or async '
             'generator operation, or reaches nesting depth >= 2, or contains a surplus disable; distinct by (class, threads, history)',
        exhaustive=True,
        exhaustive_scope='all histories of exactly L top-level operations (observed after every operation, so every shorter '
                         'history is covered): single thread over {%s} with L=%d (LineProfiler) / %d (ContextualProfile); run()/runctx()/runcall() '
                         'entry points over {%s} with L=3 (quick) / 5, 4 (thorough); two '
                         'threads over {%s} x {thread 0, thread 1} with L=%d / %d' % (
                             ', '.join(A1), scope['single_thread_LP'], scope['single_thread_CP'], ', '.join(A3), ', '.join(A2),
                             scope['two_threads_LP'], scope['two_threads_CP']),
        random_cases=scope['random'], case_kinds=kinds, history_length_histogram=hist_len,
        observations=sum(len(o) for o in outs) // 3,
        hypothesis_counts=dict(
            decorated_call_present=sum(f['decorated'] for f in feats), run_runctx_runcall=sum(f['run_entry'] for f in feats),
            statement_that_does_not_compile=sum(f['run_noncompiling'] for f in feats), raising_body=sum(f['raises'] for f in feats),
            surplus_disable=sum(f['surplus'] for f in feats), nesting_depth_ge_2=sum(f['maxdepth'] >= 2 for f in feats),
            nesting_depth_ge_3=sum(f['maxdepth'] >= 3 for f in feats),
            more_than_one_thread_active=sum(f['threads'] > 1 for f in feats),
            generator_steps=sum(f['gen'] for f in feats), coroutine=sum(f['coro'] for f in feats),
            async_generator=sum(f['agen'] for f in feats),
            every_thread_matched_at_end=sum(f['balanced_end'] for f in feats)),
        histories_ending_with_everything_released=sum(1 for x in clean if x), known_finding_cases=n_known,
        samples=[dict(case=cases[i], impl_observations=[outs[i][j:j + 3] for j in range(0, len(outs[i]), 3)]) for i in pick],
        timings=dict(implementation_s=round(t_impl, 1), coq_shards_s=round(t_coq, 1)),
        translated=['line_profiler/_line_profiler.pyx::LineProfiler.enable_by_count/disable_by_count/enable/disable/__enter__/__exit__, '
                    '_sys_monitoring_register/_deregister; kernprof.py::ContextualProfile.enable_by_count/disable_by_count -> Gen/ByCount.v',
                    'structural checks: enable_count is threading.local() for LineProfiler / plain attribute for ContextualProfile; '
                    'ByCountProfilerMixin.__enter__/__exit__; class bases (method resolution)'],
        trusted_base_extra=[
            'py2coq translator + Prelude',
            'environment model Wrap/CountBase.v (sys.monitoring use/free_tool_id, PyEval_SetTrace per thread, cProfile enable/disable on '
            '3.12) - validated each run by the observed sys.gettrace()/get_tool',
            'hand-modelled, tied by correspondence only: wrap_function / wrap_generator / wrap_coroutine / wrap_async_generator as '
            'enable; body; disable-in-finally blocks and the generator/coroutine object automaton (Wrap/CountInterp.v expand)',
            'lock-stepped worker threads: real schedules other than the scripted ones are not explored (the count cell is thread-local, '
            'proved schedule-independent in C05_threads_commute)'])
    res.assumptions = ['one profiler instance; nothing else claims sys.monitoring PROFILER_ID or the trace slot',
                       'a suspended coroutine / async generator step is resumed or closed by the thread that started it',
                       'histories in which another party holds PROFILER_ID (tag foreign) are checked against a python reference only, not against the Coq model',
                       'bodies of decorated callables use the profiler only through decorated calls / with-blocks (C05_call_restores); '
                       'bare operations are covered by the fold theorems']
    res.notes.append('ContextualProfile with several threads: every observation differing from the per-thread reference is '
                     'classified as %s only if it equals the single-shared-counter trace' % FINDING_CP)
    return res


def replay(path):
    data = json.load(open(path))
    impl = core.build_impl()
    c = data['case']
    outs, errs, _ = run_cases(impl, [c])
    ok = py_spec(c, outs[0]) and not errs[0]
    print(json.dumps(dict(case=c, impl_observations=[outs[0][j:j + 3] for j in range(0, len(outs[0]), 3)],
                          reference=[spec_out(c)[j:j + 3] for j in range(0, len(spec_out(c)), 3)],
                          err=errs[0], holds=ok, why=None if ok else why(c, outs[0])), indent=1))
    return 0 if ok else 1
