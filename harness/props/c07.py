"""C07 - kernprof runs a program the way python itself would.

Theorem side: Props/C07.v over Cli/EnvModel.v (hand model of kernprof.main's
set-up code and of CPython's `python f` / `python -m M` conventions).
Tie: differential subprocess runs `python -m kernprof <opts> <target> <args>`
against `python <target> <args>` in generated projects over the option lattice
(quick: pairwise covering; thorough: every combination), the observations are
compared with the model and the specification inside Coq; plus in-process runs
of kernprof.main that look at the thread state when it returns."""
import itertools
import json
import marshal
import os
import pickle
import re
import shutil
import subprocess
import time
from concurrent.futures import ThreadPoolExecutor

from harness import core

PROP = 'C07'
MODULE = 'Props.C07'
THEOREMS = ['C07_env_equal_script', 'C07_env_script_nonvacuous', 'C07_env_module_but_argv0_partial',
            'C07_env_module_nonvacuous', 'C07_argv0_module_refuted',
            'C07_path0_module_setup_elsewhere_refuted', 'C07_setup_once_first_unprofiled',
            'C07_setup_nonvacuous', 'C07_no_helper_thread_after_run', 'C07_timer_nonvacuous',
            'C07_single_timer_stops', 'C07_dump_before_rearm_would_leak', 'C07_double_creation_would_leak']
LEVEL = 'proof'

BOOLS = ['l', 'b', 'v', 'o', 'z', 'u', 'pi', 'p', 'i']
SETUPS = ['none', 'here', 'else']
TARGETS = ['rel', 'sub', 'dot', 'dotdot', 'abs', 'path_abs', 'path_rel', 'cwdfirst', 'mod', 'pkg', 'pkgmod']
ARGSETS = [[], ['a', '-b', '--x=1'], ['-v', '-l', 'x y', '-o', 'q']]
DIMS = [(b, [False, True]) for b in BOOLS] + [('setup', SETUPS), ('target', TARGETS), ('argset', [0, 1, 2])]

F_ARGV0 = 'C07-argv0-module-name'
F_PATH0 = 'C07-path0-setup-dir-module-mode'
# the next two were repaired in /repo (204c2e5, f3621b3) and are listed as 'fixed': the ids
# only label a recurrence, which core.finish reports as a VIOLATION (nothing is suppressed)
F_TIMER = 'C07-interval-timer-leak'
F_BV = 'C07-builtin-view-empty-stats-typeerror'
F_WRAPWARN = 'C07-prof-imports-wrapped-warnings'

# ---------------------------------------------------------------------------------
# the generated project
# output that depends on annotations being EVALUATED when the definitions are executed (plain python does
# that; a compilation that inherited `from __future__ import annotations` would not)
ANN_SNIPPET = r'''
import inspect, dataclasses, typing
_ann_seen = []


def _ann(tag):
    _ann_seen.append(tag)
    return int


def _conv(a: int, b: _ann('b') = 2) -> float:
    return a


@dataclasses.dataclass
class _Rec:
    x: int = 1
    y: typing.List[str] = dataclasses.field(default_factory=list)


print('ANN', sorted((k, repr(v)) for k, v in _conv.__annotations__.items()),
      inspect.signature(_conv).parameters['a'].annotation('7') + 1, _ann_seen,
      [(f.name, repr(f.type)) for f in dataclasses.fields(_Rec)], sorted(typing.get_type_hints(_conv)))
'''

OBS_SNIPPET = r'''
def _stack():
    f = sys._getframe(1); out = []
    while f is not None:
        out.append([os.path.basename(f.f_code.co_filename), f.f_code.co_name]); f = f.f_back
    return out
print('OBS ' + json.dumps(dict(argv=sys.argv, name=__name__, file=__file__, path0=sys.path[0],
                               cwd=os.getcwd(), stack=_stack(), builtin=hasattr(builtins, 'profile'))))
'''


def prog_text(sib, n, a, b, imp=None):
    imp = imp or ('import %s\nfrom %s import twice, Registry' % (sib, sib))
    return ('import sys, os, json, builtins\n%s\n\n\ndef compute(n):\n    acc = %d\n    for i in range(n):\n'
            '        if i %% 2:\n            acc += %s.val(i)\n        else:\n            acc -= twice(i) * %d\n'
            '    return acc\n\n%s\n%s\nprint("VALUE", compute(%d))\nprint("SIBFILE", os.path.basename(%s.__file__))\n'
            'print("REGISTRY builds before use", Registry.builds)\nprint("REGISTRY", Registry().lookup(2), Registry().size, Registry.builds)\n'
            % (imp, a, sib, b, OBS_SNIPPET, ANN_SNIPPET, n, sib))


def pkg_prog_text(n, a, b):
    """a module inside a package: relative imports at the top level, guarded by try/except ImportError
    with a fallback, inside an if block and lazily inside a function - `python -m` resolves all of them"""
    return ('import sys, os, json, builtins\nfrom . import helper\nfrom .helper import Registry\ntry:\n    from ._fast import twice\nexcept ImportError:\n'
            '    def twice(x):\n        return -1000\nif len(sys.argv) >= 0:\n    from . import helper as helper2\n\n\n'
            'def compute(n):\n    from .helper import val as lazy_val\n    acc = %d\n    for i in range(n):\n'
            '        if i %% 2:\n            acc += lazy_val(i) + helper2.val(i)\n        else:\n            acc -= twice(i) * %d\n'
            '    return acc\n\n%s\n%s\nprint("VALUE", compute(%d))\nprint("SIBFILE", os.path.basename(helper.__file__))\n'
            'print("REGISTRY builds before use", Registry.builds)\nprint("REGISTRY", Registry().lookup(2), Registry().size, Registry.builds)\n'
            % (a, b, OBS_SNIPPET, ANN_SNIPPET, n))


def sib_text(k):
    """the sibling module: two functions and a class with a class-level descriptor whose evaluation is
    observable (it prints and counts) - nothing may evaluate it before the program itself does"""
    return ('def val(x):\n    return x * %d + 1\n\n\ndef twice(x):\n    return 2 * x + %d\n\n\n'
            'class _Lazy:\n    def __init__(self, f):\n        self.f = f\n\n    def __get__(self, obj, owner):\n'
            '        print("building the table")\n        owner.builds += 1\n        return self.f(owner)\n\n\n'
            'class Registry:\n    builds = 0\n\n    @_Lazy\n    def table(cls):\n        return {1: "one", 2: "two"}\n\n'
            '    def lookup(self, key):\n        return self.table.get(key)\n\n    @property\n    def size(self):\n'
            '        return len(self.table)\n' % (k, k))


SETUP_TEXT = r'''import sys, os, json, builtins
def _sfun(a: int = 0) -> int:
    return 41 + 1
_lp = sys.modules.get('line_profiler')
print('SETUP ' + json.dumps(dict(argv=sys.argv, name=__name__, file=__file__, path0=sys.path[0], cwd=os.getcwd(),
      builtin=hasattr(builtins, 'profile'),
      prof_active=bool(sys.getprofile() is not None or sys.gettrace() is not None
                       or sys.monitoring.get_tool(sys.monitoring.PROFILER_ID)),
      global_installed=getattr(getattr(_lp, 'profile', None), '_profile', None) is not None, v=_sfun(),
      ann=repr(sorted(_sfun.__annotations__.items())))))
'''


def layout(rnd):
    """relative path -> text; names carry a seed-derived tag so nothing else on
    sys.path / PATH can be picked up by accident."""
    tag = '%04x' % rnd.randrange(1 << 16)
    n = dict(tag=tag, prog='prog_%s.py' % tag, prog2='prog2_%s.py' % tag, tool='ptool_%s' % tag,
             tool2='qtool_%s' % tag, tool3='rtool_%s' % tag, mod='modx_%s' % tag, pkg='pkg_%s' % tag,
             setup='mysetup_%s.py' % tag, setup2='setup2_%s.py' % tag)
    sa, sb, sc, sd = ('sib%s_%s' % (x, tag) for x in 'abcd')
    k = [rnd.randrange(2, 9) for _ in range(8)]
    # the module each target imports its helpers (functions and the Registry class) from
    n['sibs'] = dict(rel=sa, dot=sa, dotdot=sa, abs=sa, cwdfirst=sa, mod=sa, sub=sb, path_abs=sc, path_rel=sd,
                     pkg=n['pkg'] + '.helper', pkgmod=n['pkg'] + '.helper')
    files = {
        n['prog']: prog_text(sa, 5 + k[0], k[1], k[2]),
        sa + '.py': sib_text(k[3]),
        'sub/' + n['prog2']: prog_text(sb, 4 + k[4], k[5], k[6]),
        'sub/' + sb + '.py': sib_text(k[7]),
        'sub/' + n['setup2']: SETUP_TEXT,
        'bin/' + n['tool']: prog_text(sc, 6, k[0], k[3]),
        'bin/' + sc + '.py': sib_text(k[1]),
        'bin/' + n['tool3']: 'raise SystemExit("the PATH copy must not be the one that runs")\n',
        'pbin/' + n['tool2']: prog_text(sd, 7, k[2], k[4]),
        'pbin/' + sd + '.py': sib_text(k[5]),
        n['tool3']: prog_text(sa, 3, k[6], k[7]),
        n['mod'] + '.py': prog_text(sa, 8, k[3], k[5]),
        n['pkg'] + '/__init__.py': '',
        n['pkg'] + '/helper.py': sib_text(k[6]),
        n['pkg'] + '/_fast.py': sib_text(k[2]),
        n['pkg'] + '/__main__.py': pkg_prog_text(6, k[7], k[0]),
        n['pkg'] + '/tool.py': pkg_prog_text(5, k[1], k[4]),
        n['setup']: SETUP_TEXT,
        # later PATH directory with EXECUTABLE files of the same names: must never be chosen, the
        # first regular file wins whatever its permission bits (kernprof reads and execs the source)
        'xbin/' + n['tool']: 'raise SystemExit("a later PATH entry must not be the one that runs")\n',
        'xbin/' + n['tool2']: 'raise SystemExit("a later PATH entry must not be the one that runs")\n',
        'nobin/.keep': '',
        'nobin/' + n['tool'] + '/.keep': '',       # a DIRECTORY with the tool's name: not a file
    }
    return n, files


def path_entries(proj):
    return ['', os.path.join(proj, 'nobin'), os.path.join(proj, 'bin'), 'pbin', os.path.join(proj, 'xbin'), '/usr/bin', '/bin']


def target_words(n, proj, target):
    """(words after the kernprof options, reference python words, kind, prof_mod value)"""
    t = {'rel': n['prog'], 'sub': 'sub/' + n['prog2'], 'dot': './' + n['prog'], 'dotdot': 'sub/../' + n['prog'],
         'abs': os.path.join(proj, n['prog']), 'path_abs': n['tool'], 'path_rel': n['tool2'],
         'cwdfirst': n['tool3']}
    if target == 'mod':
        return ['-m', n['mod']], ['-m', n['mod']], 'module', n['mod']
    if target == 'pkg':
        return ['-m', n['pkg']], ['-m', n['pkg']], 'module', n['pkg']
    if target == 'pkgmod':
        return ['-m', n['pkg'] + '.tool'], ['-m', n['pkg'] + '.tool'], 'module', n['pkg'] + '.tool'
    s = t[target]
    return [s], [locate(proj, s, path_entries(proj))], 'script', None


def locate(cwd, name, entries):
    """what python is handed for a name: the file as named, else the first PATH
    directory holding a regular file of that name (the harness's own search)."""
    if os.path.isfile(os.path.join(cwd, name)):
        return name
    for d in entries:
        if d == '':
            continue
        c = os.path.join(d, name)
        if os.path.isfile(os.path.join(cwd, c)):
            return c
    return None


def setup_word(n, setup):
    return {'none': None, 'here': n['setup'], 'else': 'sub/' + n['setup2']}[setup]


def kern_words(n, proj, case):
    w = []
    if case['l']:
        w.append('-l')
    if case['b']:
        w.append('-b')
    if case['v']:
        w.append('-v')
    if case['o']:
        w += ['-o', 'custom_%s.out' % n['tag']]
    if case['z']:
        w.append('-z')
    if case['u']:
        w += ['-u', '1e-3']
    if case['pi']:
        w.append('--prof-imports')
    tw, pw, kind, pm = target_words(n, proj, case['target'])
    if case['p']:
        w += ['-p', pm if pm else pw[0]]
        if case['argset'] != 0:
            # also select the helper module by name: `from helper import Registry` then registers the class object
            w += ['-p', n['sibs'][case['target']]]
    if case['i']:
        w += ['-i', '1']
    s = setup_word(n, case['setup'])
    if s:
        w += ['-s', s]
    return w + tw + ARGSETS[case['argset']], pw + ARGSETS[case['argset']], kind


# ---------------------------------------------------------------------------------
# cases
def all_cases(rnd):
    """every combination of options x setup x target; the argument list is drawn per combination"""
    for vals in itertools.product(*[d[1] for d in DIMS[:-1]]):
        c = dict(zip([d[0] for d in DIMS[:-1]], vals))
        c['argset'] = rnd.randrange(len(ARGSETS))
        yield c


def pairwise(rnd, limit=60):
    """greedy pairwise covering array over DIMS"""
    names = [d[0] for d in DIMS]
    need = set()
    for (i, (a, av)), (j, (b, bv)) in itertools.combinations(list(enumerate(DIMS)), 2):
        for x in av:
            for y in bv:
                need.add((i, x, j, y))
    total = len(need)
    cases = []
    while need and len(cases) < limit:
        best, bestc = None, -1
        for _ in range(60):
            cand = [rnd.choice(d[1]) for d in DIMS]
            # seed the candidate with one uncovered pair
            (i, x, j, y) = rnd.choice(sorted(need, key=repr)[:40])
            cand[i], cand[j] = x, y
            c = sum(1 for (i2, x2, j2, y2) in need if cand[i2] == x2 and cand[j2] == y2)
            if c > bestc:
                best, bestc = cand, c
        cases.append(dict(zip(names, best)))
        need = {(i, x, j, y) for (i, x, j, y) in need if not (best[i] == x and best[j] == y)}
    return cases, total - len(need), total


# ---------------------------------------------------------------------------------
# running one case
def write_project(root, files):
    for rel, txt in files.items():
        p = os.path.join(root, rel)
        os.makedirs(os.path.dirname(p), exist_ok=True)
        with open(p, 'w') as f:
            f.write(txt)
    for rel in files:
        # the scripts that are looked up on PATH are plain 0644 source files; only the decoys are executable
        os.chmod(os.path.join(root, rel), 0o755 if rel.startswith('xbin/') else 0o644)


def sub(cmd, cwd, env, timeout=120):
    t0 = time.monotonic()
    try:
        p = subprocess.run(cmd, cwd=cwd, env=env, stdout=subprocess.PIPE, stderr=subprocess.PIPE, text=True,
                           timeout=timeout, stdin=subprocess.DEVNULL)
        return dict(rc=p.returncode, out=p.stdout, err=p.stderr, wall=time.monotonic() - t0)
    except subprocess.TimeoutExpired as e:
        return dict(rc='timeout', out=(e.stdout or b'').decode('utf8', 'replace') if isinstance(e.stdout, bytes) else (e.stdout or ''),
                    err='TIMEOUT', wall=time.monotonic() - t0)


def stats_files(path):
    """file names occurring in a stats file written by kernprof (.prof marshal / .lprof pickle)"""
    try:
        with open(path, 'rb') as f:
            data = f.read()
        try:
            d = marshal.loads(data)
            return sorted({k[0] for k in d}), None
        except Exception:  # noqa
            st = pickle.loads(data)
            return sorted({k[0] for k in st.timings}), None
    except Exception as e:  # noqa
        return [], repr(e)


def run_case(impl, base, idx, case, n, files):
    proj = os.path.realpath(os.path.join(base, 'c%05d' % idx, 'proj'))
    write_project(proj, files)
    env = core.impl_env(impl, PATH=os.pathsep.join(path_entries(proj)))
    kw, pw, kind = kern_words(n, proj, case)
    k = sub([core.PY, '-m', 'kernprof'] + kw, proj, env)
    p = sub([core.PY] + pw, proj, env)
    m = re.search(r'^Wrote profile results to (.*)$', k['out'], flags=re.M)
    sfiles, serr = ([], 'no outfile line')
    if m:
        sfiles, serr = stats_files(os.path.join(proj, m.group(1)))
    shutil.rmtree(os.path.dirname(proj), ignore_errors=True)
    return dict(case=case, proj=proj, kern_cmd=kw, py_cmd=pw, kind=kind, k=k, p=p, stats_files=sfiles, stats_err=serr,
                files=sorted(files))


# ---------------------------------------------------------------------------------
# reading the outputs
def split_out(text):
    """-> (setup lines, program lines, trailer lines)"""
    lines = text.splitlines()
    cut = next((i for i, l in enumerate(lines) if l.startswith('Wrote profile results to ')), len(lines))
    body, trailer = lines[:cut], lines[cut:]
    setup = [l for l in body if l.startswith('SETUP ')]
    prog = [l for l in body if not l.startswith('SETUP ')]
    return body, setup, prog, trailer


def obs_of(lines, tag):
    for l in lines:
        if l.startswith(tag + ' '):
            try:
                return json.loads(l[len(tag) + 1:])
            except ValueError:
                return None
    return None


def mode_of(stack):
    names = [tuple(x) for x in stack]
    if any(f == 'autoprofile.py' and c == 'run' for f, c in names):
        return 0
    ctx = any(c == 'runctx' for f, c in names)
    mod = any(c == 'run_module' for f, c in names)
    if ctx:
        return 3 if mod else 4
    return 1 if mod else 2


TIMER_TB = re.compile(r"Exception in thread Thread-\d+[^\n]*:\nTraceback \(most recent call last\):\n(?:  .*\n)+?"
                      r"RuntimeError: can't create new thread at interpreter shutdown\n")
WRAP_WARN = re.compile(r"[^\n]*line_profiler\.py:\d+: UserWarning: Adding a function with a __wrapped__ attribute\.[^\n]*\n  self\.add_function\([^\n]*\)\n")
BV_TB = re.compile(r"Traceback \(most recent call last\):\n(?:  .*\n)+?"
                   r"TypeError: Cannot create or construct a <class 'pstats\.Stats'> object from <[^\n]*ContextualProfile object[^\n]*>\n")


def norm(cwd, p):
    return os.path.normpath(os.path.join(cwd, p))


def analyse(r, n):
    """python-side property predicate: list of (aspect, finding id or None, why)"""
    case, k, p, proj = r['case'], r['k'], r['p'], r['proj']
    fails = []

    def bad(aspect, why, finding=None):
        fails.append((aspect, finding, why))
    if p['rc'] != 0 or p['err']:
        return None, 'reference python run failed: rc=%r stderr=%r' % (p['rc'], p['err'][-300:])
    pbody, _, pprog, ptrail = split_out(p['out'])
    pobs = obs_of(pprog, 'OBS')
    if pobs is None or ptrail:
        return None, 'reference python run printed no observation'
    body, setup_lines, prog, trailer = split_out(k['out'])
    kobs = obs_of(prog, 'OBS')
    is_mod = r['kind'] == 'module'
    # ---- stderr / exit status, with the two known signatures cut out
    err = k['err']
    bv_sig = case['b'] and case['v'] and not case['l']
    if case['i']:
        err2 = TIMER_TB.sub('', err)
        if err2 != err and 'kernprof.py' in err and '_run' in err:
            bad('stderr', 'Timer of the first RepeatedTimer fires at interpreter shutdown: traceback on stderr', F_TIMER)
            err = err2
    if bv_sig:
        err2 = BV_TB.sub('', err)
        if err2 != err and 'print_stats' in k['err']:
            bad('stderr', 'kernprof -b -v without -l on a program that profiles nothing: pstats TypeError traceback', F_BV)
            err = err2
            if k['rc'] == 1:
                bad('rc', 'exit status 1 after the pstats TypeError', F_BV)
    if case['l'] and case['p'] and case['pi']:
        err2 = WRAP_WARN.sub('', err)
        if err2 != err:
            bad('stderr', '--prof-imports registers the functions of every imported (standard-library) module; for those with a '
                          '__wrapped__ attribute line_profiler prints a UserWarning each (%d here)' % len(WRAP_WARN.findall(err)), F_WRAPWARN)
            err = err2
    if err.strip():
        bad('stderr', 'unexpected text on stderr: %r' % err[-400:])
    if k['rc'] != p['rc'] and not (k['rc'] == 1 and any(f[1] == F_BV for f in fails)):
        bad('rc', 'exit status %r, python gave %r' % (k['rc'], p['rc']))
    # ---- standard output: the program's, then only kernprof's closing lines / report
    strip = lambda ls: [l for l in ls if not l.startswith('OBS ')]  # noqa
    if strip(prog) != strip(pprog) or (kobs is None):
        bad('stdout', 'program output differs: %r vs python %r' % (prog[-4:], pprog[-4:]))
    outfile = None
    if not trailer:
        bad('trailer', 'no closing line')
    else:
        outfile = trailer[0][len('Wrote profile results to '):]
        rest = trailer[1:]
        if case['v']:
            first = next((l for l in rest if l.strip()), '')
            if case['l']:
                unit = '0.001' if case['u'] else '1e-06'
                ok = first == 'Timer unit: %s s' % unit
            elif case['b']:
                # -b without -l: cProfile runs only inside code that uses `profile`; the generated
                # program never does, and kernprof then prints no report at all
                ok = first == '' or bool(re.match(r'^\s+\d+ function calls', first))
            else:
                ok = bool(re.match(r'^\s+\d+ function calls', first))
            if not ok and not any(f[1] == F_BV for f in fails):
                bad('trailer', 'report does not start as expected: %r' % first)
        else:
            tool = 'line_profiler -rmt' if case['l'] else 'pstats'
            if not (len(rest) == 2 and rest[0] == 'Inspect results with:'
                    and re.match(r'^\S+ -m %s "%s"$' % (re.escape(tool), re.escape(outfile)), rest[1])):
                bad('trailer', 'closing lines %r' % rest)
    # ---- the observed tuple
    if kobs is not None:
        cwd = pobs['cwd']
        if kobs['argv'][1:] != pobs['argv'][1:]:
            bad('args', 'sys.argv[1:] %r vs %r' % (kobs['argv'][1:], pobs['argv'][1:]))
        a0k, a0p = kobs['argv'][0], pobs['argv'][0]
        typed = None if is_mod else r['kern_cmd'][len(r['kern_cmd']) - len(ARGSETS[case['argset']]) - 1]
        via_path = (not is_mod and a0k == typed and '/' not in typed and typed not in r['files']
                    and a0p == r['py_cmd'][0] and os.path.basename(a0p) == typed)
        if not (a0k == a0p or via_path):
            f = F_ARGV0 if (is_mod and a0k == r['kern_cmd'][r['kern_cmd'].index('-m') + 1]
                            and a0p == pobs['file']) else None
            bad('argv0', 'sys.argv[0] %r vs python %r' % (a0k, a0p), f)
        if kobs['name'] != pobs['name']:
            bad('name', '__name__ %r vs %r' % (kobs['name'], pobs['name']))
        if kobs['cwd'] != pobs['cwd']:
            bad('cwd', 'cwd %r vs %r' % (kobs['cwd'], pobs['cwd']))
        if norm(cwd, kobs['file']) != norm(cwd, pobs['file']):
            bad('file', '__file__ %r vs %r' % (kobs['file'], pobs['file']))
        if norm(cwd, kobs['path0']) != pobs['path0']:
            sw = setup_word(n, case['setup'])
            f = F_PATH0 if (is_mod and case['setup'] == 'else' and kobs['path0'] == os.path.dirname(sw)) else None
            bad('path0', 'sys.path[0] %r vs python %r' % (kobs['path0'], pobs['path0']), f)
    # ---- the setup file
    sw = setup_word(n, case['setup'])
    if sw is None:
        if setup_lines:
            bad('setup_once', 'setup output without -s')
    else:
        sobs = obs_of(setup_lines, 'SETUP')
        if len(setup_lines) != 1 or sobs is None:
            bad('setup_once', 'setup ran %d times' % len(setup_lines))
        else:
            if not body or body[0] != setup_lines[0]:
                bad('setup_first', 'setup output is not the first output')
            if sobs['builtin'] or sobs['prof_active'] or sobs['global_installed']:
                bad('setup_unprofiled', 'setup saw a profiler: %r' % sobs)
            if (sobs['name'] != '__main__' or sobs['file'] != sw or sobs['v'] != 42
                    or sobs.get('ann') != repr(sorted({'a': int, 'return': int}.items()))):
                bad('setup_env', 'setup namespace %r' % sobs)
            if any(os.path.basename(f) == os.path.basename(sw) for f in r['stats_files']):
                bad('setup_in_stats', 'the setup file occurs in the written statistics')
    return dict(fails=fails, kobs=kobs, pobs=pobs, sobs=obs_of(setup_lines, 'SETUP'), outfile=outfile,
                mode=mode_of(kobs['stack']) if kobs else -1), None


# ---------------------------------------------------------------------------------
# Coq encoding
def q(s):
    return core.coq_str(s)


def coq_path(s):
    if s == '':
        return 'empty_path'
    ab = s.startswith('/')
    comps = s.split('/')
    if ab:
        comps = comps[1:]
        if comps == ['']:
            comps = []
    return '(mkpath %s %s)' % (core.coq_bool(ab), core.coq_list([q(c) for c in comps]))


def coq_obs(o):
    if o is None:
        return 'None'
    return '(Some (mkobs %s %s %s %s %s %s))' % (
        coq_path(o['argv'][0]), core.coq_list([q(a) for a in o['argv'][1:]]), q(o['name']),
        coq_path(o['file']), coq_path(o['path0']), coq_path(o['cwd']))


def coq_opts(case, n, pm):
    sw = setup_word(n, case['setup'])
    return '(mkopts %s %s %s %s %s %s %s %s %s %s)' % (
        core.coq_bool(case['l']), core.coq_bool(case['b']), core.coq_bool(case['v']), core.coq_bool(case['z']),
        core.coq_bool(case['pi']), core.coq_bool(case['u']),
        core.coq_opt(q('custom_%s.out' % n['tag']) if case['o'] else None),
        core.coq_opt(coq_path(sw) if sw else None), core.coq_z(1 if case['i'] else 0),
        core.coq_list([q(pm)] if case['p'] else []))


def coq_target(r):
    kw = r['kern_cmd']
    if r['kind'] == 'module':
        name = kw[kw.index('-m') + 1]
        return '(TModule %s)' % core.coq_list([q(c) for c in name.split('.')]), name
    s = kw[len(kw) - len(ARGSETS[r['case']['argset']]) - 1]
    return '(TScript %s)' % coq_path(s), s


def shard_header(files):
    lay = core.coq_list([core.coq_list([q(c) for c in rel.split('/')]) for rel in sorted(files)])
    return ('From LP Require Import Prelude.Py Cli.EnvModel Cli.EnvProofs.\n'
            'Definition LAYOUT : list (list string) := %s.\n'
            'Definition mkw (root : list string) : world :=\n'
            '  mkworld (mkpath true root) (map (fun l => mkpath true (root ++ l)) LAYOUT)\n'
            '          [empty_path; mkpath true (root ++ ["nobin"]); mkpath true (root ++ ["bin"]); rel ["pbin"];\n'
            '           mkpath true (root ++ ["xbin"]);\n'
            '           mkpath true ["usr"; "bin"]; mkpath true ["bin"]].\n'
            'Definition fst3 (x : bool * bool * bool) := fst (fst x).\n'
            'Definition snd3 (x : bool * bool * bool) := snd (fst x).\n'
            'Definition thd3 (x : bool * bool * bool) := snd x.\n' % lay)


def coq_row(r, a, n):
    tgt, tname = coq_target(r)
    pm = tname
    root = core.coq_list([q(c) for c in r['proj'].split('/')[1:]])
    return '(case_ok (mkw %s) %s %s %s %s %s %s %s %s)' % (
        root, coq_opts(r['case'], n, pm), tgt, core.coq_list([q(x) for x in ARGSETS[r['case']['argset']]]),
        coq_obs(a['sobs']), coq_obs(a['kobs']), coq_obs(a['pobs']),
        core.coq_opt(q(a['outfile']) if a['outfile'] is not None else None), core.coq_z(a['mode']))


# ---------------------------------------------------------------------------------
# in-process runs (thread state when main returns)
INPROC = [dict(w=['-l'], sleep=0), dict(w=[], sleep=0), dict(w=['-b'], sleep=0), dict(w=['-l', '-i', '1'], sleep=0),
          dict(w=['-i', '1'], sleep=0), dict(w=['-l', '-i', '1'], sleep=1.35), dict(w=['-l', '-i', '1', '-v'], sleep=0),
          # the program ends while a periodic dump is in flight (the dump is held by the driver)
          dict(w=['-l', '-i', '1'], sleep=0, block=True), dict(w=['-i', '1', '-v'], sleep=0, block=True),
          # the program ends in an uncaught exception / sys.exit while the timer is armed: it is stopped all the same
          dict(w=['-l', '-i', '1'], sleep=0, prog='raising_prog.py'), dict(w=['-i', '1'], sleep=0, prog='exit_prog.py'),
          dict(w=['-b', '-i', '1'], sleep=0, prog='raising_prog.py'), dict(w=['-l', '-i', '1'], sleep=0, prog='exit_prog.py')]


def run_inproc(impl, base, tier):
    proj = os.path.realpath(os.path.join(base, 'inproc', 'proj'))
    files = {'quick_prog.py': 'import sys\nprint("QP", len(sys.argv))\n',
             'slow_prog.py': 'import sys, time\ntime.sleep(float(sys.argv[1]))\nprint("SP")\n',
             'held_prog.py': 'import sys\nprint("HP", sys.modules["__main__"].DUMP_STARTED.wait(20))\n',
             'raising_prog.py': 'import sys\nprint("RP")\nraise ValueError("RP")\n',
             'exit_prog.py': 'import sys\nprint("EP")\nsys.exit(3)\n'}
    write_project(proj, files)
    specs = INPROC if tier == 'thorough' else INPROC[:4] + INPROC[5:6] + INPROC[7:8] + INPROC[9:11]
    runs = []
    for s in specs:
        if s.get('prog'):
            runs.append(dict(cwd=proj, args=s['w'] + [s['prog']]))
        elif s.get('block'):
            runs.append(dict(cwd=proj, args=s['w'] + ['held_prog.py'], block=True))
        elif s['sleep']:
            runs.append(dict(cwd=proj, args=s['w'] + ['slow_prog.py', str(s['sleep'])]))
        else:
            runs.append(dict(cwd=proj, args=s['w'] + ['quick_prog.py']))
    out = core.run_impl(impl, 'harness.drivers.c07', dict(runs=runs), timeout=300)
    if not out['kernprof_file'].startswith(str(impl)):
        raise RuntimeError('kernprof was not imported from the scratch build: %r' % out['kernprof_file'])
    shutil.rmtree(os.path.dirname(proj), ignore_errors=True)
    return proj, files, specs, runs, out['runs']


def inproc_rows(proj, specs, runs, outs):
    rows = []
    root = core.coq_list([q(c) for c in proj.split('/')[1:]])
    for s, r, o in zip(specs, runs, outs):
        w = s['w']
        opts = '(mkopts %s %s %s false false false None None %s [])' % (
            core.coq_bool('-l' in w), core.coq_bool('-b' in w), core.coq_bool('-v' in w), core.coq_z(1 if '-i' in w else 0))
        script = r['args'][len(w)]
        rows.append('(timer_case_ok (mkw2 %s) %s (TScript %s) %s %s %s %s %s %s)' % (
            root, opts, coq_path(script), core.coq_list([q(x) for x in r['args'][len(w) + 1:]]),
            core.coq_z(o['created']), core.coq_z(o['stopped']), core.coq_z(o['live_nondaemon']),
            core.coq_z(o['fired'] - o['inflight']), core.coq_z(o['inflight'])))
    return rows


# ---------------------------------------------------------------------------------
def evaluate(impl, base, cases, n, files, workers):
    with ThreadPoolExecutor(max_workers=workers) as ex:
        rs = list(ex.map(lambda ic: run_case(impl, base, ic[0], ic[1], n, files), enumerate(cases)))
    return rs


def assert_scratch(impl, base):
    env = core.impl_env(impl)
    os.makedirs(base, exist_ok=True)
    p = sub([core.PY, '-c', 'import kernprof, line_profiler; print(kernprof.__file__); print(line_profiler.__file__)'], base, env)
    ls = p['out'].split()
    if len(ls) != 2 or not all(x.startswith(str(impl)) for x in ls):
        raise RuntimeError('subprocesses do not run the scratch build: %r %r' % (p['out'], p['err'][-500:]))


def case_id(c):
    return ' '.join(['-' + b for b in BOOLS if c[b]] + ['setup=' + c['setup'], 'target=' + c['target'], 'args=%d' % c['argset']])


def run(tier, seed):
    rnd = core.rng(seed, PROP)
    res = core.Result(PROP)
    res.obl = core.check_obligations(PROP, MODULE, THEOREMS)
    impl = core.build_impl()
    base = str(core.SCRATCH_ROOT / 'tmp' / ('c07_%d_%d' % (os.getpid(), seed)))
    shutil.rmtree(base, ignore_errors=True)
    os.makedirs(base)
    try:
        assert_scratch(impl, base)
        n, files = layout(rnd)
        if tier == 'thorough':
            cases = list(all_cases(rnd))
            pairs_cov = pairs_tot = None
        else:
            cases, pairs_cov, pairs_tot = pairwise(rnd, 60)
        rs = evaluate(impl, base, cases, n, files, core.NCPU * 2)
        analysed, rows = [], []
        for r in rs:
            a, infra = analyse(r, n)
            if infra:
                res.infra_errors.append('%s: %s' % (case_id(r['case']), infra))
                continue
            analysed.append((r, a))
            rows.append(coq_row(r, a, n))
        iproj, ifiles, ispecs, iruns, iouts = run_inproc(impl, base, tier)
        irows = inproc_rows(iproj, ispecs, iruns, iouts)
    finally:
        shutil.rmtree(base, ignore_errors=True)

    def brief(r, a):
        return dict(options=case_id(r['case']), kern_cmd=r['kern_cmd'], python_cmd=r['py_cmd'],
                    kernprof=dict(rc=r['k']['rc'], stdout=r['k']['out'][-1500:], stderr=r['k']['err'][-1500:],
                                  wall=round(r['k']['wall'], 2)),
                    python=dict(rc=r['p']['rc'], stdout=r['p']['out'][-800:]),
                    observed=a and {k: a[k] for k in ('kobs', 'pobs', 'sobs', 'outfile', 'mode')})

    # ---- python-side predicate
    fail_idx = {}
    for i, (r, a) in enumerate(analysed):
        for aspect, fid, why in a['fails']:
            res.spec_fails.append(dict(case=dict(r['case'], seed=seed, tier=tier), impl=brief(r, a), why='%s: %s' % (aspect, why),
                                       finding=fid, aspect=aspect))
            fail_idx.setdefault(i, set()).add(aspect)
    for s, r, o in zip(ispecs, iruns, iouts):
        if o['live_nondaemon'] != 0:
            fid = F_TIMER if ('-i' in s['w'] and o['created'] == 2 and o['stopped'] == 1
                              and all(h['timer'] for h in o['helpers'])) else None
            res.spec_fails.append(dict(case=dict(inproc=s, seed=seed, tier=tier), impl=o, aspect='timer',
                                       why='timer: %d non-daemon helper thread(s) alive after kernprof.main returned and the %d dump(s) '
                                           'in flight finished (RepeatedTimer created %d, stopped %d, firings %d)'
                                           % (o['live_nondaemon'], o['inflight'], o['created'], o['stopped'], o['fired']),
                                       finding=fid))
        if s.get('block') and o['inflight'] < 1:
            res.infra_errors.append('in-process run %r: no dump was in flight when the program ended (%r)' % (s, o))
        want_exc = {'raising_prog.py': 'ValueError', 'exit_prog.py': None}.get(s.get('prog'))   # (sys.exit is absorbed by main)
        if o['exc'] != want_exc or o['alive_after_cleanup']:
            res.infra_errors.append('in-process run %r: exc=%r alive_after_cleanup=%r' % (s, o['exc'], o['alive_after_cleanup']))

    # ---- shards
    model_ok = not any('build of' in f for f in res.obl['failures'])
    if model_ok:
        per = 100
        bodies = []
        for chunk in core.chunks(rows, per):
            body = 'Definition rows : list (bool * bool * bool) := [\n' + ';\n'.join(chunk) + '].\n'
            body += ('Eval vm_compute in (false_indices (map fst3 rows)).\nEval vm_compute in (false_indices (map snd3 rows)).\n'
                     'Eval vm_compute in (false_indices (map thd3 rows)).\n')
            bodies.append(body)
        ilay = core.coq_list([core.coq_list([q(c) for c in rel.split('/')]) for rel in sorted(ifiles)])
        ibody = ('Definition mkw2 (root : list string) : world := mkworld (mkpath true root) '
                 '(map (fun l => mkpath true (root ++ l)) %s) [].\n' % ilay
                 + 'Definition trows : list (bool * bool) := [\n' + ';\n'.join(irows) + '].\n'
                 + 'Eval vm_compute in (false_indices (map fst trows)).\nEval vm_compute in (false_indices (map snd trows)).\n')
        shards = core.run_shards('c07', shard_header(files), bodies + [ibody])
        for kk, sres in enumerate(shards[:-1]):
            if sres[0] != 'ok' or len(sres[1]) != 3:
                res.infra_errors.append('shard %d failed: %s' % (kk, str(sres[1])[-600:]))
                continue
            mk, ms, sf = sres[1]
            for i in mk:
                r, a = analysed[kk * per + i]
                res.mismatches.append(dict(case=r['case'], impl=brief(r, a), model='Cli/EnvModel.kern_run predicts another observation / outfile / dispatch'))
            for i in ms:
                r, a = analysed[kk * per + i]
                res.mismatches.append(dict(case=r['case'], impl=brief(r, a), model='Cli/EnvModel python specification differs from what python itself did'))
            OBSA = {'argv0', 'args', 'name', 'cwd', 'file', 'path0'}
            coq_sf = {kk * per + i for i in sf}
            py_sf = {j for j in range(kk * per, min(len(analysed), (kk + 1) * per))
                     if (fail_idx.get(j, set()) & OBSA) or analysed[j][1]['kobs'] is None}
            for j in sorted(coq_sf - py_sf):
                r, a = analysed[j]
                res.spec_fails.append(dict(case=dict(r['case'], seed=seed, tier=tier), impl=brief(r, a), finding=None,
                                           why='Coq-side predicate obs_equiv is false on the observed tuples, python-side found nothing'))
            for j in sorted(py_sf - coq_sf):
                r, a = analysed[j]
                res.mismatches.append(dict(case=r['case'], impl=brief(r, a), model='python-side predicate fails where the Coq-side obs_equiv holds'))
        tres = shards[-1]
        if tres[0] != 'ok' or len(tres[1]) != 2:
            res.infra_errors.append('timer shard failed: %s' % str(tres[1])[-600:])
        else:
            for i in tres[1][0]:
                res.mismatches.append(dict(case=ispecs[i], impl=iouts[i], model='RepeatedTimer bookkeeping model predicts other created/stopped/live counts'))
            coq_live = set(tres[1][1])
            py_live = {i for i, o in enumerate(iouts) if o['live_nondaemon'] != 0}
            if coq_live != py_live:
                res.infra_errors.append('timer predicate disagreement coq=%r python=%r' % (sorted(coq_live), sorted(py_live)))

    def search(budget):
        rnd2 = core.rng(seed + 1, PROP)
        base2 = str(core.SCRATCH_ROOT / 'tmp' / ('c07s_%d_%d' % (os.getpid(), seed)))
        os.makedirs(base2, exist_ok=True)
        try:
            n2, files2 = layout(rnd2)
            pool = list(all_cases(rnd2))
            rnd2.shuffle(pool)
            for r in evaluate(impl, base2, pool[:600], n2, files2, core.NCPU * 2):
                a, infra = analyse(r, n2)
                if infra:
                    continue
                for aspect, fid, why in a['fails']:
                    if fid is None:
                        return dict(case=dict(r['case'], seed=seed + 1, tier='search'), impl=brief(r, a), why='%s: %s (search)' % (aspect, why), finding=None)
        finally:
            shutil.rmtree(base2, ignore_errors=True)
        return None
    res.search = search

    # ---- evidence
    hist = {d: {} for d, _ in DIMS}
    for r, a in analysed:
        for d, _ in DIMS:
            hist[d][str(r['case'][d])] = hist[d].get(str(r['case'][d]), 0) + 1
    modes = {}
    for r, a in analysed:
        modes[a['mode']] = modes.get(a['mode'], 0) + 1
    nontrivial = {case_id(r['case']) for r, a in analysed if a['kobs'] is not None}
    script_cases = sum(1 for r, a in analysed if r['kind'] == 'script')
    mod_ok_hyp = sum(1 for r, a in analysed if r['kind'] == 'module' and r['case']['setup'] != 'else')
    leak_walls = [round(r['k']['wall'], 2) for r, a in analysed if r['case']['i']]
    noleak_walls = [round(r['k']['wall'], 2) for r, a in analysed if not r['case']['i']]
    by_finding = {}
    for sf in res.spec_fails:
        by_finding[str(sf.get('finding'))] = by_finding.get(str(sf.get('finding')), 0) + 1
    res.coverage = dict(
        evaluations=len(rs) + len(iouts), subprocess_pairs=len(rs), inprocess_runs=len(iouts),
        distinct_nontrivial=len(nontrivial),
        rule='one evaluation = one `python -m kernprof <opts> <target> <args>` run plus the matching `python <target> <args>` '
             'run in a freshly generated project (program prints argv/__name__/__file__/sys.path[0]/cwd/call stack, imports a '
             'sibling module and computes with it); non-trivial = the program ran under kernprof and printed its observation; '
             'distinct by (option set, setup location, target spelling, argument list)',
        exhaustive=(tier == 'thorough'),
        lattice='2^9 boolean options (-l -b -v -o -z -u --prof-imports -p -i) x setup {none, launch dir, other dir} x '
                '11 targets (relative, sub-directory, ./, sub/../, absolute, PATH absolute dir, PATH relative dir, name also in cwd, '
                '-m module, -m package, -m package.module; package modules use relative imports at top level, in try/except ImportError, in if blocks and lazily in functions)' + (' = %d combinations, all run (argument list chosen per combination)' % len(rs) if tier == 'thorough'
                                            else '; pairwise covering subset: %s of %s value pairs covered by %d cases' % (pairs_cov, pairs_tot, len(rs))),
        dimension_histogram=hist, dispatch_modes_observed={str(k): v for k, v in sorted(modes.items())},
        hypothesis_holds_on=dict(C07_env_equal_script=script_cases, C07_env_module_but_argv0_partial=mod_ok_hyp,
                                 C07_setup_once_first_unprofiled=sum(1 for r, a in analysed if r['case']['setup'] != 'none'),
                                 C07_no_helper_thread_after_run=dict(in_process_with_i=sum(1 for s in ispecs if '-i' in s['w']),
                                                                     in_process_without_i=sum(1 for s in ispecs if '-i' not in s['w']),
                                                                     in_process_dump_in_flight_at_stop=sum(1 for o in iouts if o['inflight']),
                                                                     subprocess_with_i=sum(1 for r, a in analysed if r['case']['i']))),
        spec_fails_by_finding=by_finding,
        failing_aspects_note='spec_fails counts failing ASPECTS (argv0, path0, stderr, rc, ...), several can fail in one case',
        cases_with_a_failing_aspect=len(fail_idx) + sum(1 for o in iouts if o['live_nondaemon'] != 0),
        cases_clean=len(analysed) - len(fail_idx) + sum(1 for o in iouts if o['live_nondaemon'] == 0),
        exit_wall_seconds=dict(with_i_min=min(leak_walls) if leak_walls else None, with_i_max=max(leak_walls) if leak_walls else None,
                               without_i_max=max(noleak_walls) if noleak_walls else None,
                               note='measured, not judged: the verdict on prompt termination is the thread state observed in-process and the stderr traceback'),
        samples=[brief(r, a) for r, a in analysed[:2]] + [dict(inproc=s, observed=o) for s, o in list(zip(ispecs, iouts))[:4]],
        trusted_base_extra=[
            'hand model of kernprof.main set-up, find_script, find_module_script and RepeatedTimer (Cli/EnvModel.v), tied by '
            'correspondence only: every differential run compares kern_run with what the program printed under kernprof '
            '(observation, setup observation, outfile name, dispatch mode read from the call stack)',
            'executable specification of CPython 3.12 (`python f`: __file__ = join(cwd,f), sys.path[0] = dirname(realpath f); '
            '`python -m M`: sys.path[0] = cwd, argv[0] = module file), validated against /venv/bin/python on every case',
            'environment assumptions: no symbolic links in the project, nothing else on sys.path/PATH provides the generated names, '
            'the setup file does not chdir or edit sys.argv/sys.path',
            'module lookup agreement with importlib beyond the generated module/package is C18\'s subject'])
    res.assumptions = ['cwd is absolute and normalised (os.getcwd())', 'the script name ends in a file name',
                       'module mode: no setup file or one in the launch directory (otherwise C07_path0_module_setup_elsewhere_refuted)',
                       'sys.argv[0] for a PATH-located script is compared through kernprof\'s own lookup (python has no PATH lookup)']
    return res


def replay(path):
    data = json.load(open(path))
    c = data['case']
    impl = core.build_impl()
    seed = c.get('seed', 0)
    base = str(core.SCRATCH_ROOT / 'tmp' / ('c07r_%d' % os.getpid()))
    shutil.rmtree(base, ignore_errors=True)
    os.makedirs(base)
    try:
        if 'inproc' in c:
            proj, files, specs, runs, outs = run_inproc(impl, base, 'thorough')
            o = [o for s, o in zip(specs, outs) if s == c['inproc']][0]
            print(json.dumps(dict(case=c, impl=o, holds=o['live_nondaemon'] == 0), indent=1))
            return 0 if o['live_nondaemon'] == 0 else 1
        n, files = layout(core.rng(seed, PROP))
        case = {k: c[k] for k in [d[0] for d in DIMS]}
        r = run_case(impl, base, 0, case, n, files)
        a, infra = analyse(r, n)
        if infra:
            print('replay could not run: ' + infra)
            return 2
        want = data.get('aspect')
        fails = [f for f in a['fails'] if want is None or f[0] == want]
        print(json.dumps(dict(case=c, kern_cmd=r['kern_cmd'], python_cmd=r['py_cmd'], kernprof_stdout=r['k']['out'][-1500:],
                              kernprof_stderr=r['k']['err'][-1500:], kernprof_rc=r['k']['rc'], python_stdout=r['p']['out'][-800:],
                              failing=[dict(aspect=x[0], finding=x[1], why=x[2]) for x in fails], holds=not fails), indent=1))
        return 1 if fails else 0
    finally:
        shutil.rmtree(base, ignore_errors=True)
