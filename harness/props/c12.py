"""C12 - statistics only accumulate; snapshots are pure.  Theorems: Props/C12.v.
Tie: histories interleaving add/decorate (repeated), enable windows, calls and many snapshots; the
implementation's own snapshots must be well-formed and monotone (Coq-side and Python-side predicate)."""
from harness import core, e1common

PROP = 'C12'
MODULE = 'Props.C12'
THEOREMS = ['C12_snapshot_pure', 'C12_snapshot_is_get_stats', 'C12_hits_never_decrease',
            'C12_times_nonneg_and_monotone', 'C12_reregister_keeps_data', 'C12_wellformed', 'C12_report_hits_monotone',
            'C12_label_stays_reported', 'C12_snapshot_entry_is_label_hits']
LEVEL = 'proof'
FEATURES = [{'rereg'}, {'rereg', 'gen'}, {'rereg', 'rec'}, {'gen'}, set(), {'rereg', 'twins'},
            {'snapinside', 'snapmodes'}, {'snapinside', 'snapmodes', 'gen', 'rec'}, {'bigtime', 'snapmodes'}, {'bare', 'snapmodes'},
            {'rereg', 'snapinside', 'snapmodes'}]


def run(tier, seed):
    return e1common.run_property(PROP, MODULE, THEOREMS, tier, seed, 150, 20000, FEATURES, 'mono', ticks=(0, 1, 7), extra_cases=[e1common.FIXED_REREG])


def replay(path):
    return e1common.replay(PROP, path, 'mono')
