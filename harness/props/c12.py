"""C12 - statistics only accumulate; snapshots are pure.  Theorems: Props/C12.v.
Tie: histories interleaving add/decorate (repeated), enable windows, calls and many snapshots; the
implementation's own snapshots must be well-formed and monotone (Coq-side and Python-side predicate)."""
from harness import core, e1common

PROP = 'C12'
MODULE = 'Props.C12'
THEOREMS = ['C12_snapshot_pure', 'C12_snapshot_is_get_stats', 'C12_hits_never_decrease',
            'C12_times_nonneg_and_monotone', 'C12_reregister_keeps_data', 'C12_wellformed', 'C12_report_hits_monotone',
            'C12_label_stays_reported', 'C12_snapshot_entry_is_label_hits', 'C12_model_is_generated_core', 'C12_reading_methods_are_snapshots']
LEVEL = 'proof'
FEATURES = [{'rereg'}, {'rereg', 'gen'}, {'rereg', 'rec'}, {'gen'}, set(), {'rereg', 'twins'}]
# every reading method, also from inside running code; long lines; plain enable()/disable() windows
GLUE = [{'snapinside', 'snapmodes'}, {'snapinside', 'snapmodes', 'gen', 'rec'}, {'bigtime', 'snapmodes'}, {'bare', 'snapmodes'},
        {'rereg', 'snapinside', 'snapmodes'}]
# a function registered again whose later calls reach a line that lies BEFORE the lines recorded so far
REREG_BRANCH = e1common.fixed([('main.py', '''# re-registration, then a branch not taken before
def f(x, d):
    if x:
        y = x + 1
        A(3)
    else:
        y = 0
        A(5)
    return y
def main(P):
    P.reg('f')
    with P.prof:
        P.fn('f')(0, 0)
    P.snap()
    P.reg('f')
    with P.prof:
        P.fn('f')(1, 0)
    P.snap(1)
    P.deco('f')
    P.fn('f')(0, 0)
    P.fn('f')(1, 0)
    P.snap(2)
''')], ['fixed-rereg-branch'])


def run(tier, seed):
    res = e1common.run_property(PROP, MODULE, THEOREMS, tier, seed, 150, 20000, FEATURES, 'mono', ticks=(0, 1, 7),
                                extra_cases=[e1common.FIXED_REREG, REREG_BRANCH])
    res2 = e1common.run_property(PROP, MODULE, THEOREMS, tier, seed + 2, 60, 6000, GLUE, 'mono', ticks=(0, 1, 7))
    return e1common.merge_results(res, res2, 'glue_part')


def replay(path):
    return e1common.replay(PROP, path, 'mono')
