"""C03 - decorating a callable never changes what it does.

Theorem side: Props/C03.v over Wrap/{Protocol,GenWrap,CoroWrap,CoroWrapAwait,GenWrapFun,GenWrapRepaired}.v.
The generator wrapper model has one switch (`Definition repo_forwards` in Wrap/GenWrap.v: does the
wrapper forward throw()/close()?); the correspondence check ties that line to the code.
Tie: correspondence.  Random / exhaustive table-driven real generators, coroutines,
async generators and functions are run (a) unwrapped - validating the environment model
Wrap/Protocol.v - and (b) through the REAL wrap_* of line_profiler.LineProfiler and
kernprof.ContextualProfile; the observations are compared inside Coq with the wrapper
model (mismatch) and with the unwrapped run (spec_fail = the property).  Descriptors,
metadata, registration and profiler nesting are checked differentially on generated real
objects (harness/drivers/c03_objects.py); decorated callables under the real kernprof.main with its
interval timer (kernprof -i) by harness/drivers/c03_kern.py.  Stream `family`: function objects made by one `def`
executed repeatedly (shared code object, different defaults / attributes / names), all decorated by one profiler."""
import itertools
import json

from harness import core

PROP = 'C03'
MODULE = 'Props.C03'
THEOREMS = [
    'C03_function', 'C03_function_pure', 'C03_function_nonvacuous', 'C03_same_profiler_nested',
    'C03_two_profilers_refuted',
    'C03_coroutine', 'C03_coroutine_nonvacuous', 'C03_coroutine_hypotheses_needed',
    'C03_generator_operations', 'C03_generator_full', 'C03_generator_full_nonvacuous', 'C03_generator_residual',
    'C03_generator_former_witnesses',
    'C03_async_generator_operations', 'C03_async_generator_full',
    'C03_generator_current',
    'C03_nonforwarding_wrapper_refuted', 'C03_nonforwarding_wrapper_witnesses', 'C03_nonforwarding_wrapper_partial',
    'C03_types_coroutine_awaited', 'C03_types_coroutine_awaited_nonvacuous',
    'C03_timer_harmless', 'C03_timer_harmless_kernprof', 'C03_timer_nonvacuous',
    'C03_metadata', 'C03_metadata_names', 'C03_metadata_nonvacuous',
]
LEVEL = 'proof'

F_RET = 'C03-generator-return-value-dropped'      # fixed in /repo by 44481f3: no longer a classifier target
F_THROW = 'C03-generator-throw-close-not-forwarded'                 # fixed in /repo by 767d84e: no longer classifier targets;
F_ATHROW = 'C03-async-generator-athrow-aclose-not-forwarded'       # a regression comes out as VIOLATION (finding None)
F_NEST = 'C03-second-profiler-valueerror'

KINDS = ['gen', 'coro', 'agen']
# 'tgen': a generator function marked @types.coroutine - for inspect (and for wrap_callable's dispatch on /repo) a
# generator function, so the generator protocol applies (model: KGen); its result may ALSO be awaited (stream `await`)
PKINDS = ['gen', 'coro', 'agen', 'tgen']
COQ_KIND = {'gen': 'KGen', 'coro': 'KCoro', 'agen': 'KAsync', 'tgen': 'KGen'}
F_TCORO = 'C03-types-coroutine-not-awaitable'      # fixed in /repo by f61df74: no longer a classifier target
THROWN = [1, 2, 3, 4, 7, 9, 10, 11, 12]      # 9 KeyboardInterrupt, 10 SystemExit, 11 asyncio.CancelledError, 12 a user BaseException
BASE_ONLY = [9, 10, 11, 12]                    # BaseException subclasses that are not Exception
GE = 3


# ----------------------------------------------------------------------------
# generation
def rand_action(rnd, n, column):
    x = rnd.random()
    k = rnd.choice([0, 1, 2, 3, 5, 7, 9])
    echo = rnd.random() < 0.3
    nxt = rnd.randrange(n)
    if column == 0:
        if x < 0.68:
            return ['Y', k, echo, nxt]
        if x < 0.84:
            return ['R', rnd.choice([0, 0, 0, 4, 6, 8]), echo and rnd.random() < 0.5]
        if x < 0.95:
            return ['X', rnd.choice([1, 2, 4, 5, 7, 8])]
        return ['RR']
    if THROWN[column - 1] == GE:
        if x < 0.55:
            return ['RR']
        if x < 0.72:
            return ['R', rnd.choice([0, 0, 3]), False]
        if x < 0.88:
            return ['Y', k, False, nxt]
        return ['X', rnd.choice([1, 3, 5, 8])]
    if x < 0.42:
        return ['RR']
    if x < 0.70:
        return ['Y', k, False, nxt]
    if x < 0.85:
        return ['R', rnd.choice([0, 0, 4, 6]), False]
    return ['X', rnd.choice([1, 2, 4, 5, 7, 8])]


def rand_table(rnd, maxn=5):
    n = rnd.randint(1, maxn)
    return [[rand_action(rnd, n, c) for c in range(len(THROWN) + 1)] for _ in range(n)]


def rand_op(rnd, kind):
    x = rnd.random()
    if x < 0.36:
        return ['n']
    if x < 0.60:
        return ['s', rnd.randint(1, 3)]
    if x < 0.85:
        return ['t', rnd.choice([1, 2, 3, 9, 10, 11, 12] if kind == 'coro' else THROWN)]
    return ['c']


def rand_ops(rnd, kind, maxlen=8):
    n = rnd.randint(0, maxlen)
    ops = [rand_op(rnd, kind) for _ in range(n)]
    if ops and rnd.random() < 0.6:
        ops[0] = ['n']           # mostly start the object properly
    return ops


EXH_ALPHABET = [['n'], ['s', 2], ['t', 1], ['t', 3], ['t', 11], ['c']]


def exhaustive_ops(maxlen):
    out = []
    for n in range(maxlen + 1):
        for tup in itertools.product(EXH_ALPHABET, repeat=n):
            out.append([list(o) for o in tup])
    return out


def gen_protocol(tier, rnd):
    """list of (kind, table, ops); every triple is run unwrapped, under 'lp' and under 'cp'"""
    triples = []
    n_rand = 1500 if tier == 'quick' else 10000
    for kind in PKINDS:
        for _ in range(n_rand if kind != 'tgen' else n_rand // 5):
            triples.append((kind, rand_table(rnd), rand_ops(rnd, kind)))
    # exhaustive short op sequences over a few tables
    n_tab, maxlen = (4, 3) if tier == 'quick' else (16, 4)
    for kind in PKINDS:
        for _ in range(n_tab if kind != 'tgen' else max(1, n_tab // 4)):
            t = rand_table(rnd, 3)
            for ops in exhaustive_ops(maxlen):
                triples.append((kind, t, ops))
    return triples


def gen_await(tier, rnd):
    """(kind, table, ops) for the await path: the operations go to a native coroutine that awaits the callable's
    result - how coroutine functions and @types.coroutine generator functions are used by other coroutines"""
    triples = []
    for kind in ('tgen', 'coro'):
        for _ in range(150 if tier == 'quick' else 2500):
            triples.append((kind, rand_table(rnd), rand_ops(rnd, 'coro')))
        t = rand_table(rnd, 3)
        for ops in exhaustive_ops(3 if tier == 'quick' else 4):
            triples.append((kind, t, ops))
    return triples


# ----------------------------------------------------------------------------
# python-side spec and classifier
def erase(obs):
    return [[[z for z in step if z not in (1, 2)] for step in obs[0]], [z for z in obs[1] if z not in (1, 2)]]


def flat(o):
    """driver observation [[events, outcome]...], final -> [[events..., outcome]...], final"""
    return [[list(ev) + [out] for ev, out in o[0]], list(o[1])]


def table_honours_close(table):
    return all(len(row) <= 3 or row[3][0] != 'Y' for row in table)


def coro_hyp(table, ops):
    return table_honours_close(table) and not any(o == ['t', GE] for o in ops)


def py_spec_protocol(kind, table, ops, wobs, robs):
    """the property on the implementation's own output.  Coroutines: judged under the hypotheses of
    C03_coroutine.  Generators / async generators: the answers to the operations are always judged;
    finalisation is judged when the body honours the close contract (a body that yields while it is being
    finalised is in error - CPython reports RuntimeError to sys.unraisablehook)."""
    if kind == 'coro':
        return (not coro_hyp(table, ops)) or erase(wobs) == robs
    w = erase(wobs)
    return w[0] == robs[0] and (not table_honours_close(table) or w[1] == robs[1])


def py_spec_await(kind, table, ops, wobs, robs):
    """await path (a coroutine awaits the callable's result; both the decorated and the original callable are
    awaited the same way): judged whenever the body honours the close contract"""
    return (not table_honours_close(table)) or erase(wobs) == robs


def classify_await(kind, ops, wobs, robs):
    """no difference on the await path is a known finding (C03-types-coroutine-not-awaitable is fixed in /repo by
    f61df74: a regression comes out as VIOLATION)"""
    return None


def classify_protocol(kind, ops, wobs, robs):
    """map a wrapped-vs-unwrapped protocol difference to a known finding id.  Since /repo 44481f3 (return value)
    and 767d84e (throw/close forwarding) no protocol difference is a known finding: every one is a violation."""
    return None


def coq_action(a):
    if a[0] == 'Y':
        return 'AY %d %s %d' % (a[1], core.coq_bool(a[2]), a[3])
    if a[0] == 'R':
        return 'AR %d %s' % (a[1], core.coq_bool(a[2]))
    if a[0] == 'X':
        return 'AX %d' % a[1]
    return 'ARR'


def coq_table(t):
    return core.coq_list([core.coq_list([coq_action(a) for a in row]) for row in t])


def coq_op(o):
    if o[0] == 'n':
        return 'OpSend 0'
    if o[0] == 's':
        return 'OpSend %d' % o[1]
    if o[0] == 't':
        return 'OpThrow %d' % o[1]
    return 'OpClose'


def coq_zobs(o):
    return '(%s, %s)' % (core.coq_list([core.coq_list([str(z) for z in step]) for step in o[0]]),
                         core.coq_list([str(z) for z in o[1]]))


HEADER = ('From Coq Require Import List ZArith Bool String.\n'
          'From LP Require Import Wrap.Protocol Wrap.ProtocolTable Wrap.GenWrap Wrap.CoroWrap Wrap.GenWrapFun Wrap.ProtocolCases.\n'
          'Import ListNotations.\nOpen Scope Z_scope.\n')


def shard_body(rows):
    body = 'Definition rows : list (bool * bool) := [\n' + ';\n'.join(rows) + '].\n'
    body += 'Eval vm_compute in (false_indices (map fst rows)).\nEval vm_compute in (false_indices (map snd rows)).\n'
    return body


def pack_shards(rows, per=400, maxbytes=190000):
    """split rows into shards of <= per rows and <= maxbytes; returns (bodies, index ranges)"""
    bodies, spans, cur, size, start = [], [], [], 0, 0
    for i, r in enumerate(rows):
        if cur and (len(cur) >= per or size + len(r) > maxbytes):
            bodies.append(shard_body(cur))
            spans.append((start, i))
            cur, size, start = [], 0, i
        cur.append(r)
        size += len(r) + 2
    if cur:
        bodies.append(shard_body(cur))
        spans.append((start, len(rows)))
    return bodies, spans


# ----------------------------------------------------------------------------
def run_protocol(impl, triples, via='direct'):
    """returns list of records: kind, table, ops, ref (unwrapped obs), lp, cp (wrapped obs), how"""
    cases = []
    for j, (kind, table, ops) in enumerate(triples):
        how = 'method' if j % 3 == 2 else 'call'
        for prof in (None, 'lp', 'cp'):
            cases.append(dict(kind=kind, table=table, ops=ops, prof=prof, how=how, via=via))
    outs = []
    for chunk in core.chunks(cases, 6000):
        o = core.run_impl(impl, 'harness.drivers.c03', dict(protocol=chunk), timeout=1200)
        outs += o['protocol']
    recs = []
    for j, (kind, table, ops) in enumerate(triples):
        r, a, b = outs[3 * j], outs[3 * j + 1], outs[3 * j + 2]
        recs.append(dict(kind=kind, table=table, ops=ops, how=cases[3 * j]['how'], via=via,
                         ref=flat(r['obs']), lp=flat(a['obs']), cp=flat(b['obs']),
                         leaked=[r['leaked'], a['leaked'], b['leaked']]))
    return recs


# ----------------------------------------------------------------------------
# extra streams: nest, desc, meta, reg (harness/drivers/c03_objects.py)
LAYER_OPTS = [[h, p] for h in ('wrap', 'with') for p in range(4)]
NEST_EXC = {1: 'ValueError', 2: 'KeyError', 8: 'ZeroDivisionError', 9: 'KeyboardInterrupt'}


def gen_nest(tier, rnd):
    cases = []
    inners = [['ret', 7], ['raise', 8], ['raise', 9]]      # 9: KeyboardInterrupt, a BaseException
    maxlen = 2 if tier == 'quick' else 3
    for n in range(1, maxlen + 1):
        for tup in itertools.product(LAYER_OPTS, repeat=n):
            for inner in inners:
                cases.append(dict(layers=[list(x) for x in tup], inner=inner, kind='func'))
    for _ in range(120 if tier == 'quick' else 1500):
        n = rnd.randint(3, 4)
        cases.append(dict(layers=[list(rnd.choice(LAYER_OPTS)) for _ in range(n)],
                          inner=rnd.choice([['ret', rnd.randint(1, 9)], ['raise', rnd.choice([2, 8, 9])]]), kind='func'))
    # generator-like callables decorated by one profiler and consumed under others
    for kind in KINDS:
        for q in range(4):
            for outer in [[]] + [[o] for o in LAYER_OPTS] + ([[a, b] for a in LAYER_OPTS for b in LAYER_OPTS] if tier != 'quick' else []):
                for inner in inners:
                    cases.append(dict(layers=[list(x) for x in outer] + [['wrap', q]], inner=inner, kind=kind))
    return cases


def nest_expected(c):
    how, val = c['inner']
    k = c['kind']
    if k == 'func':
        return ['ret', val] if how == 'ret' else ['exc', NEST_EXC[val], 'call']
    if how == 'raise':
        return ['exc', NEST_EXC[val], 'run']
    return ['ret', {'gen': ['gen', [1, val], None], 'coro': ['coro', [], val], 'agen': ['agen', [1, val]]}[k]]


def py_spec_nest(c, o):
    return o['out'] == nest_expected(c) and o['free'] and o['counts'] == [0, 0, 0, 0] and o['ran'] == 1


def classify_nest(c, o):
    """signature: a second profiler instance is enabled while another one is enabled -> the call (or the first
    resumption) raises ValueError before the decorated body runs, and everything is switched off again"""
    pids = [p for _, p in c['layers']]
    if len(set(pids)) >= 2 and o['out'][:2] == ['exc', 'ValueError'] and o['ran'] == 0 \
            and o['free'] and o['counts'] == [0, 0, 0, 0]:
        return F_NEST
    return None


def nest_code(out):
    if out[0] == 'ret':
        return 1000 + out[1] if isinstance(out[1], int) else -1
    inv = {v: k for k, v in NEST_EXC.items()}
    return 4000 + inv.get(out[1], 99)


def coq_layers(ls):
    return core.coq_list(['%s %d' % ('LWrap' if h == 'wrap' else 'LWith', p) for h, p in ls])


def rand_spec(rnd, n, kind=None):
    return dict(kind=kind or rnd.choice(['func', 'func', 'func', 'gen', 'gen', 'coro', 'coro', 'agen', 'agen', 'tgen']), sig=rnd.randrange(7), tag='t%d' % n,
                name=rnd.choice(['fn', 'compute', 'wrapper', 'f_%d' % n, 'Profile']),
                doc=rnd.choice([None, 'doc %d' % n, 'Multi "quoted" line', '']),
                fail=rnd.choice([0, 0, 0, 1, 8]))


def rand_callable(rnd, depth, counter):
    counter[0] += 1
    x = rnd.random()
    if depth <= 0 or x < 0.5:
        return ['fn', rand_spec(rnd, counter[0])]
    if x < 0.86:
        args = [rnd.randint(1, 5) for _ in range(rnd.choice([0, 1, 1, 2]))]
        kw = rnd.choice([{}, {}, {'k': 3}, {'y': 8}])
        return ['partial', rand_callable(rnd, depth - 1, counter), args, kw]
    return ['bound', rand_spec(rnd, counter[0])]


def rand_desc(rnd, counter):
    t = rnd.choice(['plain', 'classmethod', 'staticmethod', 'partialmethod', 'property', 'cached_property'])
    if t in ('plain', 'classmethod', 'staticmethod'):
        return [t, rand_callable(rnd, 3, counter)]
    if t == 'partialmethod':
        args = [rnd.randint(1, 5) for _ in range(rnd.choice([0, 1, 2]))]
        return [t, rand_callable(rnd, 2, counter), args, rnd.choice([{}, {'k': 3}])]
    if t == 'property':
        parts = []
        for i in range(3):
            counter[0] += 1
            parts.append(None if rnd.random() < 0.3 else ['fn', rand_spec(rnd, counter[0], 'func')])
        return [t, parts, rnd.choice([None, 'the doc'])]
    counter[0] += 1
    return [t, ['fn', rand_spec(rnd, counter[0], 'func')]]


def gen_extra(tier, rnd):
    counter = [0]
    desc = []
    for _ in range(800 if tier == 'quick' else 10000):
        desc.append(dict(term=rand_desc(rnd, counter), prof=rnd.choice(['lp', 'cp']),
                         twice=rnd.random() < 0.25, late=rnd.random() < 0.5, sub=rnd.random() < 0.4, setattr=rnd.random() < 0.4))
    # fixed corpus: every descriptor kind x {builtin type, user subclass of it} x {decorated in the class body,
    # decorated after class creation and put back with setattr} x both profilers
    fn = lambda n, kind='func': ['fn', dict(kind=kind, sig=1, tag='c%d' % n, name='corpus%d' % n, doc='corpus doc', fail=0)]
    corpus_terms = [['plain', fn(1)], ['plain', ['partial', fn(2), [1], {'y': 8}]], ['plain', ['bound', fn(3)[1]]],
                    ['classmethod', fn(4)], ['staticmethod', fn(5)], ['staticmethod', ['partial', fn(6), [2], {}]],
                    ['partialmethod', fn(7), [1], {}], ['property', [fn(8), fn(9), fn(10)], 'the doc'],
                    ['property', [fn(11), None, None], None], ['cached_property', fn(12)],
                    ['classmethod', fn(13, 'gen')], ['staticmethod', fn(14, 'coro')]]
    for t in corpus_terms:
        for sub in (False, True):
            for sa in (False, True):
                for p in ('lp', 'cp'):
                    desc.append(dict(term=t, prof=p, twice=False, late=True, sub=sub, setattr=sa))
    meta = []
    for i in range(400 if tier == 'quick' else 4000):
        meta.append(dict(spec=rand_spec(rnd, i), prof=rnd.choice(['lp', 'cp']), twice=rnd.random() < 0.2,
                         extra=rnd.choice([None, 5, 'x'])))
    reg = []
    from harness.drivers.c03_objects import REG_SOURCES
    allreg = [dict(src=s, twins=t, again=a, via=v, enabled=e)
              for s in sorted(REG_SOURCES) for t in (0, 1, 2, 3) for a in (False, True)
              for v in ('add_function', 'add_callable', 'call') for e in (False, True)]
    reg = allreg
    defer = [dict(kind=k, prof=p) for k in PKINDS for p in ('lp', 'cp')]
    # one `def` executed several times (loop / factory) with different - or equal but distinct - default objects,
    # attributes and names; every member decorated by the SAME profiler
    allfam = [dict(kind=k, n=n, how=h, same_defaults=sd, when=w, rename=rn, reverse=rv, prof=p)
              for k in ('func', 'gen', 'coro', 'agen', 'tgen') for n in (2, 3, 5) for h in ('loop', 'factory')
              for sd in (False, True) for w in ('each', 'after') for rn in (False, True) for rv in (False, True)
              for p in ('lp', 'cp')]
    # fixed corpora (no sampling: every input class is present in every run)
    family = allfam if tier != 'quick' else [c for c in allfam if c['n'] == 3]
    # callable INSTANCES: value-equal but distinct ones (2, 2, 2.0 / 3, 3), with or without value __eq__/__hash__,
    # truthy or falsy (class defines __len__ -> 0), decorated by ONE profiler directly and inside every wrapper kind
    from harness.drivers.c03_objects import INST_WRAPS
    inst = [dict(factors=f, eqhash=e, falsy=fa, wrap=w, prof=p, order=o)
            for f in ([2, 2, 2.0], [3, 3]) for e in (False, True) for fa in (False, True) for w in INST_WRAPS
            for p in ('lp', 'cp') for o in ('each', 'after')]
    # keyword arguments named like the wrappers' own parameters / locals, for every function kind and call shape
    from harness.drivers.c03_objects import KW_NAMES
    shapes = ('plain', 'method', 'static', 'class', 'partial', 'runcall')
    kwnames = [dict(kind=k, shape=sh, names=[n], prof=p) for k in ('func', 'gen', 'coro', 'agen', 'tgen') for sh in shapes
               for n in KW_NAMES for p in ('lp', 'cp')]
    kwnames += [dict(kind='func', shape=sh, names=list(KW_NAMES), prof=p) for sh in shapes for p in ('lp', 'cp')]
    return dict(nest=gen_nest(tier, rnd), desc=desc, meta=meta, reg=reg, family=family, inst=inst, kwnames=kwnames, defer=defer)


def strip_phase(x):
    """['exc', name, 'call'|'run'] -> ['exc', name]: WHEN an argument-binding TypeError of a generator-like
    callable surfaces (at the call or at the first resumption) is measured separately (stream `defer`) and is
    not part of the verdict"""
    if isinstance(x, list):
        if len(x) == 3 and x[0] == 'exc' and x[2] in ('call', 'run'):
            return x[:2]
        return [strip_phase(y) for y in x]
    return x


def py_spec_desc(o):
    return 'driver_error' not in o and strip_phase(o['got']) == strip_phase(o['ref']) and not o['leaked']


META_KEYS = ['name', 'doc', 'sig', 'kind', 'qualname', 'module', 'extra', 'callable', 'defaults']


def py_spec_meta(o):
    return 'driver_error' not in o and all(o['got'][k] == o['orig'][k] for k in META_KEYS) and o['got']['wrapped_is_orig'] in (True, False)


def classify_meta(o):
    """no metadata difference is a known finding (C03-types-coroutine-not-awaitable fixed by f61df74)"""
    return None


# ----------------------------------------------------------------------------
# kern stream: decorated callables under the REAL kernprof.main with its interval timer (drivers/c03_kern.py)
def gen_kern(tier, rnd):
    cases = []
    pool = [['call'], ['call'], ['call'], ['tick'], ['tick'], ['raise'], ['gstart'], ['gsend'], ['gsend'], ['gclose'],
            ['costart'], ['cosend']]
    for mode in ('b', 'l', 'plain'):
        # call/tick only (these also go through the Coq model of the timer glue)
        for n in range(0, 5 if tier == 'quick' else 7):
            for bits in itertools.product((0, 1), repeat=n):
                cases.append(dict(mode=mode, steps=[['tick'] if b else ['call', (i * 3 + 1) % 10] for i, b in enumerate(bits)]))
        for _ in range(40 if tier == 'quick' else 600):
            steps = []
            for _ in range(rnd.randint(2, 9)):
                st = list(rnd.choice(pool))
                if st[0] in ('call', 'raise', 'gsend', 'cosend'):
                    st.append(rnd.randint(0, 9))
                elif st[0] == 'gstart':
                    st.append(rnd.randint(1, 4))
                steps.append(st)
            cases.append(dict(mode=mode, steps=steps))
    return cases


def py_spec_kern(c, o):
    """every step gives the same outcome on the decorated callable as on its undecorated twin; kernprof.main ends
    normally, stops its timer and leaves no profiler holding the tool id"""
    if 'driver_error' in o or o['steps'] is None:
        return False
    for st in o['steps']:
        if st[0] == 'tick':
            if st[1]:
                return False
        elif st[1] != st[2]:
            return False
    return o['main'] == 'ok' and o['timers'] == 1 and o['stopped'] and o['free'] and o['dumped']


def kern_code(out):
    if out[0] == 'ret' and isinstance(out[1], int):
        return 1000 + out[1]
    if out[0] == 'exc':
        return 4000 + {'ValueError': 1, 'KeyError': 2}.get(out[1], 99)
    return -1


def eval_kern(cases, outs, res, cov, use_coq=True):
    rows, where = [], []
    for n, (c, o) in enumerate(zip(cases, outs)):
        if 'driver_error' in o:
            res.infra_errors.append('kern driver error: ' + o['driver_error'] + o.get('tb', '')[-300:])
            continue
        if c['mode'] in ('b', 'l') and all(st[0] in ('call', 'tick') for st in c['steps']) and o['steps'] is not None:
            steps = core.coq_list(['STick' if st[0] == 'tick' else 'SCall %d' % st[1] for st in c['steps']])
            impl = core.coq_list([str(kern_code(st[2])) for st in o['steps'] if st[0] == 'call'])
            rows.append('(kcase_ok %d %s %s)' % (0 if c['mode'] == 'l' else 1, steps, impl))
            where.append(n)
    coq_fail = set()
    if use_coq and rows:
        kb, kspans = pack_shards(rows)
        for k, (sres, (lo, hi)) in enumerate(zip(core.run_shards('c03k', HEADER, kb), kspans)):
            if sres[0] != 'ok' or len(sres[1]) != 2:
                res.infra_errors.append('kern shard %d failed: %s' % (k, str(sres[1])[-600:]))
                continue
            for i in sres[1][0]:
                n = where[lo + i]
                res.mismatches.append(dict(case=dict(stream='kern', **cases[n]), impl=outs[n],
                                           model='differs: Wrap/GenWrapFun.v (run_steps / dump_cprofile / dump_line_profiler)'))
            coq_fail |= {where[lo + i] for i in sres[1][1]}
    nfail = 0
    for n, (c, o) in enumerate(zip(cases, outs)):
        if 'driver_error' in o:
            continue
        if py_spec_kern(c, o) and n not in coq_fail:
            continue
        nfail += 1
        if nfail <= 20:
            res.spec_fails.append(dict(case=dict(stream='kern', **c), impl=o,
                                       why='under kernprof with its interval timer a decorated callable answers differently from the '
                                           'undecorated one (or kernprof.main does not end cleanly)', finding=None))
    cov['kern_spec_fails'] = nfail
    cov['kern_cases_in_coq_model'] = len(rows)


def py_spec_family(o):
    """every function object made by one `def` behaves, decorated, like its own undecorated twin (own defaults,
    keyword-only defaults, attributes, name, own bound objects); the wrappers are distinct and wrap their own function"""
    return 'driver_error' not in o and strip_phase(o['got']) == strip_phase(o['ref']) and all(o['wrapped_own']) \
        and len(o['wrapped_own']) > 0 and not o['leaked']


def py_spec_kwnames(o):
    """a call passing keyword arguments named func / self / args / kwds / cmd / ... reaches the decorated callable exactly
    as it reaches the original (plain call, method, static/class method, partial, prof.runcall)"""
    return 'driver_error' not in o and o['ref'][0] != 'failed' and strip_phase(o['got']) == strip_phase(o['ref']) and not o['leaked']


def py_spec_inst(o):
    """callable instances (also equal-but-distinct ones, also falsy ones) decorated by one profiler - directly and inside
    partial / staticmethod / classmethod / bound method / partialmethod / property / cached_property - give the results
    (value AND type), exceptions and per-object side effects of the undecorated originals"""
    return 'driver_error' not in o and o['got'] == o['ref'] and not o['leaked']


def py_spec_reg(o):
    if 'driver_error' in o:
        return False
    ok = o['after'] == o['before'] and o['free'] and all(t == o['before'] for t in o['twin_after'])
    if o['enabled'] is not None:
        ok = ok and o['enabled'] == o['before']
    return ok


FKIND = {'func': 'FPlain', 'gen': 'FGenerator', 'coro': 'FCoroutine', 'agen': 'FAsyncGenerator', 'tgen': 'FGenCoroutine'}


def coq_fmeta(m, sig_ids):
    ascii_ok = lambda s: all(32 <= ord(ch) < 127 for ch in s)
    name = m['name'] if isinstance(m['name'], str) and ascii_ok(m['name']) else '?'
    doc = m['doc']
    return '{| m_name := %s%%string; m_doc := %s; m_sig := %d; m_kind := %s |}' % (
        core.coq_str(name), 'None' if doc is None else '(Some %s%%string)' % core.coq_str(doc if ascii_ok(doc) else '?'),
        sig_ids.setdefault(m['sig'], len(sig_ids)), FKIND[m['kind']])


# ----------------------------------------------------------------------------
# canonical replays of the candidate known findings (always run first)
CANON = [
    ('gen', [[['Y', 1, False, 1]] + [['RR']] * 5, [['R', 7, False]] + [['RR']] * 5], [['n'], ['n']]),                     # return value
    ('gen', [[['Y', 1, False, 1]] + [['RR']] * 5, [['R', 0, False], ['Y', 5, False, 1]] + [['RR']] * 4], [['n'], ['t', 1]]),   # throw
    ('gen', [[['Y', 1, False, 1]] + [['RR']] * 5, [['R', 0, False], ['RR'], ['RR'], ['Y', 2, False, 1], ['RR'], ['RR']]], [['n'], ['c']]),   # close
    ('agen', [[['Y', 1, False, 1]] + [['RR']] * 5, [['R', 0, False], ['Y', 5, False, 1]] + [['RR']] * 4], [['n'], ['t', 1]]),  # athrow
    ('agen', [[['Y', 1, False, 1]] + [['RR']] * 5, [['R', 0, False], ['RR'], ['RR'], ['Y', 2, False, 1], ['RR'], ['RR']]], [['n'], ['c']]),  # aclose
]
CANON += [   # a body that catches a thrown non-Exception BaseException and carries on (seed class C03-g)
    ('gen', [[['Y', 1, False, 1]], [['R', 0, False], ['RR'], ['RR'], ['RR'], ['RR'], ['RR'], ['Y', 5, False, 1], ['Y', 6, False, 1], ['Y', 7, False, 1], ['Y', 8, False, 1]]],
     [['n'], ['t', 9], ['t', 10], ['t', 11], ['t', 12], ['n']]),
    ('agen', [[['Y', 1, False, 1]], [['R', 0, False], ['RR'], ['RR'], ['RR'], ['RR'], ['RR'], ['Y', 5, False, 1], ['Y', 6, False, 1], ['Y', 7, False, 1], ['Y', 8, False, 1]]],
     [['n'], ['t', 11], ['t', 12], ['n']]),
    ('tgen', [[['Y', 1, False, 1]], [['R', 0, False], ['RR'], ['RR'], ['RR'], ['RR'], ['RR'], ['RR'], ['RR'], ['R', 4, False], ['RR']]],
     [['n'], ['t', 11]]),
]
CANON_AWAIT = [('tgen', [[['Y', 1, False, 1]] + [['RR']] * 5, [['R', 7, True]] + [['RR']] * 5], [['n'], ['s', 2]]),
               # task.cancel() on a task awaiting a @types.coroutine function that swallows CancelledError
               ('tgen', [[['Y', 1, False, 1]], [['R', 0, False], ['RR'], ['RR'], ['RR'], ['RR'], ['RR'], ['RR'], ['RR'], ['R', 4, False], ['RR']]],
                [['n'], ['t', 11]])]
CANON_NEST = [dict(layers=[['wrap', 0], ['wrap', 1]], inner=['ret', 7], kind='func'),
              dict(layers=[['with', 2], ['wrap', 0]], inner=['ret', 7], kind='func'),
              dict(layers=[['with', 0], ['wrap', 2]], inner=['ret', 7], kind='gen')]


def _hist(xs):
    h = {}
    for x in xs:
        h[str(x)] = h.get(str(x), 0) + 1
    return dict(sorted(h.items()))


def eval_protocol(recs, res, cov, use_coq=True):
    """shards for the protocol stream; fills res.mismatches / res.spec_fails.  With use_coq=False (the Coq
    development does not build) only the python-side property predicate is evaluated."""
    rows, idx = [], []
    for j, r in enumerate(recs):
        K = COQ_KIND[r['kind']]
        T = coq_table(r['table'])
        O = core.coq_list([coq_op(o) for o in r['ops']])
        for which in ('ref', 'lp', 'cp'):
            rows.append('(pcase_ok %s %s %s %s %s %s)' % (K, core.coq_bool(which != 'ref'), T, O,
                                                           coq_zobs(r[which]), coq_zobs(r['ref'])))
            idx.append((j, which))
    bodies, spans = pack_shards(rows) if use_coq else ([], [])
    shards = core.run_shards('c03p', HEADER, bodies) if use_coq else []
    mism, sfail = [], []
    for k, (sres, (lo, hi)) in enumerate(zip(shards, spans)):
        if sres[0] != 'ok' or len(sres[1]) != 2:
            res.infra_errors.append('protocol shard %d failed: %s' % (k, str(sres[1])[-600:]))
            continue
        mism += [lo + i for i in sres[1][0]]
        sfail += [lo + i for i in sres[1][1]]
    cov['protocol_shards'] = len(bodies)
    if mism and not res.infra_errors:
        # diagnostic only: does the implementation behave like the OTHER wrapper variant?
        wrapped_gen = [i for i, (j, which) in enumerate(idx) if which != 'ref' and recs[j]['kind'] in ('gen', 'agen', 'tgen')]
        if set(mism) <= set(wrapped_gen):
            rrows = []
            for i in wrapped_gen:
                j, which = idx[i]
                r = recs[j]
                rrows.append('(rcase_ok %s %s %s %s, true)' % (COQ_KIND[r['kind']], coq_table(r['table']),
                                                               core.coq_list([coq_op(o) for o in r['ops']]), coq_zobs(r[which])))
            rb, rs = pack_shards(rrows)
            rsh = core.run_shards('c03r', HEADER, rb)
            if all(s[0] == 'ok' and len(s[1]) == 2 and not s[1][0] for s in rsh):
                res.notes.append('the implementation disagrees with the wrapper model named by `repo_forwards` in Wrap/GenWrap.v '
                                 'but agrees on all %d wrapped generator / async-generator cases with the other variant: the tree '
                                 'changed sides (throw/close forwarding applied or removed) - flip that one line; '
                                 'C03_generator_current then states the theorem that applies' % len(wrapped_gen))
    for i in mism:
        j, which = idx[i]
        r = recs[j]
        res.mismatches.append(dict(case=dict(stream='protocol', kind=r['kind'], table=r['table'], ops=r['ops'],
                                             prof=None if which == 'ref' else which, how=r['how']),
                                   impl=r[which], model='differs: %s' % ('Wrap/Protocol.v (CPython environment model)' if which == 'ref'
                                                                         else 'wrapper model Wrap/GenWrap.v / CoroWrap.v')))
    coq_fail = set(sfail)
    per_finding = {}
    n_fail = 0
    for i, (j, which) in enumerate(idx):
        if which == 'ref':
            continue
        r = recs[j]
        py_ok = py_spec_protocol(r['kind'], r['table'], r['ops'], r[which], r['ref'])
        if py_ok and i not in coq_fail:
            continue
        n_fail += 1
        fid = classify_protocol(r['kind'], r['ops'], r[which], r['ref'])
        why = 'wrapped object differs from the original (Coq spec: %s, python spec: %s)' % (
            (i in coq_fail) if use_coq else 'not evaluated', not py_ok)
        if use_coq and (i in coq_fail) != (not py_ok):
            fid = None
            why = 'Coq-side and python-side property predicate disagree: ' + why
        per_finding[fid] = per_finding.get(fid, 0) + 1
        if per_finding[fid] <= (3 if fid else 50):
            res.spec_fails.append(dict(case=dict(stream='protocol', kind=r['kind'], table=r['table'], ops=r['ops'], prof=which, how=r['how']),
                                       impl=dict(wrapped=r[which], original=r['ref']), why=why, finding=fid))
    cov['protocol_spec_fails'] = n_fail
    cov['protocol_spec_fails_by_finding'] = {str(k): v for k, v in per_finding.items()}
    return idx


def eval_await(arecs, res, cov, use_coq=True):
    rows, idx = [], []
    for j, r in enumerate(arecs):
        K = COQ_KIND[r['kind']]
        T = coq_table(r['table'])
        O = core.coq_list([coq_op(o) for o in r['ops']])
        for which in ('ref', 'lp', 'cp'):
            rows.append('(acase_ok %s %s %s %s %s %s)' % (K, core.coq_bool(which != 'ref'), T, O, coq_zobs(r[which]), coq_zobs(r['ref'])))
            idx.append((j, which))
    mism, coq_fail = [], set()
    if use_coq:
        ab, aspans = pack_shards(rows)
        for k, (sres, (lo, hi)) in enumerate(zip(core.run_shards('c03a', HEADER, ab), aspans)):
            if sres[0] != 'ok' or len(sres[1]) != 2:
                res.infra_errors.append('await shard %d failed: %s' % (k, str(sres[1])[-600:]))
                continue
            mism += [lo + i for i in sres[1][0]]
            coq_fail |= {lo + i for i in sres[1][1]}
    for i in mism:
        j, which = idx[i]
        r = arecs[j]
        res.mismatches.append(dict(case=dict(stream='await', kind=r['kind'], table=r['table'], ops=r['ops'],
                                             prof=None if which == 'ref' else which, how=r['how']), impl=r[which],
                                   model='differs: await_of (Wrap/CoroWrap.v) over %s' % ('the unwrapped body' if which == 'ref' else 'the wrapper model')))
    per_a = {}
    judged = 0
    for i, (j, which) in enumerate(idx):
        r = arecs[j]
        if which == 'ref':
            judged += table_honours_close(r['table'])
            continue
        ok = py_spec_await(r['kind'], r['table'], r['ops'], r[which], r['ref']) and not any(r['leaked'])
        if ok and i not in coq_fail:
            continue
        fid = classify_await(r['kind'], r['ops'], r[which], r['ref'])
        per_a[fid] = per_a.get(fid, 0) + 1
        if per_a[fid] <= (3 if fid else 30):
            res.spec_fails.append(dict(case=dict(stream='await', kind=r['kind'], table=r['table'], ops=r['ops'], prof=which, how=r['how']),
                                       impl=dict(wrapped=r[which], original=r['ref']),
                                       why='awaiting the decorated callable differs from awaiting the original (Coq spec: %s, python spec: %s)'
                                           % ((i in coq_fail) if use_coq else 'not evaluated', not ok), finding=fid))
    cov['await_spec_fails_by_finding'] = {str(k): v for k, v in per_a.items()}
    cov['await_triples_judged_honours_close'] = judged


def eval_extra(extra, out, res, cov, use_coq=True):
    # nest: Coq rows for the function cases
    rows, where = [], []
    for n, (c, o) in enumerate(zip(extra['nest'], out['nest'])):
        if 'driver_error' in o:
            res.infra_errors.append('nest driver error: ' + o['driver_error'])
            continue
        if c['kind'] == 'func':
            how, val = c['inner']
            rows.append('(ncase_ok %s (%s %d) %s)' % (coq_layers(c['layers']), 'FRet' if how == 'ret' else 'FRaise', val,
                                                      core.coq_list([str(z) for z in [nest_code(o['out']), int(o['free'])] + o['counts'] + [o['ran']]])))
            where.append(n)
    nb, nspans = pack_shards(rows)
    # meta rows
    sig_ids = {}
    mrows = []
    for c, o in zip(extra['meta'], out['meta']):
        if 'driver_error' in o:
            res.infra_errors.append('meta driver error: ' + o['driver_error'])
            mrows.append('(false, false)')
            continue
        mrows.append('(mcase_ok %s %s)' % (coq_fmeta(o['orig'], sig_ids), coq_fmeta(o['got'], sig_ids)))
    mb, mspans = pack_shards(mrows)
    if not use_coq:
        nb, nspans, mb, mspans = [], [], [], []
    shards = core.run_shards('c03x', HEADER, nb + mb) if use_coq else []
    coq_nest_fail, coq_meta_fail = set(), set()
    for k, (sres, (lo, hi)) in enumerate(zip(shards, nspans + mspans)):
        if sres[0] != 'ok' or len(sres[1]) != 2:
            res.infra_errors.append('extra shard %d failed: %s' % (k, str(sres[1])[-600:]))
            continue
        if k < len(nb):
            for i in sres[1][0]:
                n = where[lo + i]
                res.mismatches.append(dict(case=dict(stream='nest', **extra['nest'][n]), impl=out['nest'][n],
                                           model='differs: Wrap/GenWrapFun.v (wrap_function / tool owner)'))
            coq_nest_fail |= {where[lo + i] for i in sres[1][1]}
        else:
            for i in sres[1][0]:
                res.mismatches.append(dict(case=dict(stream='meta', **extra['meta'][lo + i]), impl=out['meta'][lo + i],
                                           model='differs: wrap_meta (functools.wraps model)'))
            coq_meta_fail |= {lo + i for i in sres[1][1]}
    cov['extra_shards'] = len(nb) + len(mb)
    # python-side predicates (all streams) + classification
    per = {}
    for n, (c, o) in enumerate(zip(extra['nest'], out['nest'])):
        if 'driver_error' in o:
            continue
        ok = py_spec_nest(c, o)
        cq = n in coq_nest_fail
        if ok and not cq:
            continue
        fid = classify_nest(c, o)
        if use_coq and c['kind'] == 'func' and cq != (not ok):
            fid = None
        per[fid] = per.get(fid, 0) + 1
        if per[fid] <= (3 if fid else 50):
            res.spec_fails.append(dict(case=dict(stream='nest', **c), impl=o,
                                       why='decorated code under another active profiler: expected %r' % (nest_expected(c),), finding=fid))
    for name, spec, coqfail in (('desc', py_spec_desc, set()), ('meta', py_spec_meta, coq_meta_fail), ('reg', py_spec_reg, set()),
                                ('family', py_spec_family, set()), ('inst', py_spec_inst, set()), ('kwnames', py_spec_kwnames, set())):
        for n, (c, o) in enumerate(zip(extra[name], out[name])):
            if 'driver_error' in o:
                res.infra_errors.append('%s driver error: %s' % (name, o['driver_error']))
                continue
            if spec(o) and n not in coqfail:
                continue
            fid = classify_meta(o) if name == 'meta' else None
            per[fid] = per.get(fid, 0) + 1
            if per[fid] <= (3 if fid else 50):
                res.spec_fails.append(dict(case=dict(stream=name, **c), impl=o,
                                           why={'desc': 'descriptor/partial wrapped by the profiler behaves differently from the original on some access path',
                                                'meta': 'name / doc / signature / kind / attributes not preserved',
                                                'reg': 'behaviour of a function changed by registering it (add_function / add_callable / decoration)',
                                                'kwnames': 'a keyword argument whose name coincides with a name used inside the wrappers '
                                                           '(func, self, args, kwds, ...) does not reach the decorated callable as it reaches the original',
                                                'inst': 'a callable instance (equal-but-distinct / falsy) decorated directly or inside a wrapper object '
                                                        'does not give the results, types or per-object side effects of the original',
                                                'family': 'function objects made by one `def` (shared code object, different defaults / attributes / names) '
                                                          'do not all behave like their undecorated twins once decorated by the same profiler'}[name],
                                           finding=fid))
    cov['extra_spec_fails_by_finding'] = {str(k): v for k, v in per.items()}


def run(tier, seed):
    rnd = core.rng(seed, PROP)
    res = core.Result(PROP)
    res.obl = core.check_obligations(PROP, MODULE, THEOREMS, extra_vo=['theories/Wrap/ProtocolCases.vo'])
    if tier == 'thorough' and not res.obl['failures']:
        rc, chk = core.coqchk(MODULE)
        res.obl['cmds'].append('coqchk -silent -o LP.%s' % MODULE)
        if rc != 0:
            res.obl['failures'].append('coqchk rejected %s: %s' % (MODULE, chk[-800:]))
    impl = core.build_impl()
    cov = {}

    def search(budget):
        known = {e['id'] for e in core.load_findings(PROP)}
        r2 = core.rng(seed + 1, PROP)
        recs2 = run_protocol(impl, list(CANON) + gen_protocol('quick', r2))
        best = None
        for r in recs2:
            for which in ('lp', 'cp'):
                if not py_spec_protocol(r['kind'], r['table'], r['ops'], r[which], r['ref']):
                    fid = classify_protocol(r['kind'], r['ops'], r[which], r['ref'])
                    cand = dict(case=dict(stream='protocol', kind=r['kind'], table=r['table'], ops=r['ops'], prof=which, how=r['how']),
                                impl=dict(wrapped=r[which], original=r['ref']), why='wrapped object differs from the original (search)', finding=fid)
                    if fid is None:
                        return cand
                    if fid not in known and best is None:
                        best = cand
        ex2 = gen_extra('quick', r2)
        o2 = core.run_impl(impl, 'harness.drivers.c03', dict(extra=ex2), timeout=1200)['extra']
        for name, spec in (('nest', None), ('desc', py_spec_desc), ('meta', py_spec_meta), ('reg', py_spec_reg), ('family', py_spec_family), ('inst', py_spec_inst), ('kwnames', py_spec_kwnames)):
            for c, o in zip(ex2[name], o2[name]):
                if 'driver_error' in o:
                    continue
                if name == 'nest':
                    if py_spec_nest(c, o):
                        continue
                    fid = classify_nest(c, o)
                else:
                    if spec(o):
                        continue
                    fid = classify_meta(o) if name == 'meta' else None
                cand = dict(case=dict(stream=name, **c), impl=o, why='%s stream: differs from the original (search)' % name, finding=fid)
                if fid is None:
                    return cand
                if fid not in known and best is None:
                    best = cand
        for r in run_protocol(impl, CANON_AWAIT + gen_await('quick', r2), via='await'):
            for which in ('lp', 'cp'):
                if not py_spec_await(r['kind'], r['table'], r['ops'], r[which], r['ref']):
                    fid = classify_await(r['kind'], r['ops'], r[which], r['ref'])
                    cand = dict(case=dict(stream='await', kind=r['kind'], table=r['table'], ops=r['ops'], prof=which, how=r['how']),
                                impl=dict(wrapped=r[which], original=r['ref']), why='awaiting the decorated callable differs (search)', finding=fid)
                    if fid is None:
                        return cand
                    if fid not in known and best is None:
                        best = cand
        k2 = gen_kern('quick', r2)
        ko2 = core.run_impl(impl, 'harness.drivers.c03', dict(kern=k2, tmp=str(core.SCRATCH_ROOT / 'tmp' / 'c03kern')), timeout=1200)['kern']
        for c, o in zip(k2, ko2):
            if 'driver_error' not in o and not py_spec_kern(c, o):
                return dict(case=dict(stream='kern', **c), impl=o, why='decorated callable under kernprof -i differs (search)', finding=None)
        return best
    res.search = search

    model_ok = all('build of' not in f and 'Print Assumptions failed' not in f for f in res.obl['failures'])
    triples = list(CANON) + gen_protocol(tier, rnd)
    recs = run_protocol(impl, triples)
    extra = gen_extra(tier, rnd)
    extra['nest'] = CANON_NEST + extra['nest']
    out = core.run_impl(impl, 'harness.drivers.c03', dict(extra=extra), timeout=1800)['extra']
    leaks = sum(any(r['leaked']) for r in recs)
    if leaks:
        res.spec_fails.append(dict(case=dict(stream='protocol', note='tool id leaked'), impl=leaks,
                                   why='a profiler was left enabled after the wrapped object was dropped', finding=None))
    eval_protocol(recs, res, cov, use_coq=model_ok)
    eval_extra(extra, out, res, cov, use_coq=model_ok)
    # await path: a coroutine awaits the callable's result (model: Wrap/CoroWrap.v await_of over the wrapper models)
    arecs = run_protocol(impl, CANON_AWAIT + gen_await(tier, rnd), via='await')
    eval_await(arecs, res, cov, use_coq=model_ok)
    # kernprof's interval timer
    tmp = core.SCRATCH_ROOT / 'tmp' / 'c03kern'
    kcases = gen_kern(tier, rnd)
    kouts = core.run_impl(impl, 'harness.drivers.c03', dict(kern=kcases, tmp=str(tmp)), timeout=1800)['kern']
    eval_kern(kcases, kouts, res, cov, use_coq=model_ok)
    # unknown first, so that a new violation is what gets reported
    res.spec_fails.sort(key=lambda s: 0 if s['finding'] is None else 1)

    # ---- evidence -------------------------------------------------------------------
    nontrivial = set()
    hyp_partial = hyp_coro = hyp_coro_out = hyp_repaired = 0
    for r in recs:
        reaches_body = any(z >= 100 for step in r['ref'][0] for z in step[:-1])
        if reaches_body and r['ops']:
            for which in ('ref', 'lp', 'cp'):
                nontrivial.add((r['kind'], json.dumps(r['table']), json.dumps(r['ops']), which))
        send_only = all(o[0] in ('n', 's') for o in r['ops'])
        if r['kind'] in ('gen', 'agen', 'tgen') and send_only:
            hyp_partial += 1
        if r['kind'] in ('gen', 'agen', 'tgen') and table_honours_close(r['table']):
            hyp_repaired += 1
        if r['kind'] == 'coro':
            if coro_hyp(r['table'], r['ops']):
                hyp_coro += 1
            else:
                hyp_coro_out += 1
    n_eval = 3 * len(recs) + 3 * len(arecs) + len(kcases) + sum(len(extra[k]) for k in ('nest', 'desc', 'meta', 'reg', 'family', 'inst', 'kwnames'))
    two_prof = sum(1 for c in extra['nest'] if len({p for _, p in c['layers']}) >= 2)
    exh = (3, 2) if tier == 'quick' else (4, 3)
    cov.update(
        evaluations=n_eval,
        distinct_nontrivial=len(nontrivial) + two_prof + len(extra['desc']) + len(extra['reg']) + len(extra['family']) + len(extra['inst'])
        + len({json.dumps(c) for c in kcases if any(st[0] == 'tick' for st in c['steps']) and len(c['steps']) > 1}),
        rule='protocol cases (kind x body table x op sequence x {unwrapped, LineProfiler, ContextualProfile}) count as non-trivial '
             'when the op sequence is non-empty and the body is resumed at least once, distinct by all four components; nest cases '
             'when two different profiler instances are involved; kern scenarios when they contain a timer tick and another step; every descriptor term, registration case and function family (>= 2 function objects sharing a code object) is counted '
             '(each walks >= 7 access paths / argument lists)',
        exhaustive=True,
        exhaustive_scope='op sequences of length <= %d over {next, send 2, throw ValueError, throw GeneratorExit, throw CancelledError, close} for %d random tables '
                   '(<= 3 states) per kind; all nestings of depth <= %d over {decorate, with} x 4 profiler instances; '
                   'all registration configurations (sources x twins x again x via x enabled); all 256 callable-instance configurations; 96 fixed descriptor configurations (kind x subclass x setattr x profiler); all 792+12 keyword-name configurations; %s function-family configurations'
                   % (exh[0], 4 if tier == 'quick' else 16, exh[1], 'all 960' if tier != 'quick' else '320 (n = 3) of 960'),
        streams=dict(protocol_triples=len(recs), protocol_runs=3 * len(recs), await_runs=3 * len(arecs), kern=len(kcases),
                     nest=len(extra['nest']), desc=len(extra['desc']), meta=len(extra['meta']), reg=len(extra['reg']), family=len(extra['family']), inst=len(extra['inst']), kwnames=len(extra['kwnames'])),
        kern_modes=_hist(c['mode'] for c in kcases), kern_step_kinds=_hist(st[0] for c in kcases for st in c['steps']),
        kern_ticks_at_count_zero_then_call=sum(1 for c in kcases if any(a[0] == 'tick' and b[0] in ('call', 'gsend', 'gstart') for a, b in zip(c['steps'], c['steps'][1:]))),
        kinds=_hist(r['kind'] for r in recs),
        op_kinds=_hist(o[0] + (str(o[1]) if o[0] == 't' else '') for r in recs for o in r['ops']),
        ops_length=_hist(len(r['ops']) for r in recs),
        table_states=_hist(len(r['table']) for r in recs),
        descriptor_kinds=_hist(c['term'][0] for c in extra['desc']),
        hypothesis_holds_on=dict(C03_nonforwarding_wrapper_partial_send_only=hyp_partial, C03_generator_operations_all_cases=sum(1 for r in recs if r['kind'] != 'coro'), C03_coroutine=hyp_coro,
                                 C03_coroutine_outside_hypotheses_not_judged=hyp_coro_out,
                                 C03_generator_full_and_async_honours_close=hyp_repaired,
                                 generator_finalisation_not_judged_body_ignores_close=sum(1 for r in recs if r['kind'] != 'coro') - hyp_repaired,
                                 C03_function_can_enable=sum(1 for c in extra['nest'] if len({p for _, p in c['layers']}) == 1),
                                 C03_two_profilers_two_instances=two_prof),
        measured_not_judged=dict(argument_binding_typeerror_surfaces=out.get('defer'),
                                 note='for generator / coroutine / async-generator functions the wrapper binds the arguments only at the '
                                      'first resumption; exception class and consumer-visible result are the same'),
        unraisable_hook_calls='counted by the driver (bodies that yield during finalisation)',
        samples=[dict(case=dict(kind=r['kind'], table=r['table'], ops=r['ops']), original=r['ref'], line_profiler=r['lp'],
                      contextual_profile=r['cp']) for r in (recs[0], recs[1], recs[len(recs) // 2], recs[-1])]
                + [dict(case=extra['nest'][0], impl=out['nest'][0]), dict(case=extra['desc'][0], impl=out['desc'][0]),
                   dict(case=extra['reg'][0], impl={k: out['reg'][0].get(k) for k in ('padded', 'free')})],
        trusted_base_extra=[
            'hand-modelled, tied by correspondence only: wrap_generator, wrap_async_generator (Wrap/GenWrap.v), wrap_coroutine '
            '(Wrap/CoroWrap.v), wrap_function + enable_by_count/disable_by_count + sys.monitoring tool id (Wrap/GenWrapFun.v), '
            'functools.wraps metadata (wrap_meta)',
            'environment model Wrap/Protocol.v (CPython 3.12 generator / coroutine / async-generator objects, finalisation by close() when '
            'the last reference goes away), validated on every run against real unwrapped objects (stream protocol, rows "ref")',
            'descriptor rebuilding (_wrap_callable_wrapper), registration (add_function / NOP padding) and metadata beyond the four '
            'record fields are checked differentially on generated real objects, with no Coq model',
            'async-generator bodies never await a pending awaitable (single suspension kind); no event loop / asyncgen hooks installed',
            'reference counting finalises dropped objects immediately (harness avoids reference cycles; automatic gc disabled in the driver)',
        ])
    res.coverage = cov
    res.assumptions = [
        'main thread only (off the main thread LineProfiler does not claim the sys.monitoring tool id)',
        'C03_coroutine is claimed for bodies that do not swallow GeneratorExit by awaiting again and for histories that deliver '
        'GeneratorExit by close() (C03_coroutine_hypotheses_needed shows both are limits of `await`); cases outside are run and '
        'compared with the model but not judged',
        'exceptions are compared by class, values are small integers / None',
    ]
    return res


def replay(path):
    data = json.load(open(path))
    impl = core.build_impl()
    c = data['case']
    stream = c.get('stream', 'protocol')
    if stream == 'protocol':
        r = run_protocol(impl, [(c['kind'], c['table'], c['ops'])])[0]
        which = c.get('prof') or 'lp'
        ok = py_spec_protocol(c['kind'], c['table'], c['ops'], r[which], r['ref']) and not any(r['leaked'])
        print(json.dumps(dict(case=c, original=r['ref'], wrapped=r[which], holds=ok,
                              finding=None if ok else classify_protocol(c['kind'], c['ops'], r[which], r['ref'])), indent=1))
        return 0 if ok else 1
    if stream == 'await':
        r = run_protocol(impl, [(c['kind'], c['table'], c['ops'])], via='await')[0]
        which = c.get('prof') or 'lp'
        ok = py_spec_await(c['kind'], c['table'], c['ops'], r[which], r['ref']) and not any(r['leaked'])
        print(json.dumps(dict(case=c, original=r['ref'], wrapped=r[which], holds=ok,
                              finding=None if ok else classify_await(c['kind'], c['ops'], r[which], r['ref'])), indent=1))
        return 0 if ok else 1
    cc = {k: v for k, v in c.items() if k != 'stream'}
    if stream == 'kern':
        tmp = core.SCRATCH_ROOT / 'tmp' / 'c03kern'
        o = core.run_impl(impl, 'harness.drivers.c03', dict(kern=[cc], tmp=str(tmp)))['kern'][0]
        ok = py_spec_kern(cc, o)
        print(json.dumps(dict(case=c, impl=o, holds=ok), indent=1, default=str))
        return 0 if ok else 1
    o = core.run_impl(impl, 'harness.drivers.c03', dict(extra={stream: [cc]}))['extra'][stream][0]
    if stream == 'nest':
        ok = py_spec_nest(cc, o)
        extra = dict(expected=nest_expected(cc), finding=None if ok else classify_nest(cc, o))
    else:
        ok = {'desc': py_spec_desc, 'meta': py_spec_meta, 'reg': py_spec_reg, 'family': py_spec_family, 'inst': py_spec_inst, 'kwnames': py_spec_kwnames}[stream](o)
        extra = dict(finding=classify_meta(o)) if (stream == 'meta' and not ok) else {}
    print(json.dumps(dict(case=c, impl=o, holds=ok, **extra), indent=1, default=str))
    return 0 if ok else 1
