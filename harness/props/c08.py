"""C08 - auto-profiling rewrites only add hooks; the program behaves the same.

Theorem side: Props/C08.v over Ast/{AstLite,Transform,TransformFacts,Placement,Behaviour,PropFacts}.v
(shared with C09), Gen/Select.v and Gen/RelImport.v regenerated on every run.

Tie: (a) tree level - random program texts and the generated executable programs are put on
disk, the real AstTree(Module)Profiler.profile() runs in-process, the Python trees are
converted to AstLite and `conv (real t) = model (conv t)` plus the property predicates
(erasure, lines, decorators, located, __future__ placement, no `*` registration) are
evaluated inside Coq on the implementation's own output; (b) behaviour - every generated
program runs under plain `python` and under `kernprof -l -p ... [--prof-imports]` (scripts
and -m modules with relative imports): stdout, exit status and exception type must agree."""
import json
import os
import shutil

from harness import core
from harness.drivers import c09_astconv as AC
from harness.props import c09 as P9
from harness.props import c09_gen as G9
from harness.props import c08_gen as G8

PROP = 'C08'
MODULE = 'Props.C08'
THEOREMS = ['C08_erasure', 'C08_reference_program', 'C08_lines_preserved', 'C08_decorator_innermost_once',
            'C08_inserted_nodes_located', 'C08_future_placement', 'C08_star_registration', 'C08_repaired_examples',
            'C08_behaviour', 'C08_nonvacuous']
LEVEL = 'proof'
GEN_TARGETS = ['RelImport.v', 'Select.v']
HEADER = P9.HEADER
FLAGS = ['correspondence', 'erasure', 'lines', 'decorators', 'located', 'future', 'star']

F_GENRET = 'C08-generator-return-value-lost'
F_GENTHROW = 'C08-generator-throw-not-forwarded'
F_STAR = 'C08-star-import-registration'
F_FUTURE = 'C08-future-import-not-first'
F_LINE = 'C08-inserted-nodes-wrong-line'
F_BAREREL = 'C08-bare-relative-import-typeerror'
F_SHADOW = 'C08-profile-name-captured-in-class-body'
F_MULTILINE = 'C08-inserted-nodes-span-multiline-import'
ALL_FINDINGS = [F_GENRET, F_GENTHROW, F_STAR, F_FUTURE, F_LINE, F_BAREREL, F_SHADOW, F_MULTILINE]


# ---------------------------------------------------------------------------------------
# python mirrors of the executable predicates of Ast/Transform.v
def py_lines(body):
    out = []
    for s in body:
        k = s[0]
        if k == 'F':
            out += [s[5]] + py_lines(s[4])
        elif k == 'C':
            out += [s[4]] + py_lines(s[3])
        elif k == 'I':
            out.append(s[2])
        elif k == 'IF':
            out.append(s[4])
        elif k == 'X':
            out.append(s[3])
            for bl, b in s[2]:
                out += [bl] + py_lines(b)
        elif k == 'O':
            out.append(s[2])
    return out


def py_located(body):
    cur = None
    for s in body:
        k = s[0]
        if k == 'P':
            if cur is not None and s[2] != cur:
                return False
        elif k == 'I':
            cur = s[2]
        elif k == 'IF':
            cur = s[4]
        else:
            if k == 'F' and not py_located(s[4]):
                return False
            if k == 'C' and not py_located(s[3]):
                return False
            if k == 'X' and not all(py_located(b) for _l, b in s[2]):
                return False
            cur = None
    return True


def _is_future(s):
    return s[0] == 'IF' and s[1] == '__future__' and s[3] == 0


def py_future_ok(body):
    b = body[1:] if (body and body[0][0] == 'O' and body[0][1] < 0) else body
    i = 0
    while i < len(b) and _is_future(b[i]):
        i += 1
    return not any(_is_future(s) for s in b[i:])


def py_star_free(body):
    return '*' not in AC.regs(body)


def py_clean(body):
    return not any((s[0] == 'P') or (s[0] == 'F' and ['N', AC.PROFILER] in s[3]) for s in AC.walk(body))


def py_tree_spec(case, t):
    """C08 predicates on the implementation's own in-process output: [(flag, why, finding)]"""
    fails = []
    orig = t['orig']
    if t.get('err') is not None:
        bare = P9.py_has_bare_relative(t.get('pre') or orig)
        fails.append(('erasure', 'the rewrite itself raised %s' % t['err'],
                      F_BAREREL if (t['err'] == 'TypeError' and bare and not case.get('module')) else None))
        return fails
    pre, out, full = t['pre'], t['out'], t['full']
    if AC.erase(out) != AC.erase(pre):
        fails.append(('erasure', 'the rewritten tree differs from the program by more than hooks', None))
    if py_lines(out) != py_lines(orig):
        fails.append(('lines', 'an original statement changed its line number', None))
    prof = ['N', AC.PROFILER]
    fo, fp = AC.funcs(out), AC.funcs(pre)
    ho = [(f[1], f[2], f[6], f[3], f[5]) for f in fo]
    hp = [(f[1], f[2], f[6], (f[3] if (prof in f[3] or not full) else f[3] + [prof]), f[5]) for f in fp]
    ok = ho == hp
    if ok and full and py_clean(pre):
        ok = all(f[3].count(prof) == 1 and f[3][-1] == prof for f in fo)
    if not ok:
        fails.append(('decorators', 'decorators are not "profile appended once, innermost, nothing else"', None))
    if case.get('modname_h') and t.get('modname') != case['modname_h']:
        fails.append(('modname', 'the executed module is given the dotted position %r, it is run as %r'
                      % (t.get('modname'), case['modname_h']), None))
    pflags_o = [s[3] for s in AC.walk(orig) if s[0] == 'P' and len(s) > 3]
    pflags = [s[3] for s in AC.walk(out) if s[0] == 'P' and len(s) > 3]
    if any(f['shared'] or f['mixed'] for f in pflags) and not any(f['shared'] or f['mixed'] for f in pflags_o):
        fails.append(('located', 'the nodes of an inserted registration statement do not all carry one line of their own '
                                 '(a node shared between statements, or nodes on different lines)', None))
    if sum(f['multiline'] for f in pflags) > sum(f['multiline'] for f in pflags_o):
        fails.append(('oneline', 'an inserted registration statement spans several lines (it copied the extent of a multi-line '
                                 'import): its line events bounce between the first and the last line of that import', F_MULTILINE))
    if py_located(orig) and not py_located(out):
        fails.append(('located', 'an inserted registration statement does not carry the line of the import it follows',
                      F_LINE))
    if py_future_ok(orig) and not py_future_ok(out):
        fails.append(('future', 'a statement was inserted before a `from __future__ import`',
                      F_FUTURE if case['imports'] or t.get('dict') else None))
    if py_star_free(orig) and not py_star_free(out):
        fails.append(('star', 'a registration call was inserted for `*`', F_STAR))
    g = t.get('glue')
    if g is not None and (g.get('error') or g['flags'] != g['ref_flags'] or not g['filename_ok']):
        fails.append(('compile', 'autoprofile.run() compiles the rewritten tree differently from the program itself '
                                 '(compiler/__future__ flags or filename): %s' % g, None))
    if t.get('compile_err') and not any(f[0] in ('future',) for f in fails):
        fails.append(('compile', 'the rewritten tree does not compile: %s' % t['compile_err'], None))
    return fails


# ---------------------------------------------------------------------------------------
# behaviour comparison and classification
def by_tag(lines):
    d = {}
    for l in lines:
        tag = l.split(' ', 1)[0] if l[:1] in 'SRZ' and ':' in l.split(' ', 1)[0] else '?'
        d.setdefault(tag, []).append(l)
    return d


def py_behaviour_spec(case, r):
    """[(config index, why, finding)]"""
    fails = []
    a = r['plain']
    st = case['snippet_tags']
    known_bad = {p for p, tags in st.items() if set(tags) & {'genret', 'genthrow'}}
    for i, (cfg, b) in enumerate(zip(case['configs'], r['kern'])):
        same = a['out'] == b['out'] and (a['rc'] == 0) == (b['rc'] == 0) and a['exc'] == b['exc']
        if same:
            continue
        full = any(x.endswith(os.path.basename(case['script'])) or x == case.get('module')
                   for c in cfg if not c.startswith('-') for x in c.split(','))
        imports = '--prof-imports' in cfg
        helper_sel = any('c08_helper' in c.split(',') for c in cfg)
        why = ('config %s: stdout/exit/exception differ: python rc=%s exc=%s, kernprof rc=%s exc=%s; first differing lines %s | %s'
               % (cfg, a['rc'], a['exc'], b['rc'], b['exc'],
                  [l for l in a['out'] if l not in b['out']][:2], [l for l in b['out'] if l not in a['out']][:2]))
        err = b.get('err', '')
        tags = set(case['tags'])
        fid = None
        if b['exc'] == 'SyntaxError' and 'from __future__ imports must occur at the beginning' in err \
                and 'future2' in tags and full and imports:
            fid = F_FUTURE
        elif b['exc'] == 'NameError' and "name '*' is not defined" in err and (
                (full and imports and (tags & {'star', 'star_std'})) or (helper_sel and 'star' in tags)):
            fid = F_STAR
        elif b['exc'] == 'TypeError' and "unsupported operand type(s) for +: 'NoneType' and 'str'" in err \
                and 'bare_relative' in tags and not case.get('module'):
            fid = F_BAREREL
        elif full and b['exc'] == 'ValueError' and a['exc'] is None and 'genthrow' in tags \
                and 'in wrapper' in err and 'yield item' in err:
            # everything printed before the throw must agree apart from the known generator lines
            da, db = by_tag(a['out']), by_tag(b['out'])
            pre_ok = all(db[t] == da.get(t, [])[:len(db[t])] for t in db if t not in known_bad)
            fid = F_GENTHROW if pre_ok else None
        elif full and 'shadow_profile' in tags and b['exc'] == 'TypeError' and '.other()' in err \
                and "'str' object is not callable" in err and b['out'] == a['out'][:len(b['out'])]:
            # a class body defines a method named `profile` before another method: the added
            # `@profile` of the later method resolves to that method
            fid = F_SHADOW
        elif full and (a['rc'] == 0) == (b['rc'] == 0) and a['exc'] == b['exc']:
            da, db = by_tag(a['out']), by_tag(b['out'])
            diff = {t for t in set(da) | set(db) if da.get(t) != db.get(t)}
            genret = {p for p, tg in st.items() if 'genret' in tg}
            if diff and diff <= genret and all(
                    [l.replace("'sub-result'", 'None').replace('value 42', 'value None') for l in da[t]] == db.get(t)
                    for t in diff):
                fid = F_GENRET
        fails.append((i, why, fid))
    return fails


# ---------------------------------------------------------------------------------------
def c08_row(case, t):
    out = t.get('out') if t.get('err') is None else None
    return '(c08_case %s %s %s %s\n %s\n %s)' % (
        core.coq_bool(bool(t.get('full'))), core.coq_bool(case['imports']),
        core.coq_opt(core.coq_str(t['modname']) if t.get('modname') else None),
        P9.coq_strs(t.get('S') or []), AC.coq_body(t['orig']),
        core.coq_opt(AC.coq_body(out) if out is not None else None))


def behaviour_as_tree_cases(bcase):
    """the executable programs are also checked at tree level, once per configuration"""
    out = []
    for cfg in bcase['configs']:
        specs = []
        for c in cfg:
            if not c.startswith('-'):
                specs += c.split(',')
        out.append(dict(kind='tree', files=bcase['files'], script=bcase['script'], module=bcase['module'],
                        symlinks=bcase.get('symlinks'), script_real=bcase.get('script_real', bcase['script']),
                        modname_h=bcase.get('modname_h'),
                        prof_mod=specs, imports='--prof-imports' in cfg, cli=None, e2e=False, from_behaviour=True))
    return out


def load_canonical():
    cs = []
    for fid in ALL_FINDINGS:
        p = core.VERIF / 'findings' / (fid + '.json')
        if p.exists():
            c = dict(json.loads(p.read_text())['case'])
            c['canonical'] = fid
            cs.append(c)
    return cs


def gen_cases(tier, rnd, root):
    n_tree, n_mod, n_beh, n_behmod = (260, 70, 110, 25) if tier == 'quick' else (4000, 1000, 1200, 250)
    beh = [G8.gen_behaviour_case(rnd, module_mode=False) for _ in range(n_beh)]
    beh += [G8.gen_behaviour_case(rnd, module_mode=True) for _ in range(n_behmod)]
    tree = [G9.gen_tree_case(rnd, module_mode=False) for _ in range(n_tree)]
    tree += [G9.gen_tree_case(rnd, module_mode=True) for _ in range(n_mod)]
    lays = [G9.gen_layout_case(rnd, e2e=False) for _ in range(n_tree // 4)]
    for c in load_canonical():
        (beh if c['kind'] == 'behaviour' else tree).append(c)
    for b in beh:
        tree += behaviour_as_tree_cases(b)
    tree += lays
    for k, c in enumerate(tree):
        c['base'] = os.path.join(root, 't%d' % k)
        if '_lay' in c:
            G9.finish_layout_case(rnd, c, c['base'])
    for k, c in enumerate(beh):
        c['base'] = os.path.join(root, 'b%d' % k)
    return tree, beh


def drive_behaviour(impl, cases, root, workers=14):
    from concurrent.futures import ThreadPoolExecutor
    os.makedirs(root, exist_ok=True)
    n = len(cases)
    nsl = max(1, min(4, n // 100))
    bounds = [(i * n // nsl, (i + 1) * n // nsl) for i in range(nsl)]

    def one(b):
        lo, hi = b
        return core.run_impl(impl, 'harness.drivers.c08', dict(cases=[P9.slim(c) for c in cases[lo:hi]],
                                                               workers=max(2, workers // nsl)), timeout=3000)['results']
    try:
        with ThreadPoolExecutor(max_workers=nsl) as ex:
            parts = list(ex.map(one, bounds))
    finally:
        shutil.rmtree(root, ignore_errors=True)
    return [r for p in parts for r in p]


def evaluate(tree, tres, beh, bres):
    """python-side spec: list of dict(kind, index, why, finding, flag)"""
    fails = []
    for i, (c, r) in enumerate(zip(tree, tres)):
        t = r.get('tree')
        if t is None or t.get('orig') is None:
            continue
        for flag, why, fid in py_tree_spec(c, t):
            fails.append(dict(kind='tree', index=i, flag=flag, why=why, finding=fid))
    for i, (c, r) in enumerate(zip(beh, bres)):
        for ci, why, fid in py_behaviour_spec(c, r):
            fails.append(dict(kind='behaviour', index=i, flag='behaviour', why=why, finding=fid, config=ci))
    return fails


def run(tier, seed):
    rnd = core.rng(seed, PROP)
    res = core.Result(PROP)
    gen = core.regenerate(GEN_TARGETS)
    res.obl = core.check_obligations(PROP, MODULE, THEOREMS, extra_vo=['theories/Ast/Cases.vo'])
    for tgt in GEN_TARGETS:
        if gen.get(tgt):
            res.obl['failures'].append('translator refused the source (%s): %s' % (tgt, gen[tgt]))
    impl = core.build_impl()
    root = P9.new_root('c08')
    tree, beh = gen_cases(tier, rnd, root)
    tres = P9.drive(impl, tree, root + '_t')
    bres = drive_behaviour(impl, beh, root + '_b')
    shutil.rmtree(root, ignore_errors=True)

    def search(budget):
        rnd2 = core.rng(seed + 1, PROP)
        root2 = P9.new_root('c08s')
        t2, b2 = gen_cases('thorough' if budget == 'thorough' else 'quick', rnd2, root2)
        t2, b2 = t2[:3000], b2[:500]
        tr2 = P9.drive(impl, t2, root2 + '_t')
        br2 = drive_behaviour(impl, b2, root2 + '_b')
        best = None
        for f in evaluate(t2, tr2, b2, br2):
            src, rs = (t2, tr2) if f['kind'] == 'tree' else (b2, br2)
            d = dict(case=P9.slim(src[f['index']]), impl=rs[f['index']], why=f['why'] + ' (search)', finding=f['finding'])
            if f['finding'] is None:
                return d
            best = best or d
        return best
    res.search = search

    # ---- shards -------------------------------------------------------------------------
    model_ok = all('build of' not in f for f in res.obl['failures'])
    rows = []
    for i, (c, r) in enumerate(zip(tree, tres)):
        t = r.get('tree')
        if t is None or t.get('orig') is None:
            continue
        try:
            rows.append((i, c08_row(c, t)))
        except ValueError as e:
            res.infra_errors.append('case %d not printable: %s' % (i, e))
    coq_fail = {f: set() for f in FLAGS[1:]}
    if model_ok:
        shards = P9.shard_rows(rows)
        sres = core.run_shards('c08', HEADER, [P9.shard_body(s, len(FLAGS)) for s in shards])
        for k, (s, sr) in enumerate(zip(shards, sres)):
            if sr[0] != 'ok' or len(sr[1]) != len(FLAGS):
                res.infra_errors.append('shard %d failed: %s' % (k, str(sr[1])[-600:]))
                continue
            for j in sr[1][0]:
                i = s[j][0]
                res.mismatches.append(dict(case=P9.slim(tree[i]), impl=tres[i].get('tree'),
                                           model='Ast/Transform.v transform differs from the real profile()'))
            for fl, idxs in zip(FLAGS[1:], sr[1][1:]):
                coq_fail[fl] |= {s[j][0] for j in idxs}
    # ---- python-side spec, classification -------------------------------------------------
    fails = evaluate(tree, tres, beh, bres)
    py_tree = {}
    for f in fails:
        src, rs = (tree, tres) if f['kind'] == 'tree' else (beh, bres)
        res.spec_fails.append(dict(case=P9.slim(src[f['index']]), impl=rs[f['index']], why=f['why'], finding=f['finding']))
        if f['kind'] == 'tree':
            py_tree.setdefault(f['flag'], set()).add(f['index'])
    if model_ok:
        for fl in FLAGS[1:]:
            only_coq = coq_fail[fl] - py_tree.get(fl, set())
            only_py = py_tree.get(fl, set()) - coq_fail[fl]
            for i in sorted(only_coq):
                res.spec_fails.append(dict(case=P9.slim(tree[i]), impl=tres[i],
                                           why='Coq-side predicate `%s` false on the implementation output' % fl, finding=None))
            if only_py:
                res.infra_errors.append('python and Coq predicate `%s` disagree on tree cases %s' % (fl, sorted(only_py)[:5]))
    # ---- coverage ---------------------------------------------------------------------------
    trees = [(c, r['tree']) for c, r in zip(tree, tres) if r.get('tree') and r['tree'].get('out') is not None]
    depths, kinds = {}, {}
    nontrivial = set()
    n_full = n_imports = n_module = n_clean = n_inserted = 0
    for c, t in trees:
        d = AC.depth(t['orig'])
        depths[d] = depths.get(d, 0) + 1
        n_full += bool(t['full'])
        n_imports += bool(c['imports'])
        n_module += bool(c.get('module'))
        n_clean += py_clean(t['pre'])
        ins = len(AC.regs(t['out'])) - len(AC.regs(t['orig']))
        n_inserted += ins > 0
        if t['full'] or ins > 0 or c.get('module'):
            nontrivial.add(json.dumps([t['orig'], t['S'], t['full'], c['imports'], c.get('module')]))
        for s in AC.walk(t['orig']):
            kinds[s[0]] = kinds.get(s[0], 0) + 1
    tagc, cfgc = {}, {}
    for c in beh:
        for tg in c['tags']:
            tagc[tg] = tagc.get(tg, 0) + 1
        for nm in c.get('cfg_names', []):
            cfgc[nm] = cfgc.get(nm, 0) + 1
    runs = sum(1 + len(c['configs']) for c in beh)
    agree = sum(1 for c, r in zip(beh, bres) for b in r['kern']
                if r['plain']['out'] == b['out'] and r['plain']['exc'] == b['exc'] and (r['plain']['rc'] == 0) == (b['rc'] == 0))
    samples = []
    if beh:
        for i in (0, len(beh) // 2):
            samples.append(dict(program=beh[i]['files'][beh[i].get('script_real', beh[i]['script'])][:500], configs=beh[i]['configs'],
                                python=dict(rc=bres[i]['plain']['rc'], out=bres[i]['plain']['out'][:4]),
                                kernprof=[dict(rc=b['rc'], exc=b['exc'], out=b['out'][:4]) for b in bres[i]['kern']]))
    if trees:
        c, t = trees[len(trees) // 2]
        samples.append(dict(script=c['files'][c.get('script_real', c['script'])][:300], prof_mod=c['prof_mod'], full=t['full'],
                            inserted=AC.regs(t['out'])))
    res.coverage = dict(
        evaluations=len(rows) + runs, distinct_nontrivial=len(nontrivial) + sum(len(c['configs']) for c in beh),
        rule='tree cases: non-trivial = the script is selected, or a registration is inserted, or module mode rewrites '
             'relative imports (distinct by converted tree + configuration); behaviour cases: every kernprof run of a generated '
             'program (each has >= 2 feature snippets) counts',
        samples=samples, tree_cases=len(trees), behaviour_programs=len(beh), behaviour_process_runs=runs,
        behaviour_kernprof_runs_agreeing=agree,
        tree_depth_histogram={str(k): v for k, v in sorted(depths.items())},
        statement_kinds=dict(FuncDef=kinds.get('F', 0), ClassDef=kinds.get('C', 0), Import=kinds.get('I', 0),
                             ImportFrom=kinds.get('IF', 0), Compound=kinds.get('X', 0), Other=kinds.get('O', 0),
                             ProfCall_user_written=kinds.get('P', 0)),
        behaviour_construct_tags=tagc, behaviour_configs=cfgc,
        hypothesis_holds_on=dict(script_selected=n_full, prof_imports=n_imports, module_mode=n_module,
                                 clean_program=n_clean, registration_inserted=n_inserted,
                                 compile_glue_checked=sum(1 for _c, t in trees if t.get('glue') and not t['glue'].get('error')),
                                 rewrite_raised=sum(1 for r in tres if r.get('tree') and r['tree'].get('err'))),
        translated=['line_profiler/autoprofile/profmod_extractor.py::_ast_get_imports_from_tree, '
                    '_find_modnames_in_tree_imports -> Gen/Select.v',
                    'line_profiler/autoprofile/run_module.py::get_module_from_importfrom -> Gen/RelImport.v'],
        trusted_base_extra=[
            'C08_behaviour is proved inside a Section for an arbitrary big-step semantics; its hypotheses are premises of the '
            'closed theorem, not axioms: (iii) exec_nil/exec_app/exec_leaf/cong_func/cong_class/cong_comp (compositionality), '
            '(i) deco_identity = property C03 for the `profile` decorator, (ii) reg_inert = C03_registration_inert for good names; '
            'full Python semantics is not formalised (partial): the behavioural tie exercises them on generated programs',
            'py2coq translator + Prelude (Gen/Select.v, Gen/RelImport.v regenerated on every run)',
            'hand-modelled, tied by correspondence only: _profile_ast_tree, AstProfileTransformer, ImportFromTransformer, '
            'ast.fix_missing_locations (Ast/Transform.v)',
            'the converter Python AST -> AstLite (harness/drivers/c09_astconv.py)',
            'compile step of autoprofile.run(): not modelled; on every tree case the code object it hands to exec is captured '
            '(the name exec shadowed in that module) and its filename and __future__ compiler flags are compared with a plain '
            'compile of the file; execution itself is exercised by the behavioural runs'])
    res.assumptions = ['the program does not rebind the name `profile` in a scope where a function is defined or an import is registered '
                       '(the added decorator and registration calls resolve it by name; the class-body case is the known finding '
                       'C08-profile-name-captured-in-class-body)',
                       'behaviour is compared on stdout, exit status (zero / non-zero) and the type of the uncaught exception; '
                       'stderr text, object identities and recursion depth are outside the comparison',
                       'programs do not call sys.exit (exit codes under kernprof are property C07)']
    return res


def replay(path):
    data = json.load(open(path))
    impl = core.build_impl()
    c = dict(data['case'])
    root = P9.new_root('c08r')
    if c.get('kind') == 'behaviour':
        c['base'] = os.path.join(root, 'b0')
        trees = behaviour_as_tree_cases(c)
        for k, t in enumerate(trees):
            t['base'] = os.path.join(root, 't%d' % k)
        tr = P9.drive(impl, trees, root + '_t')
        br = drive_behaviour(impl, [c], root + '_b')
        fails = evaluate(trees, tr, [c], br)
        shown = br[0]
    else:
        c['base'] = os.path.join(root, 't0')
        tr = P9.drive(impl, [c], root + '_t')
        fails = evaluate([c], tr, [], [])
        shown = tr[0]
    print(json.dumps(dict(case=P9.slim(c), impl=shown, holds=not fails,
                          fails=[[f['kind'], f['flag'], f['why'], f['finding']] for f in fails]), indent=1)[:8000])
    return 0 if not fails else 1
