"""C04 - statistics belong only to the function that actually ran.  Theorems: Props/C04.v.
Tie: programs with byte-identical twins (same file other lines; other file same/shifted lines), registered
subsets, re-registrations; plus the fixed padding-collision history."""
from harness import core, e1common

PROP = 'C04'
MODULE = 'Props.C04'
THEOREMS = ['C04_unregistered_reports_nothing', 'C04_no_crosstalk', 'C04_fresh_twins_distinct_partial',
            'C04_unregistered_twin_refuted', 'C04_padding_collision_refuted', 'C04_model_is_generated_core', 'C04_entry_points_register_exactly_what_they_are_handed', 'C04_registration_creates_entry_partial']
LEVEL = 'proof'
FEATURES = [{'twinfile', 'twindeco'}, {'delegators'}, {'delegators', 'twins'}, {'twins'}, {'twinfile'}, {'twins', 'twinfile', 'gen'}, {'twins', 'rec'}, {'twinfile', 'gen'}, {'twins', 'twinfile'}, {'twinfile', 'addmod'}, {'twinfile', 'addmod', 'gen'}]
# every registration entry point (add_function, decorator, add_module with functions/classes/one module for several files,
# the auto-profiling hook with functions/classes) over value-equal twins
GLUE = [{'twinfile', 'regmodes'}, {'twinfile', 'regmodes', 'twins'}, {'twinfile', 'regmodes', 'gen'}]

PADCOLLIDE = dict(
    files=[('main.py', '''# fixed: five byte-identical twins at the same line numbers of five files; g registered three times
SRC = "def %s(x, d):\\n    y = x + 1\\n    return y\\n"
def main(P):
    prof = P.prof
    for nm in 'fghxy':
        exec(compile(SRC % nm, P.filename('twin_%s.py' % nm), 'exec'), P.ns)
    for nm in ['f', 'g', 'h', 'g', 'g', 'x', 'y']:
        P.reg(nm)
    with prof:
        for _ in range(3):
            P.fn('y')(1, 0)
        P.fn('g')(1, 0)
    P.snap()
''')], names=[], kinds={}, twin_of={}, threads=False, features=['fixed-padcollide'], tick=0)


def run(tier, seed):
    res = e1common.run_property(PROP, MODULE, THEOREMS, tier, seed, 150, 20000, FEATURES, 'hits', extra_cases=[PADCOLLIDE, e1common.FIXED_TWIN, e1common.FIXED_REREG])
    res2 = e1common.run_property(PROP, MODULE, THEOREMS, tier, seed + 2, 60, 6000, GLUE, 'hits')
    return e1common.merge_results(res, res2, 'glue_part')


def replay(path):
    return e1common.replay(PROP, path, 'hits')
