"""C14 - @profile is inert unless profiling was requested.

Theorem side: Props/C14.v over Gen/GlobalProfiler.v (regenerated from
line_profiler/explicit_profiler.py on every run) and the hand model of show().
Tie: translation + exhaustive tables run through fresh real GlobalProfiler objects
(in-process), the real show() under all 16 write_config subsets, and whole interpreter
runs with a real LINE_PROFILE variable and the real atexit hook (subprocess)."""
import itertools
import os
import json
import shutil

from harness import core
from harness.props import c19 as K          # kernprof in-process cases reuse C19's generator / driver / encoding

PROP = 'C14'
MODULE = 'Props.C14'
THEOREMS = ['C14_decision', 'C14_inert', 'C14_history', 'C14_disable_inert',
            'C14_single_profiler_single_atexit', 'C14_outputs_exact', 'C14_expected_outputs_meaning',
            'C14_kernprof_handoff', 'C14_kernprof_run_leaves_decorator_to_its_own_rules', 'C14_kernprof_nonvacuous',
            'C14_nonvacuous']
LEVEL = 'proof'
DRIVER = 'harness.drivers.c14'

FALSY = ['', '0', 'off', 'false', 'no']
ENVS = [None, '', '0', '1', 'off', 'OFF', 'Off', 'oFf', 'false', 'False', 'FALSE', 'fAlSe', 'no', 'No', 'NO', 'nO',
        'on', 'true', 'yes', 'YES', ' ', ' 0', '0 ', 'false ', ' no', '00', '0.0', '-0', 'n', 'f', 'of', 'offf',
        'none', 'None', 'null', 'disable', 'x', '-1', '2', 'nope', 'fals', 'NO!', 'o f f', 'False0', '0off']
ENVS_NONASCII = ['Ｏff', 'Öff', 'nö', 'K']      # python-side spec only (no Coq literal)
ARGVS = [['prog'], ['prog', '--line-profile'], ['prog', '--line_profile'], ['--line-profile'], [],
         ['prog', '--line-profile=1'], ['prog', '--line_profile=0'], ['prog', '--line-profil'],
         ['prog', '--line_profile', 'x'], ['prog', 'a', '--line-profile', 'b'], ['prog', '-line-profile'],
         ['prog', '--LINE-PROFILE'], ['prog', '--line-profile '], ['prog', '--line-profile', '--line_profile'],
         ['prog', '--', '--line-profile'], ['prog', '--lineprofile'], ['prog', '--line--profile'], ['prog', 'line_profile']]
ALPHABET = [['enable', None], ['enable', 'p'], ['disable', None], ['decorate', None]]
WC_KEYS = ['lprof', 'text', 'timestamped_text', 'stdout']
ALL_WC = [dict(zip(WC_KEYS, bits)) for bits in itertools.product([False, True], repeat=4)]
EXT_ID = 7


# ---- the property, python side (used for spec_fail cross-check and by the search) ------------
def requested(env, argv):
    return ((env or '').lower() not in FALSY) or ('--line-profile' in argv) or ('--line_profile' in argv)


def spec_history(env, argv, ops, handoff=False):
    """-> (expected answers, active, prefix)"""
    req = requested(env, argv)
    st = True if handoff else None
    active = False
    prefix = 'profile_output'
    owner = ['ext', EXT_ID] if handoff else ['own', 1]
    out = []
    k = 0
    for kind, arg in ops:
        if kind == 'enable':
            st = True
            active = True
            if arg is not None:
                prefix = arg
            out.append(['unit'])
        elif kind == 'disable':
            st = False
            out.append(['unit'])
        elif kind in ('decorate', 'decorate_ghost', 'decorate_sub'):
            k += 1
            if st is None:
                st = req
                active = active or req
            out.append(['wrapped', k] + owner if st else ['same', k])
        else:
            raise ValueError(kind)
    return out, active, prefix


def expected_seen(wc, prefix, ts):
    out = []
    if wc['stdout']:
        out.append([0, None])
    if wc['text']:
        out.append([1, prefix + '.txt'])
    if wc['timestamped_text']:
        out.append([2, '%s_%s.txt' % (prefix, ts)])
    if wc['lprof']:
        out.append([3, prefix + '.lprof'])
    return out


def py_spec(kind, c, o):
    """None if the property holds on the implementation's own output, else a reason"""
    if kind in ('hist', 'handoff'):
        exp, active, prefix = spec_history(c['env'], c['argv'], c['ops'], handoff=(kind == 'handoff'))
        got = o['obs'][1:] if kind == 'handoff' else o['obs']
        if got != exp:
            for i, (g, e) in enumerate(zip(got, exp)):
                if g != e:
                    return 'call %d (%s) answered %r, the property demands %r' % (i, c['ops'][i][0], g, e)
            return 'answers %r, demanded %r' % (got, exp)
        if 'argv_after' in o and o['argv_after'] != list(c['argv']):
            return 'the decorator changed sys.argv: %r -> %r (the decision only reads the command line)' % (c['argv'], o['argv_after'])
        if kind == 'handoff':
            if o['created'] != 0 or o['atexit'] != 0 or o['profile'] != ['ext', EXT_ID]:
                return 'under kernprof: created=%s atexit=%s profile=%s' % (o['created'], o['atexit'], o['profile'])
            return None
        n = 1 if active else 0
        if o['created'] != n:
            return '%d profilers created, demanded %d' % (o['created'], n)
        if o['atexit'] != n or not o['hooks_ok']:
            return '%d exit hooks registered, demanded %d (hooks_ok=%s)' % (o['atexit'], n, o['hooks_ok'])
        if o['profile'] != (['own', 1] if active else None):
            return 'profiler object %r' % (o['profile'],)
        if o['prefix'] != prefix:
            return 'prefix %r, configured %r' % (o['prefix'], prefix)
        return None
    if kind == 'show':
        exp = expected_seen(c['wc'], o['prefix'], o['ts'])
        if o['err'] or o['seen'] != exp or not o['sizes_ok']:
            return 'show() wrote %r (err=%s), switched on: %r' % (o['seen'], o['err'], exp)
        return None
    if kind == 'kernprof':
        return kp_spec(c, o)
    if kind == 'subkp':
        return kp_sub_spec(c, o)
    if kind == 'subops':
        return subops_spec(c, o)
    if kind == 'sub':
        ops = sub_ops(c)
        exp, active, prefix = spec_history(c['env'], ['prog.py'] + c['args'], ops)
        if o['rc'] != 0 or o['obs'] is None:
            return 'interpreter run failed rc=%s %s' % (o['rc'], o['stderr'][-200:])
        sames = [e[0] == 'same' for e in exp if e[0] != 'unit']
        if [o['obs']['same_f'], o['obs']['same_g']] != sames:
            return 'decorations returned-their-argument = %r, demanded %r' % ([o['obs']['same_f'], o['obs']['same_g']], sames)
        want = expected_seen(c['wc'], prefix, o['ts']) if active else []
        if o['seen'] != want:
            return 'at exit %r appeared, demanded %r' % (o['seen'], want)
        return None
    raise ValueError(kind)


def sub_ops(c):
    ops = []
    if c['pre'] == 'enable':
        ops.append(['enable', None])
    elif c['pre'] == 'enable_prefix':
        ops.append(['enable', c['prefix']])
    elif c['pre'] == 'disable':
        ops.append(['disable', None])
    ops.append(['decorate', None])
    if c['mid'] == 'disable':
        ops.append(['disable', None])
    elif c['mid'] == 'enable':
        ops.append(['enable', None])
    ops.append(['decorate', None])
    return ops


# ---- under kernprof: in-process runs of the real kernprof.main around ordinary use ------------------------
def kp_cases(tier):
    thorough = tier == 'thorough'
    init0 = dict(argv=['host', 'x'], argv_rebound=False, path_rebound=False, profile='undecided')
    setups = [(None, []), ([], []), (['enable'], []), (['enable', 'decorate'], []), (['decorate'], ['--line-profile']),
              (['decorate'], []), (['disable'], []), (['decorate', 'enable'], ['--line_profile', 'z']),
              (None, ['--line-profile']), ([], ['q', '--line_profile'])]      # the switch is only among the PROGRAM's arguments
    outcomes = ['ret', 'exc', 'exit'] + (['kbd', 'excin'] if thorough else [])
    cases = []

    def run(l, b, outcome, su=None, sargs=(), m=False):
        return K.make_run(l, b, m, su is not None, None, 'rel', [], list(sargs), outcome, 0, 0, 0, setup_uses=su)
    for l, b in ((True, False), (False, True), (False, False)):
        for outcome in outcomes:
            if outcome == 'excin' and not (l or b):
                continue
            for su, sargs in setups:
                cases.append(dict(kind='kernprof', init=init0, runs=[run(l, b, outcome, su, sargs)]))
            # the host had switched the decorator on / off itself before the run
            for pre in (['enable'], ['enable', 'decorate'], ['disable'], ['decorate']):
                r = run(l, b, outcome)
                r['pre_use'] = pre
                cases.append(dict(kind='kernprof', init=init0, runs=[r]))
            # two runs: the first one's setup file enables, the second ends as `outcome`
            r1, r2 = run(True, False, 'ret', ['enable']), run(l, b, outcome, m=thorough and outcome == 'ret')
            r2['pre_use'] = ['decorate']
            cases.append(dict(kind='kernprof', init=init0, runs=[r1, r2]))
    return cases


def kp_expected(case, o):
    """stand-alone rules applied to the ordinary uses alone -> expected (enabled, profile) after every step and the
    answer of every decoration; steps in driver order: pre-uses, run, ..., final host decoration"""
    st = dict(enabled=None, profile=None, created=0)
    if case['init']['profile'] == 'disabled':
        st['enabled'] = False
    host_argv = o['before']['argv']

    def use(op, argv):
        if op == 'enable':
            if st['profile'] is None:
                st['created'] += 1
                st['profile'] = ['own', st['created']]
            st['enabled'] = True
            return 0
        if op == 'disable':
            st['enabled'] = False
            return 0
        if st['enabled'] is None:
            if requested(None, argv):
                use('enable', argv)
            else:
                st['enabled'] = False
        return 1 if st['enabled'] else 0
    steps = []
    for r in case['runs']:
        for op in r.get('pre_use', []):
            code = use(op, host_argv)
            steps.append(('use ' + op, st['enabled'], st['profile'], code))
        for op in r.get('setup_uses', []):
            use(op, r['new_argv'])
        steps.append(('run ' + ' '.join(r['args']), st['enabled'], st['profile'], 0))
    final = use('decorate', host_argv)
    return steps, final


def kp_spec(case, o):
    steps, final = kp_expected(case, o)
    got = []
    for ob in o['seen']:
        for u in ob.get('pre', []):
            got.append((u['enabled'], u['profile'], u['code']))
        got.append((ob['enabled'], ob['profile'], 0))
    for (what, en, pr, code), (gen, gpr, gcode) in zip(steps, got):
        if (en, pr) != (gen, gpr):
            return 'after `%s` line_profiler.profile is (enabled=%r, _profile=%r); by its own rules (ordinary uses alone) it is (enabled=%r, _profile=%r)' % (
                what, gen, gpr, en, pr)
        if what == 'use decorate' and code != gcode:
            return '`%s` answered %r, the rules say %r' % (what, gcode, code)
    if o['use'] != final:
        return 'a decoration after the kernprof run(s) answered %s, the stand-alone rules say %s' % (
            o['use_err'] or ['its argument', 'a wrapper'][min(o['use'], 1)], ['its argument', 'a wrapper'][final])
    return None


def q_kp(case, o):
    init, b = case['init'], o['before']
    st = '(mk_state %s %s %s %s %s 0)' % (K.q_strs(b['argv']), core.coq_bool(init['argv_rebound']), K.q_strs(b['path']),
                                         core.coq_bool(init['path_rebound']), K.q_gp(init))
    acts, obs = [], []
    for r, ob in zip(case['runs'], o['seen']):
        for op, u in zip(r.get('pre_use', []), ob.get('pre', [])):
            acts.append(K.COQ_USE[op])
            obs.append('(%s, %s)' % (K.q_seen(u, b['threads']), core.coq_z(u['code'])))
        acts.append('ARun ' + K.q_run(r))
        obs.append('(%s, 0)' % K.q_seen(ob, b['threads']))
    return '(kp_case %s %s %s %s)' % (st, core.coq_list(acts), core.coq_list(obs), core.coq_z(o['use']))


KP_HEADER = '''From LP Require Import Prelude.Py Explicit.Base Gen.GlobalProfiler Cli.MainEffects Cli.MainEffectsProofs.
Definition kp_case (s : St) (acts : list act) (os : list (seen * Z)) (use : Z) : bool * bool :=
  (case_model_ok s acts os
   && Z.eqb (use_code (gp (exec_acts current s acts)) (cur (argv (exec_acts current s acts)))) use,
   decorator_spec_ok acts (cur (argv s)) (gp s) os
   && Z.eqb (use_code (user_gp acts (cur (argv s)) (gp s)) (cur (argv s))) use).
'''


def kp_sub_cases(tier):
    out = []
    wcs = [ALL_WC[i] for i in ((14, 15, 7, 9) if tier != 'thorough' else range(16))]
    for wc in wcs:
        out.append(dict(how='enable', prefix='setup_prof', env=None, args=[], wc=wc))
    out.append(dict(how='decorate', prefix=None, env='1', args=[], wc=ALL_WC[14]))
    out.append(dict(how='decorate', prefix=None, env=None, args=['--line-profile'], wc=ALL_WC[13]))
    out.append(dict(how='decorate', prefix=None, env='off', args=['x'], wc=ALL_WC[15]))
    if tier == 'thorough':
        out.append(dict(how='enable', prefix='bench.v2', env='0', args=['a'], wc=ALL_WC[15]))
    # programs that use the importable decorator themselves (through both import paths) under kernprof, every mode, with and
    # without the stand-alone switch among the PROGRAM's arguments / in the environment: kernprof has taken the decorator over
    for mode in (['-l'], ['-b'], [], ['-l', '-b']):
        for env, args in ((None, []), (None, ['--line-profile']), ('1', []), (None, ['x', '--line_profile'])):
            out.append(dict(how=None, prefix=None, env=env, args=args, wc=ALL_WC[15], explicit=True, mode=mode))
    out.append(dict(how='enable', prefix='setup_prof', env=None, args=[], wc=ALL_WC[15], explicit=True, mode=['-l']))
    return out


def subops_cases(tier):
    """whole interpreter runs in which profiling is switched on but NOTHING is decorated while it is on (and controls),
    crossed with the 16 on/off combinations of the outputs"""
    seqs = [[['enable', None]], [['decorate', None], ['enable', None]], [['enable', None], ['disable', None], ['decorate', None]],
            [['enable', 'pre.fix'], ['disable', None], ['decorate', None], ['enable', None]],
            [['enable', None], ['decorate', None]], [['decorate', None]]]
    if tier == 'thorough':
        seqs += [[['disable', None], ['enable', None]], [['enable', None], ['enable', 'q'], ['disable', None]], [['decorate', None], ['enable', None], ['disable', None], ['decorate', None]]]
    out = []
    for ops in seqs:
        for wc in ALL_WC:
            out.append(dict(env=None, args=[], ops=ops, wc=wc))
    out.append(dict(env='1', args=[], ops=[['disable', None], ['decorate', None], ['enable', None]], wc=ALL_WC[15]))
    # the decorator imported through both paths (line_profiler.profile, line_profiler.explicit_profiler.profile) in one program
    for env, ops in (('1', [['decorate', None], ['decorate_sub', None]]), ('1', [['decorate_sub', None], ['decorate', None]]),
                     (None, [['decorate_sub', None], ['enable', None], ['decorate', None], ['decorate_sub', None]]),
                     (None, [['enable', None], ['decorate_sub', None], ['disable', None], ['decorate', None]])):
        for wc in (ALL_WC if tier == 'thorough' else [ALL_WC[15], ALL_WC[9]]):
            out.append(dict(env=env, args=[], ops=ops, wc=wc))
    # the report options (show_config) and what is in the profiler: a decorated, never-called function without a source file
    shows = [dict(stripzeros=0), dict(stripzeros=0, details=1), dict(details=1, rich=0), dict(sort=0, summarize=0)]
    for ops in ([['enable', None], ['decorate_ghost', None]], [['enable', None], ['decorate_ghost', None], ['decorate', None]]):
        for show in (shows if tier == 'thorough' else shows[:2]):
            for wc in (ALL_WC if tier == 'thorough' else [ALL_WC[i] for i in (15, 14, 6, 3, 9, 1)]):
                out.append(dict(env=None, args=[], ops=ops, wc=wc, show=show))
    # the encoding of the interpreter's stdout (PYTHONIOENCODING): legacy code pages, with and without the stdout report
    for enc in ['ascii', 'latin-1', 'cp1252'] + (['utf-8', 'utf-16'] if tier == 'thorough' else []):
        for wc in (ALL_WC if tier == 'thorough' else [ALL_WC[i] for i in (15, 14, 9, 7)]):
            out.append(dict(env='1', args=[], ops=[['decorate', None]], wc=wc, ioenc=enc))
    return out


def subops_spec(c, o):
    if o['rc'] != 0 or o['obs'] is None:
        return 'interpreter run failed rc=%s %s' % (o['rc'], o['stderr'][-200:])
    exp, active, prefix = spec_history(c['env'], ['prog.py'] + c['args'], c['ops'])
    sames = [e[0] == 'same' for e in exp if e[0] != 'unit']
    if o['obs']['sames'] != sames:
        return 'decorations returned-their-argument = %r, demanded %r' % (o['obs']['sames'], sames)
    want = expected_seen(c['wc'], prefix, o['ts']) if active else []
    if o['seen'] != want or o['traceback']:
        return 'history %s: at exit %r appeared (traceback on stderr: %s), demanded %r' % (
            ' '.join(op for op, _ in c['ops']), o['seen'], o['traceback'], want)
    return None


def q_subops(c, o):
    if o['rc'] != 0 or o['obs'] is None or o['traceback']:
        return '(false, false)'
    argv = core.coq_list([core.coq_str(a) for a in ['prog.py'] + c['args']])
    return '(sub_case %s %s %s %s %s %s %s)' % (q_ostr(c['env']), argv, q_ops(c['ops']), q_wc(c['wc']), core.coq_str(o['ts']),
                                               core.coq_list([core.coq_bool(x) for x in o['obs']['sames']]), q_seen(o['seen']))


def kp_sub_ops(c):
    if not c['how']:
        return []           # no setup file: nothing happens outside kernprof's take-over
    return ([['enable', c['prefix']]] if c['how'] == 'enable' else []) + [['decorate', None]]


def kp_sub_spec(c, o):
    if o['rc'] != 0 or o['obs'] is None or not o['kernprof_out']:
        return 'kernprof run failed rc=%s %s' % (o['rc'], o['stderr'][-200:])
    if c.get('explicit'):
        o2 = o['obs2']
        if not o2 or not (o2['one_object'] and o2['taken_over'] and o2['same_profiler'] and o2['wrapped'] == [True, True]):
            return ('under kernprof %s: a program using the importable decorator (both import paths) saw %r; demanded: one decorator '
                    'object, taken over by kernprof, both functions handed to kernprof\'s profiler' % (' '.join(c.get('mode', ['-l'])), o2))
    exp, active, prefix = spec_history(c['env'], ['script.py'] + c['args'], kp_sub_ops(c))
    if c['how'] and o['obs']['same_h'] != (not active):
        return 'decoration in the setup file returned-its-argument = %r, demanded %r' % (o['obs']['same_h'], not active)
    want = expected_seen(c['wc'], prefix, o['ts']) if active else []
    if o['seen'] != want or o['traceback']:
        return 'under kernprof -s: at exit %r appeared (traceback on stderr: %s), demanded %r' % (o['seen'], o['traceback'], want)
    return None


def q_kp_sub(c, o):
    if o['rc'] != 0 or o['obs'] is None or o['traceback']:
        return '(false, false)'
    argv = core.coq_list([core.coq_str(a) for a in ['script.py'] + c['args']])
    sames = [core.coq_bool(o['obs']['same_h'])] if c['how'] else []
    return '(sub_case %s %s %s %s %s %s %s)' % (q_ostr(c['env']), argv, q_ops(kp_sub_ops(c)), q_wc(c['wc']), core.coq_str(o['ts']),
                                               core.coq_list(sames), q_seen(o['seen']))


# ---- case generation -----------------------------------------------------------------------
def gen_cases(tier, rnd):
    thorough = tier == 'thorough'
    hist, handoff, model_only = [], [], []
    dec = ['decorate', None]
    # 1. the decision table, complete: every env spelling x every argv
    for env in ENVS:
        for argv in ARGVS:
            hist.append(dict(env=env, argv=argv, ops=[dec], group='table'))
    for env in ENVS_NONASCII:
        hist.append(dict(env=env, argv=['prog'], ops=[dec, dec], group='table-nonascii'))
    # 2. every history up to a length, under four / eight worlds
    maxlen = 5 if thorough else 4
    worlds = [(None, ['prog']), ('1', ['prog']), ('OFF', ['prog']), (None, ['prog', '--line-profile'])]
    if thorough:
        worlds += [('No', ['prog', '--line_profile']), ('false ', ['prog']), ('', []), ('0', ['prog', '--line-profile=1'])]
    for n in range(0, maxlen + 1):
        for seq in itertools.product(ALPHABET, repeat=n):
            for env, argv in worlds:
                hist.append(dict(env=env, argv=argv, ops=[list(x) for x in seq], group='histories'))
    # 3. random longer histories over the whole table
    for _ in range(10000 if thorough else 300):
        n = rnd.randint(1, 9)
        ops = [list(rnd.choice(ALPHABET + [dec, dec])) for _ in range(n)]
        for o in ops:
            if o[0] == 'enable' and rnd.random() < 0.3:
                o[1] = rnd.choice(['q', 'out/x', 'my.prof', 'p'])
        hist.append(dict(env=rnd.choice(ENVS), argv=rnd.choice(ARGVS), ops=ops, group='random'))
    # 3b. what is decorated is a temporary wrapper object (functools.partial / staticmethod around a fresh function):
    #     all histories up to length 3 over enable / disable / decorate-function / decorate-partial / decorate-staticmethod
    shapes = [['enable', None], ['disable', None], ['decorate', None], ['decorate', 'partial'], ['decorate', 'static']]
    for n in range(1, 4 if not thorough else 5):
        for seq in itertools.product(shapes, repeat=n):
            if not any(x[1] in ('partial', 'static') for x in seq):
                continue
            for env, argv in [('1', ['prog']), (None, ['prog'])]:
                hist.append(dict(env=env, argv=argv, ops=[list(x) for x in seq], group='shapes'))
    # 4. kernprof hand-over, then every user history up to a length
    hl = 4 if thorough else 3
    hworlds = [(None, ['prog']), ('1', ['prog'])] + ([('off', ['prog', '--line-profile']), ('NO', [])] if thorough else [])
    for n in range(0, hl + 1):
        for seq in itertools.product(ALPHABET, repeat=n):
            for env, argv in hworlds:
                handoff.append(dict(env=env, argv=argv, ops=[list(x) for x in seq], group='handoff'))
    # 5. model-only rows (outside the property's quantifier, but C19 relies on the model there):
    #    _kernprof_overwrite(None) as kernprof.main leaves it, then ordinary use
    for pre in ([], [['enable', None]], [dec], [['overwrite', None]]):
        for post in ([dec], [['enable', None], dec], [['disable', None], dec], [dec, dec]):
            for env, argv in [(None, ['prog']), ('1', ['prog'])]:
                model_only.append(dict(env=env, argv=argv, ops=pre + [['overwrite_none', None]] + post, group='overwrite-none'))
    # 6. show(): all 16 on/off combinations x prefixes
    # prefixes whose last component contains dots (str concatenation vs Path.with_suffix), a directory with a dot
    prefixes = [None, 'p', 'my.prof', 'a_b', 'bench.v2', 'run-1.5', 'out.d/profile', 'x.tar.gz', '.hidden'] if thorough \
        else [None, 'bench.v2', 'out.d/run-1.5']
    show = [dict(wc=wc, prefix=p) for p in prefixes for wc in ALL_WC]
    show += [dict(wc=wc, prefix='empty.run', decorated=False) for wc in ALL_WC]     # active, but nothing was ever decorated
    # 7. whole interpreter runs
    sub = []
    sub_envs = [None, '1', '0', 'OFF', 'No', 'yes', 'false ', '', 'FALSE'] if thorough else [None, '1', 'OFF', 'false ']
    sub_args = [[], ['--line-profile'], ['--line_profile'], ['--line-profile=1'], ['x', '--line-profile']] if thorough \
        else [[], ['--line_profile'], ['--line-profile=1']]
    for env in sub_envs:
        for args in sub_args:
            sub.append(dict(env=env, args=args, pre='none', mid='none', wc=rnd.choice(ALL_WC), prefix=None))
    for pre, mid in [('enable', 'none'), ('enable', 'disable'), ('disable', 'none'), ('disable', 'enable'),
                     ('none', 'disable'), ('none', 'enable'), ('enable_prefix', 'none'), ('enable_prefix', 'disable')]:
        for env in ([None, '1', 'off'] if thorough else [None, '1']):
            sub.append(dict(env=env, args=[], pre=pre, mid=mid, wc=rnd.choice(ALL_WC), prefix=rnd.choice(['pfx', 'pfx.v2', 'a.b_c'])))
    for wc in ALL_WC:
        sub.append(dict(env='1', args=[], pre='none', mid='none', wc=wc, prefix=None))
        sub.append(dict(env=None, args=[], pre='enable_prefix', mid='none', wc=wc, prefix='bench.v2'))
        if thorough:
            sub.append(dict(env=None, args=['--line-profile'], pre='enable_prefix', mid='none', wc=wc, prefix='o.x'))
            sub.append(dict(env='off', args=[], pre='none', mid='none', wc=wc, prefix=None))
    return dict(hist=hist, handoff=handoff, model_only=model_only, show=show, sub=sub)


# ---- Coq encoding ---------------------------------------------------------------------------
def is_ascii(s):
    return s is None or all(32 <= ord(ch) < 127 for ch in s)


def q_ostr(s):
    return core.coq_opt(core.coq_str(s) if s is not None else None)


def q_ops(ops):
    out = []
    k = 0
    for kind, arg in ops:
        if kind == 'enable':
            out.append('OpEnable %s' % q_ostr(arg))
        elif kind == 'disable':
            out.append('OpDisable')
        elif kind in ('decorate', 'decorate_ghost', 'decorate_sub'):
            k += 1
            out.append('OpDecorate (Fn %d)' % k)
        elif kind == 'overwrite':
            out.append('OpOverwrite (Some (Ext %d))' % EXT_ID)
        elif kind == 'overwrite_none':
            out.append('OpOverwrite None')
        else:
            raise ValueError(kind)
    return core.coq_list(out)


def q_prof(p):
    if p is None:
        return 'None'
    if p[0] == 'own':
        return '(Some (Own %d))' % p[1]
    if p[0] == 'ext':
        return '(Some (Ext %d))' % p[1]
    return '(Some (Ext (-1)))'


def q_obs(o):
    if o[0] == 'unit':
        return 'ObsUnit'
    if o[0] == 'same':
        return 'ObsRet (Fn %d)' % o[1]
    if o[0] == 'wrapped':
        return 'ObsRet (Wrapped (%s %d) (Fn %d))' % ('Own' if o[2] == 'own' else 'Ext', o[3], o[1])
    if o[0] == 'err':
        return 'ObsErr %s' % (o[1] if o[1] in ('TypeError', 'ValueError', 'IndexError', 'AssertionError') else 'OtherError')
    return 'ObsErr OutOfFuel'      # something the model never answers: forces a mismatch


def q_observed(o):
    en = 'None' if o['enabled'] is None else '(Some %s)' % core.coq_bool(bool(o['enabled']))
    return '(mkObserved %s %s %s %s %s %s)' % (core.coq_list([q_obs(x) for x in o['obs']]), en, q_prof(o['profile']),
                                              core.coq_str(o['prefix']), core.coq_z(o['created']), core.coq_z(o['atexit']))


def q_wc(wc):
    return '(mkWC %s %s %s %s)' % tuple(core.coq_bool(wc[k]) for k in WC_KEYS)


def q_seen(seen):
    return core.coq_list(['(%s, %s)' % (core.coq_z(c), q_ostr(n)) for c, n in seen])


def q_row(kind, c, o):
    argv = core.coq_list([core.coq_str(a) for a in c.get('argv', [])])
    if kind == 'hist':
        return '(hist_case %s %s %s %s)' % (q_ostr(c['env']), argv, q_ops(c['ops']), q_observed(o))
    if kind == 'handoff':
        return '(handoff_case %s %s %s %s %s)' % (q_ostr(c['env']), argv, core.coq_z(EXT_ID), q_ops(c['ops']), q_observed(o))
    if kind == 'model_only':
        return '(history_model_ok %s %s %s %s, true)' % (q_ostr(c['env']), argv, q_ops(c['ops']), q_observed(o))
    if kind == 'show':
        if o['err']:
            return '(false, false)'
        return '(show_case %s %s %s %s)' % (core.coq_str(o['prefix']), core.coq_str(o['ts']), q_wc(c['wc']), q_seen(o['seen']))
    if kind == 'sub':
        if o['rc'] != 0 or o['obs'] is None:
            return '(false, false)'
        argv = core.coq_list([core.coq_str(a) for a in ['prog.py'] + c['args']])
        sames = core.coq_list([core.coq_bool(o['obs']['same_f']), core.coq_bool(o['obs']['same_g'])])
        return '(sub_case %s %s %s %s %s %s %s)' % (q_ostr(c['env']), argv, q_ops(sub_ops(c)), q_wc(c['wc']),
                                                   core.coq_str(o['ts']), sames, q_seen(o['seen']))
    raise ValueError(kind)


def run_driver(impl, cases, tmp):
    payload = dict(tmp=str(tmp),
                   hist=cases['hist'] + [dict(c, ops=[['overwrite', None]] + c['ops']) for c in cases['handoff']] + cases['model_only'],
                   show=cases['show'], sub=cases['sub'], subkp=cases.get('subkp', []), subops=cases.get('subops', []))
    out = core.run_impl(impl, DRIVER, payload, timeout=1500)
    nh, no = len(cases['hist']), len(cases['handoff'])
    kp = []
    if cases.get('kernprof'):
        ktmp = (tmp / 'kp')
        ktmp.mkdir(parents=True, exist_ok=True)
        kp = K.run_driver(impl, cases['kernprof'], ktmp.resolve())
    return dict(hist=out['hist'][:nh], handoff=out['hist'][nh:nh + no], model_only=out['hist'][nh + no:],
                show=out['show'], sub=out['sub'], subkp=out.get('subkp', []), subops=out.get('subops', []), kernprof=kp)


def run(tier, seed):
    rnd = core.rng(seed, PROP)
    res = core.Result(PROP)
    gen = core.regenerate(['GlobalProfiler.v'])
    res.obl = core.check_obligations(PROP, MODULE, THEOREMS)
    if gen.get('GlobalProfiler.v'):
        res.obl['failures'].append('translator refused the source: ' + gen['GlobalProfiler.v'])
    impl = core.build_impl()
    tmp = core.SCRATCH_ROOT / 'tmp' / ('c14-%d-%d' % (seed, os.getpid()))      # concurrent checks must not share it
    tmp.mkdir(parents=True, exist_ok=True)
    cases = gen_cases(tier, rnd)
    cases['kernprof'] = kp_cases(tier)
    cases['subkp'] = kp_sub_cases(tier)
    cases['subops'] = subops_cases(tier)
    try:
        out = run_driver(impl, cases, tmp)

        def search(budget):
            c2 = gen_cases('thorough', core.rng(seed + 1, PROP))
            c2['kernprof'] = kp_cases('thorough')
            c2['subkp'] = kp_sub_cases('thorough')
            c2['subops'] = subops_cases('thorough')
            o2 = run_driver(impl, c2, tmp)
            for kind in ('hist', 'handoff', 'show', 'sub', 'kernprof', 'subkp', 'subops'):
                for c, o in zip(c2[kind], o2[kind]):
                    why = py_spec(kind, c, o)
                    if why:
                        return dict(case=dict(c, kind=kind), impl=o, why=why + ' (search)', finding=None)
            return None
        res.search = search

        flat = []          # (kind, case, observation)
        for kind in ('hist', 'handoff', 'model_only', 'show', 'sub', 'subkp', 'subops', 'kernprof'):
            for c, o in zip(cases[kind], out[kind]):
                flat.append((kind, c, o))
        model_ok = not any('build of' in f or 'translator refused' in f for f in res.obl['failures'])
        py_only = 0
        seen_fail = set()
        if model_ok:
            rows = []      # (index into flat, coq text)
            kp_rows = []
            for i, (kind, c, o) in enumerate(flat):
                if kind == 'kernprof':
                    kp_rows.append((i, q_kp(c, o)))
                    continue
                if kind == 'subkp':
                    rows.append((i, q_kp_sub(c, o)))
                    continue
                if kind == 'subops':
                    rows.append((i, q_subops(c, o)))
                    continue
                strs = [c.get('env')] + list(c.get('argv', [])) + [x[1] for x in c.get('ops', [])] + [o.get('prefix')] if kind != 'sub' \
                    else [c['env']] + c['args']
                if not all(is_ascii(s) for s in strs if s is None or isinstance(s, str)):
                    py_only += 1
                    continue
                rows.append((i, q_row(kind, c, o)))
            per = 350
            chunks = core.chunks(rows, per)
            bodies = []
            for ch in chunks:
                body = 'Definition rows : list (bool * bool) := [\n' + ';\n'.join(t for _, t in ch) + '].\n'
                body += 'Eval vm_compute in (false_indices (map fst rows)).\nEval vm_compute in (false_indices (map snd rows)).\n'
                bodies.append(body)
            shards = core.run_shards('c14', 'From LP Require Import Prelude.Py Explicit.Base Gen.GlobalProfiler Explicit.GlobalProfiler.', bodies)
            kp_chunks = core.chunks(kp_rows, 120)
            kp_bodies = []
            for ch in kp_chunks:
                body = 'Definition rows : list (bool * bool) := [\n' + ';\n'.join(t for _, t in ch) + '].\n'
                body += 'Eval vm_compute in (false_indices (map fst rows)).\nEval vm_compute in (false_indices (map snd rows)).\n'
                kp_bodies.append(body)
            shards += core.run_shards('c14kp', KP_HEADER, kp_bodies)
            chunks = chunks + kp_chunks
            for k, sres in enumerate(shards):
                if sres[0] != 'ok' or len(sres[1]) != 2:
                    res.infra_errors.append('shard %d failed: %s' % (k, str(sres[1])[-600:]))
                    continue
                mism, sfail = sres[1]
                for j in mism:
                    kind, c, o = flat[chunks[k][j][0]]
                    res.mismatches.append(dict(case=dict(c, kind=kind), impl=o, model='differs (Gen/GlobalProfiler.v run / show model)'))
                for j in sfail:
                    i = chunks[k][j][0]
                    kind, c, o = flat[i]
                    seen_fail.add(i)
                    why = (py_spec(kind, c, o) if kind != 'model_only' else None) or 'Coq-side property predicate is false'
                    res.spec_fails.append(dict(case=dict(c, kind=kind), impl=o, why=why, finding=None))
        n_req = n_notreq = n_active = 0
        distinct = set()
        kinds = {}
        lens = {}
        for i, (kind, c, o) in enumerate(flat):
            kinds[kind] = kinds.get(kind, 0) + 1
            if kind in ('hist', 'handoff'):
                lens[len(c['ops'])] = lens.get(len(c['ops']), 0) + 1
                r = requested(c['env'], c['argv'])
                n_req += r
                n_notreq += not r
                n_active += spec_history(c['env'], c['argv'], c['ops'])[1]
                if any(k == 'decorate' for k, _ in c['ops']):
                    distinct.add((kind, c['env'], tuple(c['argv']), json.dumps(c['ops'])))
            elif kind in ('show', 'sub', 'subkp', 'subops'):
                distinct.add((kind, json.dumps(c, sort_keys=True)))
            elif kind == 'kernprof':
                distinct.add((kind, json.dumps([[r['args'], r.get('pre_use'), r.get('setup_uses')] for r in c['runs']])))
            if kind == 'model_only':
                continue
            why = py_spec(kind, c, o)
            if why and i not in seen_fail:
                res.spec_fails.append(dict(case=dict(c, kind=kind), impl=o, why=why, finding=None))
        res.coverage = dict(
            evaluations=len(flat), distinct_nontrivial=len(distinct),
            rule='non-trivial = a history with at least one decoration (distinct by world and op list), a show() '
                 'configuration, or a whole-interpreter run; complete enumeration of %d env spellings x %d argv lists '
                 '(decision table), of all enable/enable(prefix)/disable/decorate histories up to length %d under %d worlds, '
                 'of the 16 write_config subsets, of all user histories up to length %d after a kernprof hand-over; '
                 'plus seeded random histories up to length 9; plus, under kernprof: in-process runs of the real kernprof.main (3 modes x '
                 'program outcomes x setup files that enable / disable / decorate, with and without --line-profile among the '
                 'program\'s arguments, host uses before the run, two runs in a row) each followed by a host decoration, and '
                 '`python -m kernprof -l -s setup.py script.py` interpreter runs whose setup file asks for explicit profiling '
                 '(files at exit)'
                 % (len(ENVS), len(ARGVS), 5 if tier == 'thorough' else 4, 8 if tier == 'thorough' else 4,
                    4 if tier == 'thorough' else 3),
            exhaustive=True, case_kinds=kinds, history_length_histogram=lens,
            hypothesis_holds_on=dict(requested=n_req, not_requested=n_notreq, history_switches_profiling_on=n_active,
                                     user_history=kinds.get('hist', 0) + kinds.get('handoff', 0)),
            python_side_only=py_only,
            samples=[dict(case=flat[i][1], impl=flat[i][2]) for i in (0, len(cases['hist']) // 2, len(cases['hist']) - 1)]
            + [dict(case=cases['show'][5], impl=out['show'][5]), dict(case=cases['sub'][1], impl=out['sub'][1])],
            translated=['line_profiler/explicit_profiler.py::_FALSY_STRINGS, GlobalProfiler.__init__ constants, '
                        '_implicit_setup, enable, disable, __call__, _kernprof_overwrite -> Gen/GlobalProfiler.v'],
            trusted_base_extra=[
                'py2coq translator (+ the three extra forms in harness/py2coq/targets_explicit.py) and Prelude lower/py_in, '
                'validated per run by the tables above',
                'bindings in Explicit/Base.v: os.environ.get(f, \'\') as a lookup, sys.argv as a list, atexit.register and '
                'LineProfiler() as counters, self._profile(func) as "Wrapped p func" (TypeError on None); checked through '
                'the recording atexit / counting LineProfiler factory in the driver',
                'hand-modelled, tied by correspondence only: GlobalProfiler.show (all 16 subsets x prefixes, real files)',
                'interpreter exit runs each registered hook once (checked by the subprocess cases)',
                'env values are compared as byte strings; non-ASCII values are checked python-side only',
                'under kernprof: the hand effect model of kernprof.main (Cli/MainEffects.v, C19) and C19\'s in-process driver'])
        res.assumptions = ['os.environ / sys.argv are read at the first decoration and not changed concurrently',
                           'the decorated object is handed to the profiler as-is: what LineProfiler.__call__ does with it is C03/C16',
                           'output_prefix, write_config are only changed through enable(output_prefix=...) / before exit',
                           'histories are sequential (one thread)']
    finally:
        shutil.rmtree(tmp, ignore_errors=True)
    return res


def replay(path):
    data = json.load(open(path))
    impl = core.build_impl()
    c = dict(data['case'])
    kind = c.pop('kind', 'hist')
    tmp = core.SCRATCH_ROOT / 'tmp' / ('c14r-%d' % os.getpid())
    tmp.mkdir(parents=True, exist_ok=True)
    try:
        cases = dict(hist=[], handoff=[], model_only=[], show=[], sub=[], subkp=[], subops=[], kernprof=[])
        cases[kind] = [c]
        o = run_driver(impl, cases, tmp)[kind][0]
    finally:
        shutil.rmtree(tmp, ignore_errors=True)
    why = py_spec(kind, c, o) if kind != 'model_only' else None
    print(json.dumps(dict(case=c, impl=o, holds=why is None, why=why), indent=1))
    return 0 if why is None else 1
