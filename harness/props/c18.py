"""C18 - module names and paths are mapped the way the import system maps them.

Theorem side: Props/C18.v over the hand-written model Resolve/ModPath.v (util_static
helpers on a tree-shaped file-system model) and the specification Resolve/ModPathSpec.v
(PathFinder's parent-first resolution of regular packages and modules).
Tie: generated directory trees are written to disk; the REAL helpers run on them with
sys_path=[roots]; the model and the specification are evaluated inside Coq on an
encoding of the same tree and compared with the helpers' answers (mismatch), with the
real importlib PathFinder (validating the specification) and the property predicate is
evaluated on the helpers' own output (spec_fail)."""
import copy
import itertools
import json
import os

from harness import core

PROP = 'C18'
MODULE = 'Props.C18'
THEOREMS = ['C18_import_found_is_looked_up', 'C18_lookup_agrees_partial', 'C18_lookup_default_flags_partial',
            'C18_shadow_refuted', 'C18_missing_is_none', 'C18_lookup_is_real',
            'C18_roundtrip_partial', 'C18_roundtrip_default_partial', 'C18_roundtrip_root_package_refuted',
            'C18_package_listing', 'C18_package_listing_no_duplicates', 'C18_nonvacuous',
            'C18_listing_with_packages', 'C18_listed_names_keep_prefix', 'C18_selection_names_partial',
            'C18_selection_nonvacuous', 'C18_answers_depend_on_current_tree_only', 'C18_history_nonvacuous']
LEVEL = 'proof'
DRIVER = 'harness.drivers.c18'

# set to False if a search root that is itself a package directory is ruled to be
# outside the property's quantifier: such roots are then observed, not judged
ROOT_INIT_IN_QUANTIFIER = True

F_SHADOW = 'C18-shadowed-chain'
F_ROOTPKG = 'C18-root-inside-package'

NAMES = ['a', 'b', 'foo', 'foobar', 'foo_bar', 'pk', 'm', 'x1']
# module names that merely look like the special files, and private / hidden directory names
DUNDER_LOOKALIKES = ['conf__init__', 'x__init__', '__init__x', 'test__main__', 'run__main__', '__main__x', '_main__', '_init__']
MOD_NAMES = NAMES + DUNDER_LOOKALIKES + ['_priv']
DIR_NAMES = NAMES + ['_impl', '_core', 'x__init__']
# identifiers outside ASCII (PEP 3131) and directory names that are not identifiers at all
UNI_NAMES = ['gr\u00fcn', 'st\u00fcck', '\u6570\u636e', '\u00e9t\u00e9']
ODD_DIRS = UNI_NAMES + ['my-checkout', '3rdparty']
LOOKALIKE = {'foo': ['foobar', 'foo_bar'], 'foobar': ['foo', 'foo_bar'], 'foo_bar': ['foo', 'foobar'],
             'a': ['b', 'x1'], 'b': ['a'], 'pk': ['m'], 'm': ['pk'], 'x1': ['a']}
INIT, MAIN = '__init__.py', '__main__.py'


# ---------------------------------------------------------------------------- trees
# a tree is a dict name -> None (file) | dict (directory)
def gen_dir(rnd, depth, maxdepth, pkgish, weird_ok):
    d = {}
    if rnd.random() < (0.85 if pkgish else 0.15):
        d[INIT] = None
    if rnd.random() < 0.25:
        d[MAIN] = None
    for nm in rnd.sample(NAMES, rnd.randint(0, 3)):
        d[nm + '.py'] = None
    if rnd.random() < 0.3:
        for nm in rnd.sample(DUNDER_LOOKALIKES + ['_priv'], rnd.choice([1, 1, 2])):
            d[nm + '.py'] = None              # conf__init__.py, run__main__.py, ...: ordinary modules
    if rnd.random() < 0.15:
        d[rnd.choice(UNI_NAMES + ['3rd']) + '.py'] = None
    if depth < maxdepth and rnd.random() < 0.25:
        d[rnd.choice(ODD_DIRS)] = gen_dir(rnd, depth + 1, maxdepth, rnd.random() < 0.85, weird_ok)
    if depth < maxdepth and rnd.random() < 0.25:
        # a private sub-package, a hidden directory, a byte-code cache with stray files
        k = rnd.choice(['_impl', '_core', '_impl', '.tox', '__pycache__'])
        if k == '__pycache__':
            d[k] = {'m.cpython-312.pyc': None}
            if rnd.random() < 0.5:
                d[k]['stray.py'] = None
        else:
            d[k] = gen_dir(rnd, depth + 1, maxdepth, rnd.random() < 0.85, weird_ok)
    if depth < maxdepth:
        for nm in rnd.sample(NAMES, rnd.choice([0, 1, 1, 2, 2, 3])):
            d[nm] = gen_dir(rnd, depth + 1, maxdepth, rnd.random() < 0.8, weird_ok)
            if rnd.random() < 0.2:
                d[nm + '.py'] = None          # namesake file and directory
    r = rnd.random()
    if r < 0.25:
        d['data.txt'] = None
    elif r < 0.33:
        d['README'] = None
    elif r < 0.38:
        d['.hidden.py'] = None
    elif r < 0.43:
        d['a.b.py'] = None
    elif r < 0.46:
        d['.py'] = None
    elif r < 0.49 and weird_ok and INIT not in d:
        d[INIT] = {}                          # a DIRECTORY named __init__.py: outside the quantifier
    return d


def mutate(rnd, d, depth=0):
    """a shadowing copy: the same names with parts of the chain removed / replaced"""
    out = {}
    for k, v in d.items():
        r = rnd.random()
        if r < 0.22:
            continue
        if isinstance(v, dict):
            out[k] = mutate(rnd, v, depth + 1) if r < 0.85 else {}
        else:
            out[k] = None
    if rnd.random() < 0.3:
        out[rnd.choice(NAMES) + '.py'] = None
    return out


def has_weird(d):
    for k, v in d.items():
        if isinstance(v, dict):
            if k == INIT or has_weird(v):
                return True
    return False


def tget(t, p):
    for c in p:
        if not isinstance(t, dict) or c not in t:
            return 'missing'
        t = t[c]
    return t


def t_isfile(t, p):
    return tget(t, p) is None


def t_isdir(t, p):
    return isinstance(tget(t, p), dict)


def t_exists(t, p):
    return not (isinstance(tget(t, p), str))


def all_paths(t, pre=()):
    for k, v in t.items():
        yield list(pre) + [k], v
        if isinstance(v, dict):
            yield from all_paths(v, tuple(pre) + (k,))


def tree_lists(t):
    files = [p for p, v in all_paths(t) if v is None]
    dirs = [p for p, v in all_paths(t) if isinstance(v, dict)]
    return files, dirs


# Python mirror of the specification (used for the classifier, hypothesis counts and the
# search; the Coq definitions in ModPathSpec.v are what the shards evaluate)
def py_finder(t, d, c):
    if t_isfile(t, d + [c, INIT]):
        return ('pkg', d + [c])
    if t_isfile(t, d + [c + '.py']):
        return ('mod', d + [c + '.py'])
    if t_isdir(t, d + [c]):
        return ('ns',)
    return ('none',)


def py_import(t, roots, comps):
    search = roots
    for i, c in enumerate(comps):
        ns = False
        hit = None
        for d in search:
            f = py_finder(t, d, c)
            if f[0] in ('pkg', 'mod'):
                hit = f
                break
            if f[0] == 'ns':
                ns = True
        last = i == len(comps) - 1
        if hit is None:
            return ['ns'] if ns else ['none']
        if last:
            return ['found', hit[1], hit[0] == 'pkg']
        if hit[0] == 'mod':
            return ['none']
        search = [hit[1]]
    return ['none']


def py_no_shadow(t, roots, comps):
    for r in roots:
        if py_finder(t, r, comps[0])[0] in ('pkg', 'mod'):
            return py_import(t, [r], comps)[0] == 'found'
    return True


def spec_path(hi, p, is_pkg):
    if is_pkg:
        return p if hi else p + [INIT]
    if hi and p[-1] == INIT:
        return p[:-1]
    return p


def expected_listing(t, pkg):
    n = tget(t, pkg)
    if n is None:
        return [pkg]
    if not isinstance(n, dict):
        return []
    out = []

    def rec(d, pre):
        if INIT not in d:
            return
        for k, v in d.items():
            if v is None and os.path.splitext(k)[1] == '.py' and k != INIT:
                out.append(pre + [k])
            elif isinstance(v, dict):
                rec(v, pre + [k])
    rec(n, list(pkg))
    return out


def expected_listing_pkg(t, pkg):
    """package_modpaths(pkg, with_pkg=True): also the __init__.py of the package and its sub-packages"""
    n = tget(t, pkg)
    if n is None:
        return [pkg]
    if not isinstance(n, dict):
        return []
    out = []

    def rec(d, pre):
        if INIT not in d:
            return
        for k, v in d.items():
            if v is None and os.path.splitext(k)[1] == '.py':
                out.append(pre + [k])
            elif isinstance(v, dict):
                rec(v, pre + [k])
    rec(n, list(pkg))
    return out


def nice_subtree(n):
    """every name below is a regular one: directories dot-free, files <identifier>.py or not python at all"""
    if n is None:
        return True
    for k, v in n.items():
        if isinstance(v, dict):
            if '.' in k or not k or not nice_subtree(v):
                return False
        elif os.path.splitext(k)[1] == '.py' or k.startswith('.'):
            stem = k[:-3] if k.endswith('.py') else k
            if not stem or '.' in stem:
                return False
    return True


# ---------------------------------------------------------------------------- scenarios
def chains(t, root):
    """every dotted name that has some footprint below the root (packages or not)"""
    res = []

    def rec(d, pre, depth):
        for k, v in d.items():
            if isinstance(v, dict):
                if '.' not in k:
                    res.append(pre + [k])
                    if depth < 5:
                        rec(v, pre + [k], depth + 1)
            elif k.endswith('.py') and '.' not in k[:-3] and k[:-3]:
                res.append(pre + [k[:-3]])
    n = tget(t, root)
    if isinstance(n, dict):
        rec(n, [], 0)
    return res


def perturb(rnd, comps):
    c = list(comps)
    r = rnd.random()
    if r < 0.4:
        i = rnd.randrange(len(c))
        c[i] = rnd.choice(LOOKALIKE.get(c[i], NAMES))
    elif r < 0.7:
        c.append(rnd.choice(NAMES + ['__init__', '__main__'] + DUNDER_LOOKALIKES))
    elif r < 0.85 and len(c) > 1:
        del c[rnd.randrange(len(c))]
    else:
        c.insert(0, rnd.choice(NAMES))
    return c


FLAGS = [(True, False), (True, True), (False, False), (False, True)]


def select_queries(rnd, t, roots, names, n):
    """-p selections: dotted names of packages (nested depth first) and modules, paths, several at once"""
    real_roots = [r for r in roots if isinstance(tget(t, r), dict)]
    if not real_roots:
        return []
    qs = []
    pk = [c for c in names if any(t_isfile(t, r + c + [INIT]) for r in real_roots)]
    pk.sort(key=lambda c: -len(c))
    mods = [c for c in names if c not in pk]
    picks = pk[:max(1, n // 2)] + rnd.sample(pk, min(len(pk), max(1, n // 2))) + rnd.sample(mods, min(len(mods), 1))
    picks.append([rnd.choice(NAMES), 'nothing_here'])
    seen = []
    for c in picks:
        if c in seen:
            continue
        seen.append(c)
        r = rnd.random()
        if r < 0.8:
            script = list(rnd.choice(real_roots)) + ['script.py']
        else:
            # the script lives inside some directory of the tree (possibly a package)
            # (the script directory becomes a search root: roots have regular, dot-free names)
            ds = [p for p, v in all_paths(t) if isinstance(v, dict) and all('.' not in c for c in p)]
            script = list(rnd.choice(ds)) + ['script.py']
        qs.append(dict(kind='select', script=script, sys_path=[list(x) for x in roots],
                       entries=[dict(name='.'.join(c), comps=c)], judge=True))
    # by path: directories, files, something that does not exist; and several entries at once
    files, dirs = tree_lists(t)
    cand = [p for p in dirs if len(p) >= 2] + [p for p in files if p[-1].endswith('.py')]
    for p in rnd.sample(cand, min(len(cand), 2)) + [rnd.choice([['r0', 'no_such_dir'], ['r0', 'no_such.py']])]:
        qs.append(dict(kind='select', script=list(real_roots[0]) + ['script.py'], sys_path=[list(x) for x in roots],
                       entries=[dict(path=p)], judge=False))
    if len(seen) >= 2 and cand:
        ents = [dict(name='.'.join(c), comps=c) for c in rnd.sample(seen, 2)] + [dict(path=rnd.choice(cand))]
        rnd.shuffle(ents)
        script = list(real_roots[0]) + ['script.py']
        if files and rnd.random() < 0.3:
            script = rnd.choice(files)
            ents.append(dict(path=script))
        qs.append(dict(kind='select', script=script, sys_path=[list(x) for x in roots], entries=ents, judge=False))
    return qs


def make_queries(rnd, t, roots, nlook, nlist, nm2n):
    names = []
    for r in roots:
        for c in chains(t, r):
            if c not in names:
                names.append(c)
    if len(names) > nlook:
        # keep the deep ones, sample the rest
        names.sort(key=lambda c: -len(c))
        keep = names[:nlook // 3]
        names = keep + rnd.sample(names[nlook // 3:], nlook - len(keep))
    extra = []
    for c in rnd.sample(names, min(len(names), max(2, nlook // 4))) + [[rnd.choice(NAMES)]]:
        p = perturb(rnd, c)
        if p not in names and p not in extra:
            extra.append(p)
    qs = []
    for c in names + extra:
        allflags = rnd.random() < 0.3 or any('__init__' in x or '__main__' in x or '_main__' in x for x in c)
        for hi, hm in (FLAGS if allflags else FLAGS[:1]):
            default = (hi, hm) == (True, False)
            qs.append(dict(kind='lookup', name='.'.join(c), comps=c, hi=hi, hm=hm,
                           real=default, fms=default and rnd.random() < 0.5))
    files, dirs = tree_lists(t)
    lp = [[]] + dirs
    if len(lp) > nlist:
        lp = rnd.sample(lp, nlist)
    for p in lp:
        qs.append(dict(kind='list', path=p))
    if files:
        qs.append(dict(kind='list', path=rnd.choice(files)))
    qs.append(dict(kind='list', path=['r0', 'nonexistent']))
    for p in (rnd.sample(lp, min(len(lp), max(2, nlist // 2))) + ([rnd.choice(files)] if files else [])):
        qs.append(dict(kind='listpkg', path=p))
    qs += select_queries(rnd, t, roots, names, max(2, nlist // 3))
    mp = files + dirs
    if len(mp) > nm2n:
        mp = rnd.sample(mp, nm2n)
    for p in mp:
        hi, hm = rnd.choice(FLAGS) if rnd.random() < 0.5 else FLAGS[0]
        qs.append(dict(kind='m2n', path=p, hi=hi, hm=hm))
    qs.append(dict(kind='m2n', path=['r0', 'nonexistent.py'], hi=True, hm=False))
    return qs


def scenario_from_tree(t, roots, queries, tag, weird=None):
    files, dirs = tree_lists(t)
    return dict(tree=t, files=files, dirs=dirs, roots=roots, queries=queries, tag=tag,
                weird=has_weird(t) if weird is None else weird)


def gen_random_scenario(rnd, sizes):
    nroots = rnd.choice([1, 2, 2, 3])
    t = {}
    first = gen_dir(rnd, 0, rnd.choice([2, 3, 4, 4]), False, True)
    t['r0'] = first
    for i in range(1, nroots):
        if rnd.random() < 0.65:
            t['r%d' % i] = mutate(rnd, copy.deepcopy(t['r%d' % rnd.randrange(i)]))
        else:
            t['r%d' % i] = gen_dir(rnd, 0, rnd.choice([1, 2, 3]), False, True)
    roots = [['r%d' % i] for i in range(nroots)]
    r = rnd.random()
    if r < 0.08:
        roots.insert(rnd.randrange(len(roots) + 1), ['rmissing'])       # a search root that does not exist
    elif r < 0.14:
        t['rfile'] = None                                               # a search root that is a file
        roots.insert(rnd.randrange(len(roots) + 1), ['rfile'])
    elif r < 0.2:
        roots.append(list(roots[0]))                                    # the same root twice
    elif r < 0.28:
        # a root that is a package directory of another root (sub-directory as root)
        subs = [k for k, v in t['r0'].items() if isinstance(v, dict) and '.' not in k]    # roots have regular names
        if subs:
            roots.insert(rnd.randrange(len(roots) + 1), ['r0', rnd.choice(subs)])
    if rnd.random() < 0.5:
        rnd.shuffle(roots)
    return scenario_from_tree(t, roots, make_queries(rnd, t, roots, *sizes), 'random')


def evolve(rnd, t, roots):
    """one change of the tree between two moments of a history -> (new tree, what, wipe)"""
    t = copy.deepcopy(t)
    dirs = [p for p, v in all_paths(t) if isinstance(v, dict) and len(p) >= 2 and p[-1] != INIT]
    r = rnd.random()
    if r < 0.55 and dirs:
        for p in rnd.sample(dirs, min(len(dirs), rnd.choice([1, 1, 2]))):
            d = tget(t, p)
            if d.get(INIT, 0) is None:
                del d[INIT]                      # the directory stops being a package
            elif INIT not in d:
                d[INIT] = None                   # ... or becomes one
        return t, 'toggle-init', False
    if r < 0.7:
        alld = [p for p, v in all_paths(t) if isinstance(v, dict) and p[-1] != INIT]
        d = tget(t, rnd.choice(alld))
        mods = [k for k, v in d.items() if v is None and k.endswith('.py') and k != INIT]
        if mods and rnd.random() < 0.5:
            del d[rnd.choice(mods)]
        else:
            d[rnd.choice(MOD_NAMES) + '.py'] = None
        return t, 'module-file', False
    if r < 0.8 and dirs:
        p = rnd.choice(dirs)
        del tget(t, p[:-1])[p[-1]]
        return t, 'remove-subtree', False
    # another tree at the same place (a re-used directory name)
    new = {}
    for rt in roots:
        if len(rt) == 1 and isinstance(t.get(rt[0]), dict):
            new[rt[0]] = mutate(rnd, t[rt[0]]) if rnd.random() < 0.6 else gen_dir(rnd, 0, 3, False, False)
    for k, v in t.items():
        new.setdefault(k, v)
    return new, 'replace-tree', rnd.random() < 0.5


def requery(qs, t):
    """the questions of the previous moment that can be asked again"""
    out = []
    for q in qs:
        if q['kind'] in ('m2n', 'list', 'listpkg') and not t_exists(t, q['path']) and len(q['path']) > 1:
            continue
        q = copy.deepcopy(q)
        q['real'] = False
        out.append(q)
    return out


def gen_history(rnd, steps, sizes):
    """the same directory at several moments, queried at each of them inside one process"""
    nroots = rnd.choice([1, 1, 2])
    t = {'r%d' % i: gen_dir(rnd, 0, rnd.choice([2, 3, 3]), False, False) for i in range(nroots)}
    roots = [['r%d' % i] for i in range(nroots)]
    out, prev = [], []
    for k in range(steps):
        what, wipe = 'start', False
        if k:
            t, what, wipe = evolve(rnd, t, roots)
        qs = make_queries(rnd, t, roots, *sizes)
        files = [p for p, v in all_paths(t) if v is None and p[-1].endswith('.py')]
        for p in (files if len(files) <= 14 else rnd.sample(files, 14)):
            qs.append(dict(kind='m2n', path=p, hi=True, hm=False))
        keep = requery(prev, t)
        qs += keep if len(keep) <= 30 else rnd.sample(keep, 30)
        sc = scenario_from_tree(t, roots, qs, 'history:' + what)
        sc['continues'] = k > 0
        sc['wipe'] = wipe
        sc['hist'] = list(out)
        out.append(sc)
        prev = qs
    return out


def fixed_history():
    """a plain directory below a package becomes a package and stops being one again"""
    roots = [['r0']]
    t0 = {'r0': {'pkg': {INIT: None, 'a.py': None, 'tools': {'helper.py': None, 'deep': {INIT: None, 'z.py': None}}}}}
    t1 = copy.deepcopy(t0)
    t1['r0']['pkg']['tools'][INIT] = None
    t2 = copy.deepcopy(t0)
    t3 = {'r0': {'pkg': {'a.py': None, 'tools': {INIT: None, 'helper.py': None}}}}
    out = []
    for k, t in enumerate([t0, t1, t2, t3, t1]):
        qs = [dict(kind='m2n', path=p, hi=True, hm=False) for p, v in all_paths(t) if v is None]
        qs += [dict(kind='lookup', name=n, comps=n.split('.'), hi=True, hm=False, real=False, fms=False)
               for n in ('pkg.tools.helper', 'pkg.tools', 'pkg.a', 'pkg.tools.deep.z', 'tools.helper')]
        qs += [dict(kind='list', path=['r0', 'pkg']), dict(kind='listpkg', path=['r0', 'pkg']),
               dict(kind='listpkg', path=['r0', 'pkg', 'tools'])]
        qs += [dict(kind='select', script=['r0', 'script.py'], sys_path=roots, entries=[dict(name=n, comps=n.split('.'))], judge=True)
               for n in ('pkg', 'pkg.tools')]
        sc = scenario_from_tree(t, roots, qs, 'history:fixed')
        sc['continues'] = k > 0
        sc['wipe'] = k == 3
        sc['hist'] = list(out)
        out.append(sc)
    return out


def fixed_scenarios():
    """hand-written layouts: the refutation witnesses, namesakes, look-alikes, depth 4"""
    out = []
    # the witness of C18_shadow_refuted
    t = {'r1': {'a': {INIT: None}}, 'r2': {'a': {INIT: None, 'b.py': None}}}
    q = [dict(kind='lookup', name=n, comps=n.split('.'), hi=True, hm=False, real=True, fms=True) for n in ('a', 'a.b', 'a.c')]
    out.append(scenario_from_tree(t, [['r1'], ['r2']], q, 'witness-shadow'))
    # the same with the first root holding a module file a.py
    t = {'r1': {'a.py': None}, 'r2': {'a': {INIT: None, 'b.py': None}}}
    out.append(scenario_from_tree(t, [['r1'], ['r2']], copy.deepcopy(q), 'witness-shadow-module'))
    # the witness of C18_roundtrip_root_package_refuted
    t = {'r0': {INIT: None, 'sib.py': None, 'sub': {INIT: None, 'm.py': None}}}
    q2 = [dict(kind='lookup', name=n, comps=n.split('.'), hi=True, hm=False, real=True, fms=False) for n in ('sib', 'sub', 'sub.m')]
    out.append(scenario_from_tree(t, [['r0']], q2, 'witness-root-package'))
    # namesake file and directory, look-alike names, __init__/__main__, depth 4
    t = {'r0': {'a.py': None, 'a': {'b.py': None},
                'foo': {INIT: None, MAIN: None, 'foobar.py': None, 'foo_bar': {INIT: None, 'foo.py': None}},
                'foobar.py': None, 'foo_bar': {'x.py': None},
                'pk': {INIT: None, 'a': {INIT: None, 'b': {INIT: None, 'm': {INIT: None, MAIN: None, 'x1.py': None}}},
                       'nons': {'y.py': None, 'deep': {INIT: None, 'z.py': None}}, 'data.txt': None}},
         'r1': {'a': {INIT: None, 'b.py': None}, 'foo.py': None, 'foobar': {INIT: None}}}
    names = ['a', 'a.b', 'foo', 'foo.__main__', 'foo.__init__', 'foo.foobar', 'foo.foo_bar', 'foo.foo_bar.foo', 'foobar',
             'foo_bar', 'foo_bar.x', 'pk.a.b.m', 'pk.a.b.m.x1', 'pk.a.b.m.__main__', 'pk.nons.y', 'pk.nons.deep.z', 'pk.nons',
             'foo.foo', 'fo', 'foob', 'pk.a.b.m.x1.q', '__init__', '__main__', 'pk.__init__.a']
    q3 = []
    for n in names:
        for hi, hm in FLAGS:
            q3.append(dict(kind='lookup', name=n, comps=n.split('.'), hi=hi, hm=hm, real=(hi, hm) == FLAGS[0], fms=(hi, hm) == FLAGS[0]))
    files, dirs = tree_lists(t)
    q3 += [dict(kind='list', path=p) for p in [[]] + dirs + files[:3]]
    q3 += [dict(kind='m2n', path=p, hi=hi, hm=hm) for p in files + dirs for hi, hm in FLAGS]
    q3 += [dict(kind='listpkg', path=p) for p in [[]] + dirs + files[:3]]
    for n in ('pk', 'pk.a', 'pk.a.b', 'pk.a.b.m', 'pk.a.b.m.x1', 'foo', 'foo.foo_bar', 'foo_bar', 'a', 'foobar', 'pk.nons', 'nowhere.x'):
        q3.append(dict(kind='select', script=['r0', 'script.py'], sys_path=[['r0'], ['r1']],
                       entries=[dict(name=n, comps=n.split('.'))], judge=True))
    for p in (['r0', 'pk', 'a'], ['r0', 'pk', 'a', 'b'], ['r0', 'pk', 'a', 'b', 'm', 'x1.py'], ['r0', 'foo'], ['r0', 'a'], ['r0', 'a.py'], ['r0', 'zz']):
        q3.append(dict(kind='select', script=['r0', 'script.py'], sys_path=[['r0'], ['r1']], entries=[dict(path=p)], judge=False))
    q3.append(dict(kind='select', script=['r0', 'foo', 'script.py'], sys_path=[['r0'], ['r1']],
                   entries=[dict(name='pk.a.b', comps=['pk', 'a', 'b']), dict(path=['r0', 'foo']), dict(name='a.b', comps=['a', 'b']),
                            dict(path=['r0', 'foo', 'script.py']), dict(name='pk.a', comps=['pk', 'a'])], judge=False))
    out.append(scenario_from_tree(t, [['r0'], ['r1']], q3, 'fixed-layout'))
    # nested packages with a top-level look-alike of an inner package
    t = {'r0': {'sub': {INIT: None, 'b.py': None},
                'pkg': {INIT: None, 'a.py': None,
                        'sub': {INIT: None, 'b.py': None,
                                'deep': {INIT: None, 'c.py': None, 'deeper': {INIT: None, 'd.py': None, MAIN: None}},
                                'plain': {'e.py': None}}}}}
    q4 = []
    for n in ('pkg', 'pkg.sub', 'pkg.sub.deep', 'pkg.sub.deep.deeper', 'pkg.sub.deep.c', 'sub', 'pkg.sub.plain'):
        q4.append(dict(kind='select', script=['r0', 'script.py'], sys_path=[['r0']], entries=[dict(name=n, comps=n.split('.'))], judge=True))
    for p in (['r0', 'pkg'], ['r0', 'pkg', 'sub'], ['r0', 'pkg', 'sub', 'deep'], ['r0', 'pkg', 'sub', 'deep', 'c.py'], ['r0', 'pkg', 'sub', 'plain']):
        q4.append(dict(kind='select', script=['r0', 'script.py'], sys_path=[['r0']], entries=[dict(path=p)], judge=False))
        q4.append(dict(kind='listpkg', path=p))
    out.append(scenario_from_tree(t, [['r0']], q4, 'fixed-nested'))
    # module files whose names merely end in / contain the special names; private and hidden sub-directories
    t = {'r0': {'test__init__.py': None, 'run__main__.py': None, '__init__x.py': None, '_main__.py': None,
                'pkg': {INIT: None, MAIN: None, 'conf__init__.py': None, 'run__main__.py': None, 'x__init__.py': None, '__main__x.py': None,
                        '_impl': {INIT: None, 'core.py': None, '_deep': {INIT: None, 'z.py': None}},
                        'x__init__': {INIT: None, 'y.py': None}},
                'pk2': {INIT: None, 'a.py': None, '.tox': {INIT: None, 'h.py': None, 'sub': {INIT: None, 'g.py': None}},
                        '__pycache__': {'a.cpython-312.pyc': None, 'stray.py': None}, '_core': {'nopkg.py': None}}}}
    q5 = []
    for n in ('test__init__', 'run__main__', '__init__x', '_main__', 'pkg.conf__init__', 'pkg.run__main__', 'pkg.x__init__', 'pkg.__main__x',
              'pkg.__main__', 'pkg._impl', 'pkg._impl.core', 'pkg._impl._deep.z', 'pkg.x__init__.y', 'pk2._core.nopkg', 'pk2.__pycache__.stray', 'pkg.conf'):
        for hi, hm in FLAGS:
            q5.append(dict(kind='lookup', name=n, comps=n.split('.'), hi=hi, hm=hm, real=(hi, hm) == FLAGS[0], fms=(hi, hm) == FLAGS[0]))
    files, dirs = tree_lists(t)
    q5 += [dict(kind='m2n', path=p, hi=hi, hm=hm) for p in files for hi, hm in FLAGS]
    q5 += [dict(kind=k, path=p) for p in dirs for k in ('list', 'listpkg')]
    for n in ('pkg', 'pkg._impl', 'pkg._impl._deep', 'pk2', 'pkg.conf__init__', 'pkg.x__init__', 'test__init__'):
        q5.append(dict(kind='select', script=['r0', 'script.py'], sys_path=[['r0']], entries=[dict(name=n, comps=n.split('.'))], judge=True))
    for p in (['r0', 'pkg'], ['r0', 'pkg', '_impl'], ['r0', 'pk2'], ['r0', 'pk2', '.tox'], ['r0', 'pkg', 'conf__init__.py']):
        q5.append(dict(kind='select', script=['r0', 'script.py'], sys_path=[['r0']], entries=[dict(path=p)], judge=False))
    out.append(scenario_from_tree(t, [['r0']], q5, 'fixed-lookalike-private'))
    # packages named with non-ASCII identifiers, and directories whose names are not identifiers
    g, st, sj, ete = UNI_NAMES
    t = {'r0': {g: {INIT: None, 'mod.py': None, 'part': {INIT: None, 'mod.py': None, MAIN: None}},
                'plain2': {INIT: None, st: {INIT: None, 'mod.py': None, sj: {INIT: None, ete + '.py': None}}},
                sj: {INIT: None, ete + '.py': None}, ete + '.py': None,
                'my-checkout': {INIT: None, 'm.py': None, 'sub': {INIT: None, 'x.py': None}},
                '3rdparty': {INIT: None, 'lib.py': None, g: {INIT: None, 'y.py': None}}}}
    q6 = []
    names6 = [g, g + '.mod', g + '.part.mod', g + '.part.__main__', 'plain2.' + st + '.mod', 'plain2.' + st + '.' + sj + '.' + ete, sj + '.' + ete, ete,
              'my-checkout.m', 'my-checkout.sub.x', '3rdparty.lib', '3rdparty.' + g + '.y', g + '.nothing', 'grun.mod']
    for n in names6:
        for hi, hm in FLAGS[:1] + (FLAGS[1:] if n.endswith('__main__') else []):
            q6.append(dict(kind='lookup', name=n, comps=n.split('.'), hi=hi, hm=hm, real=(hi, hm) == FLAGS[0], fms=False))
    files, dirs = tree_lists(t)
    q6 += [dict(kind='m2n', path=p, hi=True, hm=False) for p in files + dirs]
    q6 += [dict(kind=k, path=p) for p in dirs for k in ('list', 'listpkg')]
    for n in (g, g + '.part', 'plain2', 'plain2.' + st, 'my-checkout', '3rdparty', sj):
        q6.append(dict(kind='select', script=['r0', 'script.py'], sys_path=[['r0']], entries=[dict(name=n, comps=n.split('.'))], judge=True))
    for p in (['r0', g], ['r0', 'plain2', st], ['r0', 'my-checkout', 'sub']):
        q6.append(dict(kind='select', script=['r0', 'script.py'], sys_path=[['r0']], entries=[dict(path=p)], judge=False))
    out.append(scenario_from_tree(t, [['r0']], q6, 'fixed-unicode-odd-names'))
    return out


MICRO_FILES = [['a', INIT], ['a', 'b.py'], ['a', 'b', INIT], ['a.py']]
MICRO_FILES_THOROUGH = MICRO_FILES + [['a', 'b', 'c.py']]


def micro_scenarios(tier):
    """every tree over a small universe of files in two roots (exhaustive)"""
    per_root = MICRO_FILES_THOROUGH if tier == 'thorough' else MICRO_FILES
    universe = [[r] + f for r in ('r0', 'r1') for f in per_root]
    names = ['a', 'a.b'] + (['a.b.c'] if tier == 'thorough' else [])
    out = []
    for mask in range(1 << len(universe)):
        t = {'r0': {}, 'r1': {}}
        for i, f in enumerate(universe):
            if mask >> i & 1:
                d = t
                for c in f[:-1]:
                    d = d.setdefault(c, {})
                d[f[-1]] = None
        q = [dict(kind='lookup', name=n, comps=n.split('.'), hi=True, hm=False, real=(mask % 4 == 0), fms=False) for n in names]
        q.append(dict(kind='list', path=['r0', 'a']))
        out.append(scenario_from_tree(t, [['r0'], ['r1']], q, 'micro', weird=False))
    return out


def gen_scenarios(tier, rnd):
    n = 60 if tier == 'quick' else 1500
    sizes = (24, 8, 8) if tier == 'quick' else (30, 10, 10)
    sc = fixed_scenarios() + micro_scenarios(tier)
    sc += [gen_random_scenario(rnd, sizes) for _ in range(n)]
    sc += fixed_history()
    for _ in range(24 if tier == 'quick' else 400):
        sc += gen_history(rnd, rnd.choice([3, 4]), (8, 3, 3))
    return sc


# ---------------------------------------------------------------------------- judging
def answering_root(sc, path):
    """index of the first root that is a prefix of the helper's answer"""
    best = None
    for i, r in enumerate(sc['roots']):
        if path[:len(r)] == r and (best is None or len(r) > len(sc['roots'][best])):
            best = i
    return best


def classify_lookup(sc, q, r):
    """map a failing lookup to a known-finding id, only on its exact signature"""
    t, roots, comps = sc['tree'], sc['roots'], q['comps']
    if r['pf'][0] == 'none' and r['raw'] is not None:
        # first root containing the top-level name lacks the rest of the chain while a later root has it
        first = next((i for i, rt in enumerate(roots) if py_finder(t, rt, comps[0])[0] in ('pkg', 'mod')), None)
        if first is not None and py_import(t, [roots[first]], comps)[0] != 'found':
            later = [i for i, rt in enumerate(roots) if i > first and py_import(t, [rt], comps)[0] == 'found']
            if later and r['raw'] == py_import(t, [roots[later[0]]], comps)[1]:
                return F_SHADOW
    return None


def classify_roundtrip(sc, q, r):
    t = sc['tree']
    if r['raw'] is None or r['back'] is None:
        return None
    # the root that answered is itself a package directory (has __init__.py)
    for rt in sc['roots']:
        n = len(rt)
        if r['raw'][:n] == rt and py_import(t, [rt], q['comps'])[0] == 'found' and t_exists(t, rt + [INIT]):
            if r['back'] != q['name'] and r['back'].endswith('.' + q['name']):
                return F_ROOTPKG
            break
    return None


def py_lookup_verdicts(sc, q, r):
    """[(ok, why, finding)] of the property predicate on the implementation's own output,
    with the REAL PathFinder as specification"""
    res = []
    pf = r['pf']
    hi, hm = q['hi'], q['hm']
    if pf[0] == 'found':
        ok = r['raw'] == pf[1] and (hm or r['out'] == spec_path(hi, pf[1], pf[2]))
        res.append((ok, 'lookup differs from the file PathFinder resolves', None))
    elif pf[0] == 'none':
        ok = r['out'] is None and r['raw'] is None
        res.append((ok, 'import fails (PathFinder finds nothing) but the helper answers', None if ok else classify_lookup(sc, q, r)))
    if r['out'] is not None and hi and q['comps'][-1] not in ('__init__', '__main__'):
        ok = r['back'] == q['name']
        res.append((ok, 'modpath_to_modname(modname_to_modpath(name)) != name', None if ok else classify_roundtrip(sc, q, r)))
    return res


def select_judged(sc, q, r):
    """a single dotted name that the import system resolves to a module or to a package whose
    files all have regular names: the selection is judged against the import system"""
    if sc['weird'] or not q.get('judge') or len(q['entries']) != 1 or 'name' not in q['entries'][0]:
        return False
    if q['entries'][0]['comps'][-1] == '__init__':
        return False          # pkg.__init__ is, by design of hide_init, treated as the package pkg
    pf = r.get('pf') or ['none']
    if pf[0] != 'found':
        return False
    n = tget(sc['tree'], pf[1])
    return n is None or (isinstance(n, dict) and nice_subtree(n))


def classify_select(sc, q, r):
    """the root through which the name resolves is itself a package directory"""
    t = sc['tree']
    roots = [q['script'][:-1]] + q['sys_path']
    comps = q['entries'][0]['comps']
    for rt in roots:
        if py_import(t, [rt], comps)[0] == 'found':
            if t_exists(t, rt + [INIT]) and r.get('out') and all(
                    x == q['entries'][0]['name'] or x.endswith('.' + '.'.join(comps)) or ('.' + '.'.join(comps) + '.') in ('.' + x)
                    for x in r['out']):
                return F_ROOTPKG
            break
    return None


def in_quantifier(sc, q):
    if sc['weird']:
        return False
    return all(c and '.' not in c for c in q.get('comps', ['x']))


# ---------------------------------------------------------------------------- Coq encoding
def cq_s(s):
    """Coq string literal.  Shard strings must be printable ASCII: every other character (PEP 3131
    identifiers such as gr\u00fcn) is written as ~uXXXX~, which is injective on the generated names
    (none contains '~') and leaves the characters the model looks at ('.', '_', letters) alone."""
    return core.coq_str(''.join(ch if (32 <= ord(ch) < 127 and ch != '~') else '~u%04X~' % ord(ch) for ch in s))


def cq_path(p):
    return core.coq_list([cq_s(c) for c in p])


def cq_tree(t):
    if t is None:
        return 'File'
    return 'Dir ' + core.coq_list(['(%s, %s)' % (cq_s(k), cq_tree(v)) for k, v in t.items()])


def cq_ires(pf):
    if pf[0] == 'found':
        return '(Found %s %s)' % (cq_path(pf[1]), core.coq_bool(pf[2]))
    return 'ViaNamespace' if pf[0] == 'ns' else 'NoModule'


def encodable(x):
    try:
        json.dumps(x).encode('ascii')
    except Exception:
        return False
    return '<outside>' not in json.dumps(x)


def cq_row(tname, sc, q, r):
    """Coq term of type bool*bool, or None when the observation cannot be encoded
    (unexpected exception / path outside the scenario): judged on the Python side."""
    roots = core.coq_list([cq_path(x) for x in sc['roots']])
    if q['kind'] == 'lookup':
        if r['err'] or r['back_err'] not in (None, 'ValueError') or r['pf'][0] == 'exc' or not encodable(r):
            return None
        back = 'None' if not r['back_called'] else '(Some %s)' % core.coq_opt(cq_s(r['back']) if r['back'] is not None else None)
        fms = 'None'
        if 'fms' in r:
            if r['fms'][0] == 'exc':
                return None
            fms = '(Some %s)' % core.coq_opt(cq_path(r['fms'][1]) if r['fms'][0] == 'ok' else None)
        return '(lookup_row %s %s %s %s %s %s %s %s %s %s)' % (
            tname, roots, cq_path(q['comps']), core.coq_bool(q['hi']), core.coq_bool(q['hm']),
            core.coq_opt(cq_path(r['out']) if r['out'] is not None else None),
            core.coq_opt(cq_path(r['raw']) if r['raw'] is not None else None),
            back, cq_ires(r['pf']), fms)
    if q['kind'] == 'list':
        if r['err'] or not encodable(r):
            return None
        return '(listing_row %s %s %s)' % (tname, cq_path(q['path']), core.coq_list([cq_path(x) for x in r['out']]))
    if q['kind'] == 'listpkg':
        if r['err'] or not encodable(r):
            return None
        return '(listpkg_row %s %s %s)' % (tname, cq_path(q['path']), core.coq_list([cq_path(x) for x in r['out']]))
    if q['kind'] == 'select':
        if r['err'] not in (None, 'ValueError') or not encodable(r.get('out')):
            return None
        ents = core.coq_list(['(PName %s)' % cq_path(e['comps']) if 'name' in e else '(PPath %s)' % cq_path(e['path']) for e in q['entries']])
        judge = 'None'
        if q.get('judge') and select_judged(sc, q, r):
            judge = '(Some %s)' % cq_path(q['entries'][0]['comps'])
        out = 'None' if r['out'] is None else '(Some %s)' % core.coq_list([cq_s(x) for x in r['out']])
        return '(select_row %s %s %s %s %s %s)' % (tname, core.coq_list([cq_path(x) for x in q['sys_path']]),
                                                   cq_path(q['script']), ents, out, judge)
    if q['kind'] == 'm2n':
        if r['name_err'] not in (None, 'ValueError') or r['split_err'] not in (None, 'ValueError') or r['norm_err'] or not encodable(r):
            return None
        sp = 'None' if r['split'] is None else '(Some (%s, %s))' % (cq_path(r['split'][0]), cq_path(r['split'][1]))
        return '(m2n_row %s %s %s %s %s %s %s)' % (
            tname, cq_path(q['path']), core.coq_bool(q['hi']), core.coq_bool(q['hm']),
            core.coq_opt(cq_s(r['name']) if r['name'] is not None else None), sp, cq_path(r['norm']))
    raise ValueError(q['kind'])


HEADER = 'From LP Require Import Prelude.Py Resolve.FsModel Resolve.ModPath Resolve.ModPathSpec Resolve.ModPathSelect Resolve.ModPathCases.'


def build_shards(scs, outs, per=380):
    """-> (bodies, index) where index[k] = list of (scenario idx, query idx) of shard k's rows"""
    bodies, index = [], []
    cur_defs, cur_rows, cur_idx, cur_trees, size = [], [], [], [], 0
    unenc = []

    def flush():
        nonlocal cur_defs, cur_rows, cur_idx, cur_trees, size
        if cur_rows:
            body = '\n'.join(cur_defs) + '\nDefinition rows : list (bool * bool) := [\n' + ';\n'.join(cur_rows) + '].\n'
            body += 'Eval vm_compute in (false_indices (map fst rows)).\nEval vm_compute in (false_indices (map snd rows)).\n'
            body += 'Eval vm_compute in (false_indices (map tree_ok %s)).\n' % core.coq_list(cur_trees)
            bodies.append(body)
            index.append(cur_idx)
        cur_defs, cur_rows, cur_idx, cur_trees, size = [], [], [], [], 0

    for si, (sc, out) in enumerate(zip(scs, outs)):
        tname = 't%d' % si
        d = 'Definition %s : node := %s.' % (tname, cq_tree(sc['tree']))
        rows, idx = [], []
        for qi, (q, r) in enumerate(zip(sc['queries'], out)):
            row = cq_row(tname, sc, q, r)
            if row is None:
                unenc.append((si, qi))
                continue
            rows.append(row)
            idx.append((si, qi))
        add = len(d) + sum(len(x) + 2 for x in rows)
        if cur_rows and (len(cur_rows) + len(rows) > per or size + add > 180000):
            flush()
        cur_defs.append(d)
        cur_trees.append(tname)
        cur_rows += rows
        cur_idx += idx
        size += add
    flush()
    return bodies, index, unenc


# ---------------------------------------------------------------------------- run
def run_driver(impl, scs, tmp):
    """the driver gets everything but the tree dicts; big runs are split over processes"""
    from concurrent.futures import ThreadPoolExecutor
    groups, cur = [], []
    for i, sc in enumerate(scs):
        if cur and len(cur) >= 150 and not sc.get('continues'):
            groups.append(cur)
            cur = []
        cur.append(i)
    if cur:
        groups.append(cur)

    def one(g):
        payload = dict(tmp=str(tmp), scenarios=[dict(files=scs[i]['files'], dirs=scs[i]['dirs'], roots=scs[i]['roots'],
                                                      root_suffix=scs[i].get('root_suffix', ''), queries=scs[i]['queries'],
                                                      continues=bool(scs[i].get('continues')), wipe=bool(scs[i].get('wipe'))) for i in g])
        return core.run_impl(impl, DRIVER, payload, timeout=1200)['results']
    with ThreadPoolExecutor(max_workers=min(core.NCPU, len(groups))) as ex:
        parts = list(ex.map(one, groups))
    return [r for part in parts for r in part]


def judge_python(scs, outs, res, stats):
    """Python-side property predicate (PathFinder / os based) on the implementation's outputs;
    also cross-checks the three specification oracles against each other."""
    fails = []
    for sc, out in zip(scs, outs):
        t = sc['tree']
        for q, r in zip(sc['queries'], out):
            if q['kind'] == 'lookup':
                mirror = py_import(t, sc['roots'], q['comps'])
                if mirror != r['pf']:
                    res.mismatches.append(dict(case=case_of(sc, q), impl=r, model='python mirror of the specification says %r, PathFinder %r' % (mirror, r['pf'])))
                if 'real' in r and r['real'][0] != 'skipped':
                    stats['real_imports'] += 1
                    # a chain through a namespace package (outside the quantifier) may still end in ImportError
                    if r['real'] != r['pf'] and not (r['pf'] == ['ns'] and r['real'] == ['none']):
                        res.mismatches.append(dict(case=case_of(sc, q), impl=r, model='a real import gives %r, the PathFinder walk %r' % (r['real'], r['pf'])))
                stats['pf_' + r['pf'][0]] += 1
                if not in_quantifier(sc, q):
                    stats['outside_quantifier'] += 1
                    continue
                if py_no_shadow(t, sc['roots'], q['comps']):
                    stats['hyp_no_shadow'] += 1
                if r['out'] is not None and not any(t_exists(t, rt + [INIT]) for rt in sc['roots']):
                    stats['hyp_roundtrip'] += 1
                for ok, why, fid in py_lookup_verdicts(sc, q, r):
                    if not ok:
                        if fid == F_ROOTPKG and not ROOT_INIT_IN_QUANTIFIER:
                            stats['obs_root_package_roundtrip'] += 1
                            continue
                        fails.append(dict(case=case_of(sc, q), impl=r, why=why, finding=fid))
            elif q['kind'] == 'list':
                if sc['weird'] or r['err']:
                    continue
                exp = sorted(expected_listing(t, q['path']))
                got = sorted(r['out'])
                if got != exp:
                    fails.append(dict(case=case_of(sc, q), impl=r, why='package listing differs from the module files of the package and its sub-packages: expected %r' % exp, finding=None))
                if isinstance(tget(t, q['path']), dict) and INIT in tget(t, q['path']):
                    stats['hyp_listing_pkg'] += 1
            elif q['kind'] == 'listpkg':
                if sc['weird'] or r['err']:
                    continue
                exp = sorted(expected_listing_pkg(t, q['path']))
                if sorted(r['out']) != exp:
                    fails.append(dict(case=case_of(sc, q), impl=r, why='package listing (with_pkg) differs from the python files of the package and its sub-packages: expected %r' % exp, finding=None))
            elif q['kind'] == 'select':
                stats['select'] += 1
                if not select_judged(sc, q, r):
                    continue
                mirror = py_import(t, [q['script'][:-1]] + q['sys_path'], q['entries'][0]['comps'])
                if mirror != r['pf']:
                    res.mismatches.append(dict(case=case_of(sc, q), impl=r, model='python mirror of the specification says %r, PathFinder %r' % (mirror, r['pf'])))
                stats['select_judged'] += 1
                if len(q['entries'][0]['comps']) >= 2 and r['pf'][2]:
                    stats['select_nested_package'] += 1
                if r['out'] is None or sorted(set(r['out'])) != sorted(set(r['oracle'])) or len(set(r['out'])) != len(r['out']):
                    fid = classify_select(sc, q, r)
                    if fid == F_ROOTPKG and not ROOT_INIT_IN_QUANTIFIER:
                        stats['obs_root_package_roundtrip'] += 1
                        continue
                    fails.append(dict(case=case_of(sc, q), impl=r, finding=fid,
                                      why='-p selection differs from the names the import system gives the modules inside: expected %r' % sorted(r['oracle'])))
    return fails


def case_of(sc, q):
    c = dict(tree=sc['tree'], roots=sc['roots'], query={k: v for k, v in q.items()}, tag=sc['tag'],
             root_suffix=sc.get('root_suffix', ''))
    if sc.get('hist'):
        # the earlier moments of the same directory, with everything that was asked then
        c['history'] = [dict(tree=h['tree'], roots=h['roots'], queries=h['queries'], wipe=h.get('wipe', False)) for h in sc['hist']]
        c['wipe'] = sc.get('wipe', False)
    return c


def observe_trailing_slash(impl, tmp):
    """outside the quantifier: a search root spelled with a trailing slash"""
    t = {'r0': {'a': {INIT: None, 'b.py': None}, 'm.py': None}}
    q = [dict(kind='lookup', name=n, comps=n.split('.'), hi=True, hm=False) for n in ('a', 'a.b', 'm')]
    a = scenario_from_tree(t, [['r0']], q, 'obs-plain')
    b = scenario_from_tree(t, [['r0']], copy.deepcopy(q), 'obs-trailing-slash')
    b['root_suffix'] = '/'
    # malformed names (empty components, separators, file names): outside the quantifier, recorded only
    bad = ['', 'a.', 'a..b', '.a', 'a/b', 'a.b.py', 'm.py', 'A.B']
    c = scenario_from_tree(t, [['r0']], [dict(kind='lookup', name=n, comps=n.split('.'), hi=True, hm=False) for n in bad], 'obs-malformed')
    o = run_driver(impl, [a, b, c], tmp)
    return dict(names=[x['name'] for x in q], plain=[r['out'] for r in o[0]], trailing_slash=[r['out'] for r in o[1]],
                pathfinder_trailing_slash=[r['pf'] for r in o[1]],
                malformed_names={n: dict(helper=r['out'], helper_error=r['err'], pathfinder=r['pf']) for n, r in zip(bad, o[2])})


def run(tier, seed):
    import collections
    rnd = core.rng(seed, PROP)
    res = core.Result(PROP)
    res.obl = core.check_obligations(PROP, MODULE, THEOREMS, extra_vo=['theories/Resolve/ModPathCases.vo'])
    impl = core.build_impl()
    tmp = core.SCRATCH_ROOT / 'tmp'
    tmp.mkdir(parents=True, exist_ok=True)
    scs = gen_scenarios(tier, rnd)
    # the canonical replay of every candidate finding is always part of the run
    for f in sorted((core.VERIF / 'findings').glob('C18-*.json')):
        c = json.loads(f.read_text())['case']
        scs.append(scenario_from_tree(c['tree'], c['roots'], [c['query']], 'finding:' + f.stem))
    outs = run_driver(impl, scs, tmp)
    stats = collections.Counter()

    def search(budget):
        rnd2 = core.rng(seed + 1, PROP)
        sc2 = gen_scenarios('quick', rnd2) + [gen_random_scenario(rnd2, (30, 10, 10)) for _ in range(600)]
        o2 = run_driver(impl, sc2, tmp)
        known = {e['id'] for e in core.load_findings(PROP)}
        st = collections.Counter()
        dummy = core.Result(PROP)
        for f in judge_python(sc2, o2, dummy, st):
            if f.get('finding') not in known:
                f['why'] += ' (search)'
                return f
        return None
    res.search = search

    # ---- Python-side predicate ---------------------------------------------------
    pyfails = judge_python(scs, outs, res, stats)

    # ---- shards: model vs implementation, spec on implementation, inside Coq -----
    model_ok = not res.obl['failures'] or all('build of' not in f for f in res.obl['failures'])
    coq_fail_keys = set()
    nrows = 0
    if model_ok:
        bodies, index, unenc = build_shards(scs, outs)
        for si, qi in unenc:
            res.mismatches.append(dict(case=case_of(scs[si], scs[si]['queries'][qi]), impl=outs[si][qi],
                                       model='implementation raised / answered outside the tree: not encodable'))
        shards = core.run_shards('c18', HEADER, bodies)
        for k, sres in enumerate(shards):
            if sres[0] != 'ok' or len(sres[1]) != 3:
                res.infra_errors.append('shard %d failed: %s' % (k, str(sres[1])[-600:]))
                continue
            mism, sfail, badtree = sres[1]
            nrows += len(index[k])
            if badtree:
                res.infra_errors.append('shard %d: generated tree not well-formed' % k)
            for i in mism:
                si, qi = index[k][i]
                res.mismatches.append(dict(case=case_of(scs[si], scs[si]['queries'][qi]), impl=outs[si][qi],
                                           model='Coq model (Resolve/ModPath.v, ModPathSpec.v) differs'))
            for i in sfail:
                coq_fail_keys.add(index[k][i])
    # Coq-side spec failures: classify with the same classifier; merge with the Python-side ones
    seen = set()
    for f in pyfails:
        res.spec_fails.append(f)
        seen.add(json.dumps(f['case'], sort_keys=True))
    for si, qi in sorted(coq_fail_keys):
        sc, q, r = scs[si], scs[si]['queries'][qi], outs[si][qi]
        if not in_quantifier(sc, q):
            continue
        key = json.dumps(case_of(sc, q), sort_keys=True)
        if key in seen:
            continue
        fid = None
        if q['kind'] == 'lookup':
            fid = classify_lookup(sc, q, r) or classify_roundtrip(sc, q, r)
            if fid == F_ROOTPKG and not ROOT_INIT_IN_QUANTIFIER:
                continue
        if q['kind'] == 'select':
            fid = classify_select(sc, q, r)
            if fid == F_ROOTPKG and not ROOT_INIT_IN_QUANTIFIER:
                continue
        res.spec_fails.append(dict(case=case_of(sc, q), impl=r, why='Coq-side property predicate false on the implementation\'s output', finding=fid))
    # a Python-side failure the Coq-side predicate does not see (or vice versa) is a harness disagreement
    if model_ok and not res.infra_errors:
        # (selections are judged by two differently phrased predicates - set equality with pkgutil's listing
        #  on the Python side, soundness + completeness inside Coq - and are left out of this comparison)
        pykeys = {json.dumps(f['case'], sort_keys=True) for f in pyfails if f['case']['query']['kind'] != 'select'}
        coqkeys = {json.dumps(case_of(scs[si], scs[si]['queries'][qi]), sort_keys=True) for si, qi in coq_fail_keys
                   if in_quantifier(scs[si], scs[si]['queries'][qi]) and scs[si]['queries'][qi]['kind'] != 'select'
                   and not (not ROOT_INIT_IN_QUANTIFIER and classify_roundtrip(scs[si], scs[si]['queries'][qi], outs[si][qi]) == F_ROOTPKG)}
        if pykeys != coqkeys:
            res.notes.append('python-side and Coq-side predicates disagree on %d case(s)' % len(pykeys ^ coqkeys))
            res.infra_errors.append('python-side and Coq-side property predicates disagree on %d case(s), e.g. %s'
                                    % (len(pykeys ^ coqkeys), sorted(pykeys ^ coqkeys)[0][:400]))

    nq = sum(len(sc['queries']) for sc in scs)
    kinds = collections.Counter(q['kind'] for sc in scs for q in sc['queries'])
    distinct = {json.dumps([sc['tree'], sc['roots'], q.get('name', q.get('path')), q.get('hi'), q.get('hm'), q['kind']], sort_keys=True)
                for sc in scs for q in sc['queries']
                if (q['kind'] != 'lookup' or len(q['comps']) >= 1) and len(sc['files']) >= 1}
    depth_hist = collections.Counter(len(q['comps']) for sc in scs for q in sc['queries'] if q['kind'] == 'lookup')
    roots_hist = collections.Counter(len(sc['roots']) for sc in scs)
    sample_idx = [(0, 1), (3, 0), (len(scs) - 2, 0)]
    samples = []
    for si, qi in sample_idx:
        if si < len(scs) and qi < len(scs[si]['queries']):
            c = case_of(scs[si], scs[si]['queries'][qi])
            if len(json.dumps(c)) > 1500:
                c = dict(roots=c['roots'], query=c['query'], tag=c['tag'], tree='<%d files>' % len(scs[si]['files']))
            samples.append(dict(case=c, impl=outs[si][qi]))
    try:
        obs = observe_trailing_slash(impl, tmp)
    except Exception as e:  # noqa
        obs = dict(error=repr(e))
    res.coverage = dict(
        evaluations=nq, distinct_nontrivial=len(distinct),
        rule='a case is one query (name lookup with flags / package listing / path-to-name) on one generated tree; '
             'non-trivial = the tree has at least one file; distinct by (tree, roots, query)',
        scenarios=len(scs), scenario_tags=dict(collections.Counter(sc['tag'].split(':')[0] for sc in scs)),
        exhaustive='every tree over %d candidate files in two roots (%d trees) x names a, a.b%s' % (
            2 * len(MICRO_FILES_THOROUGH if tier == 'thorough' else MICRO_FILES),
            1 << (2 * len(MICRO_FILES_THOROUGH if tier == 'thorough' else MICRO_FILES)), ', a.b.c' if tier == 'thorough' else ''),
        query_kinds=dict(kinds), lookup_depth_hist={str(k): v for k, v in sorted(depth_hist.items())},
        roots_hist={str(k): v for k, v in sorted(roots_hist.items())},
        pathfinder_outcomes={k[3:]: v for k, v in stats.items() if k.startswith('pf_')},
        real_imports_compared=stats['real_imports'],
        histories=sum(1 for sc in scs if sc['tag'].startswith('history') and not sc.get('continues')),
        history_moments=dict(collections.Counter(sc['tag'] for sc in scs if sc['tag'].startswith('history'))),
        selections=dict(run=stats['select'], judged_against_import_system=stats['select_judged'],
                        nested_package_by_name=stats['select_nested_package']),
        rows_evaluated_in_coq=nrows,
        outside_quantifier=stats['outside_quantifier'],
        hypothesis_holds_on=dict(no_shadow=stats['hyp_no_shadow'], roots_plain_and_found=stats['hyp_roundtrip'],
                                 listing_of_a_package=stats['hyp_listing_pkg']),
        samples=samples,
        spec_fails_by_classification=dict(collections.Counter(str(f.get('finding')) for f in res.spec_fails)),
        observations=dict(odd_roots_and_names=obs, root_package_roundtrip_observed=stats['obs_root_package_roundtrip']),
        trusted_base_extra=[
            'hand-written model of util_static (Resolve/ModPath.v), tied by correspondence only: every run compares it inside Coq with the real helpers on generated trees',
            'hand-written specification of PathFinder/FileFinder for source modules and regular packages (Resolve/ModPathSpec.v), validated every run against importlib.machinery.PathFinder and against real imports',
            'file-system model: finite tree, paths as component lists below a base directory, absolute normalised roots; no symlinks, no .pyc/.so/egg-link/editable-install files (the generator never creates them)',
            'the harness: tree generator, on-disk materialisation, encoding of trees and answers into Coq terms'])
    res.assumptions = ['name components are non-empty and dot-free (dotted name = list of identifiers)',
                       'search roots are absolute normalised directory paths (a trailing slash is outside: see observations)',
                       'only source files and regular packages: no extension modules, bytecode-only modules, egg-links or editable-install finders',
                       'no directory is itself named __init__.py']
    return res


def replay(path):
    data = json.load(open(path))
    c = data['case']
    impl = core.build_impl()
    tmp = core.SCRATCH_ROOT / 'tmp'
    tmp.mkdir(parents=True, exist_ok=True)
    scs = []
    for h in c.get('history', []):
        sc = scenario_from_tree(h['tree'], h['roots'], h['queries'], 'replay-history')
        sc['continues'] = bool(scs)
        sc['wipe'] = bool(h.get('wipe'))
        scs.append(sc)
    sc = scenario_from_tree(c['tree'], c['roots'], [c['query']], 'replay')
    sc['continues'] = bool(scs)
    sc['wipe'] = bool(c.get('wipe'))
    if c.get('root_suffix'):
        sc['root_suffix'] = c['root_suffix']
    scs.append(sc)
    out = run_driver(impl, scs, tmp)
    import collections
    dummy = core.Result(PROP)
    fails = judge_python([sc], [out[-1]], dummy, collections.Counter())
    ok = not fails and not dummy.mismatches
    c = dict(c)
    if 'history' in c:
        c['history'] = '<%d earlier moments of the same directory>' % len(c['history'])
    print(json.dumps(dict(case=c, impl=out[-1][0], holds=ok, why=[f['why'] for f in fails],
                          finding=[f['finding'] for f in fails]), indent=1))
    return 0 if ok else 1
