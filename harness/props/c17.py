"""C17 - relative imports resolve as Python resolves them.

Theorem side: Props/C17.v over Gen/RelImport.v (regenerated from
run_module.get_module_from_importfrom on every run).
Tie: translation + complete enumeration against the real function, the real
ImportFromTransformer, the real on-disk name derivation and importlib."""
import itertools
import json
import shutil
import time

from harness import core

PROP = 'C17'
MODULE = 'Props.C17'
THEOREMS = ['C17_resolve_agrees', 'C17_absolute_untouched', 'C17_nonvacuous']
LEVEL = 'proof'

NAMES = ['a', 'ab', 'a_b', 'pkg', 'mod', 'x1', 'A', 'init', '__init__x', 'main']
TARGETS = [None, 'x', 'xy.z', 'a.b.c', '__init__', 'x1.x1']
UNAMES = ['gr\u00fcn', 'st\u00fcck', '\u6570\u636e', '\u00e9t\u00e9', 'na\u00efve_pkg']


def gen_cases(tier, rnd):
    unit = []
    maxd = 4 if tier == 'quick' else 6
    for d in range(0, maxd + 1):
        pools = [rnd.sample(NAMES, len(NAMES))[:d]] + ([rnd.sample(NAMES, len(NAMES))[:d]] if tier == 'thorough' else [])
        for pcomps in pools:
            for stem in ('m', '__init__', '__main__'):
                for level in range(0, d + 2):
                    for target in TARGETS:
                        if level == 0 and target is None:
                            continue
                        module = '.'.join(pcomps + [stem])
                        unit.append(dict(pcomps=pcomps, stem=stem, level=level, target=target, module=module,
                                         valid=bool(d >= 1 and 1 <= level <= d)))
    disk = []
    for d in range(1, 4 if tier == 'quick' else 6):
        for stem in ('m', '__init__', '__main__'):
            for level in range(1, d + 1):
                for target in (None, 'x', 'x.y'):
                    pcomps = rnd.sample(NAMES[:8], d)
                    disk.append(dict(pcomps=pcomps, stem=stem, level=level, target=target))
                    if stem != '__init__':
                        # the way kernprof -m finds the file (find_module_script), plain and through a symlinked package
                        disk.append(dict(pcomps=pcomps, stem=stem, level=level, target=target, via_find=True))
                        disk.append(dict(pcomps=pcomps, stem=stem, level=level, target=target, via_find=True, link='pkg'))
                        # ... and through the whole glue of kernprof.main (the file handed to the auto-profiling runner)
                        disk.append(dict(pcomps=pcomps, stem=stem, level=level, target=target, via_main=True))
                        disk.append(dict(pcomps=pcomps, stem=stem, level=level, target=target, via_main=True, link='pkg'))
                        disk.append(dict(pcomps=pcomps, stem=stem, level=level, target=target, via_main=True, link='file'))
                        if d >= 2:
                            disk.append(dict(pcomps=pcomps, stem=stem, level=level, target=target, via_main=True, link='sub'))
                        # package names outside ASCII (PEP 3131 identifiers)
                        ucomps = [rnd.choice(UNAMES) if i == (level + d) % d else x for i, x in enumerate(pcomps)]
                        disk.append(dict(pcomps=ucomps, stem=stem, level=level, target=target, via_main=True))
                        disk.append(dict(pcomps=ucomps, stem=stem, level=level, target=target))
    return unit, disk


def py_spec(c, o):
    """The property on the implementation's own output (used by the search too)."""
    if not c['valid']:
        return True
    return o['err'] is None and o['got'] == o['spec'] and o['names_ok']


def run(tier, seed):
    rnd = core.rng(seed, PROP)
    res = core.Result(PROP)
    gen = core.regenerate(['RelImport.v'])
    res.obl = core.check_obligations(PROP, MODULE, THEOREMS)
    if gen.get('RelImport.v'):
        res.obl['failures'].append('translator refused the source: ' + gen['RelImport.v'])
    if tier == 'thorough' and not res.obl['failures']:
        core.thorough_coqchk(res, MODULE)
    impl = core.build_impl()
    tmp = core.SCRATCH_ROOT / 'tmp'
    tmp.mkdir(parents=True, exist_ok=True)
    unit, disk = gen_cases(tier, rnd)
    out = core.run_impl(impl, 'harness.drivers.c17', dict(unit=unit, disk=disk, tmp=str(tmp)))

    def search(budget):
        u2, d2 = gen_cases('thorough', core.rng(seed + 1, PROP))
        o2 = core.run_impl(impl, 'harness.drivers.c17', dict(unit=u2, disk=d2, tmp=str(tmp)))
        for c, o in zip(u2, o2['unit']):
            if not py_spec(c, o):
                return dict(case=c, impl=o, why='resolved module differs from importlib (search)')
        for c, o in zip(d2, o2['disk']):
            if o['got'][:2] != [o['spec'], 0]:
                return dict(case=c, impl=o, why='on-disk module resolves differently from importlib (search)')
        return None
    res.search = search

    # ---- shards: model vs implementation, spec on implementation --------------
    model_ok = not res.obl['failures'] or all('build of' not in f for f in res.obl['failures'])
    n_valid = 0
    distinct = set()
    if model_ok:
        bodies = []
        per = 400
        for chunk in core.chunks(list(zip(unit, out['unit'])), per):
            rows = []
            for c, o in chunk:
                got = None if o['err'] else o['got']
                rows.append('(case_ok %s %s %s %s %s %s)' % (
                    core.coq_z(c['level']), core.coq_opt(core.coq_str(c['target']) if c['target'] is not None else None),
                    core.coq_str(c['module']), core.coq_opt(core.coq_str(got) if got is not None else None),
                    core.coq_opt(core.coq_str(o['spec']) if o['spec'] is not None else None), core.coq_bool(c['valid'])))
            body = 'Definition rows : list (bool * bool) := [\n' + ';\n'.join(rows) + '].\n'
            body += 'Eval vm_compute in (false_indices (map fst rows)).\nEval vm_compute in (false_indices (map snd rows)).\n'
            bodies.append(body)
        shards = core.run_shards('c17', 'From LP Require Import Prelude.Py Gen.RelImport Resolve.RelImport.', bodies)
        for k, sres in enumerate(shards):
            if sres[0] != 'ok' or len(sres[1]) != 2:
                res.infra_errors.append('shard %d failed: %s' % (k, str(sres[1])[-500:]))
                continue
            mism, sfail = sres[1]
            for i in mism:
                c, o = unit[k * per + i], out['unit'][k * per + i]
                if o['err'] and not c['valid']:
                    continue   # outside the quantifier and the implementation raised: nothing to compare
                res.mismatches.append(dict(case=c, impl=o, model='differs (see Gen/RelImport.v)'))
            for i in sfail:
                c, o = unit[k * per + i], out['unit'][k * per + i]
                res.spec_fails.append(dict(case=c, impl=o, why='Coq-side spec: implementation output differs from importlib', finding=None))
    for c, o in zip(unit, out['unit']):
        if c['valid']:
            n_valid += 1
            distinct.add((c['module'], c['level'], c['target']))
        if not py_spec(c, o) and not any(sf['case'] is c for sf in res.spec_fails):
            res.spec_fails.append(dict(case=c, impl=o, why='resolution / names differ from importlib', finding=None))
    for c, o in zip(disk, out['disk']):
        if o['got'][:2] != [o['spec'], 0] or o['got'][2] != [['nm', 'al']]:
            res.spec_fails.append(dict(case=c, impl=o, why='on-disk module resolves differently from importlib', finding=None))
    res.coverage = dict(
        evaluations=len(unit) + len(disk), distinct_nontrivial=len(distinct) + len(disk),
        rule='complete enumeration: package depth 0..%d x stem {m,__init__,__main__} x level 0..depth+1 x 6 targets '
             '(names drawn from a look-alike pool by the seeded PRNG); non-trivial = level valid at that position (the '
             'theorem\'s hypothesis), distinct by (module, level, target); plus on-disk package trees through '
             'AstTreeModuleProfiler._get_script_ast_tree' % (4 if tier == 'quick' else 6),
        exhaustive=True,
        samples=[dict(case=unit[i], impl=out['unit'][i]) for i in (0, len(unit) // 2, len(unit) - 1)] + [dict(case=disk[0], impl=out['disk'][0])],
        hypothesis_holds_on=n_valid, disk_cases=len(disk),
        translated=['line_profiler/autoprofile/run_module.py::get_module_from_importfrom -> Gen/RelImport.v'],
        trusted_base_extra=['py2coq translator + Prelude (split/join/slice validated per run by this enumeration)',
                            'importlib.util.resolve_name as the specification of Python\'s resolution',
                            'hand-modelled, tied by correspondence only: ImportFromTransformer (names/aliases untouched), '
                            'modpath_to_modname (module position from the file system)'])
    res.assumptions = ['component names are dot-free (package directory names)',
                       'the module position handed to the resolver is the dotted path of the file including __init__/__main__ (checked on disk cases)']
    return res


def replay(path):
    data = json.load(open(path))
    impl = core.build_impl()
    c = data['case']
    tmp = core.SCRATCH_ROOT / 'tmp'
    tmp.mkdir(parents=True, exist_ok=True)
    if 'module' in c:
        o = core.run_impl(impl, 'harness.drivers.c17', dict(unit=[c], disk=[], tmp=str(tmp)))['unit'][0]
        ok = py_spec(c, o)
    else:
        o = core.run_impl(impl, 'harness.drivers.c17', dict(unit=[], disk=[c], tmp=str(tmp)))['disk'][0]
        ok = o['got'][:2] == [o['spec'], 0]
    print(json.dumps(dict(case=c, impl=o, holds=ok), indent=1))
    return 0 if ok else 1
