"""C19 - running kernprof in-process leaves the interpreter as it found it.

Theorem side: Props/C19.v over Cli/MainEffects.v (hand model of kernprof.main's effects;
the global `profile` object goes through the translated methods of Gen/GlobalProfiler.v).
Tie: the real kernprof.main called in-process (one driver interpreter, temp cwd with
generated programs) over option sets x program behaviours x sequences of 1-3 runs, then
ordinary use of line_profiler.profile; every observation is compared with the model inside
Coq (mismatch) and the property's clauses are evaluated on the implementation's own
observations (spec_fail), both in Coq and in python."""
import itertools
import os
import json
import re
import shutil

from harness import core

PROP = 'C19'
MODULE = 'Props.C19'
LEVEL = 'proof'
DRIVER = 'harness.drivers.c19'


def _theorems():
    txt = re.sub(r'\(\*.*?\*\)', '', (core.COQ / 'theories/Props/C19.v').read_text(), flags=re.S)
    return re.findall(r'^Theorem\s+(C19_\w+)', txt, flags=re.M)


THEOREMS = _theorems()

OUTCOMES = ['ret', 'exit', 'kbd', 'exc', 'excin']       # excin: raises inside a profiled function
COQ_OUTCOME = dict(ret='Return', exit='SysExit', kbd='KbdInt', exc='Exc', excin='Exc')
# ids of the six defects repaired in /repo (204c2e5, d567ae1, f436ae3, 2d3e878, a77d816, fcd15c8).  The classifier
# still recognises their signatures so that a regression is named; they are 'fixed' in
# known_findings.json, which suppresses nothing: any failing clause is a VIOLATION.
FINDINGS = {
    1: 'C19-argv-rebound',
    2: 'C19-path-kept-on-exception',
    4: 'C19-profile-unusable',
    16: 'C19-interval-timer-leak',
    8: 'C19-autoprofile-leaves-profiler-enabled',      # repaired by a77d816
    108: 'C19-program-enable-left-on',                  # repaired by fcd15c8
    204: 'C19-profile-kept-when-dump-fails',            # repaired by 5d3505e
    304: 'C19-profile-kept-when-script-missing',        # known
    208: 'C19-monitoring-id-kept-after-settrace-none',  # known
    308: 'C19-cprofile-left-on-when-dump-fails',        # known
}
BITNAMES = {1: 'sys.argv', 2: 'sys.path', 4: 'profile decorator', 8: 'profiler left enabled', 16: 'helper thread'}


# ---- generated programs -------------------------------------------------------------------------
def prog_name(outcome, tp, ta, explicit, imp=0):
    return 'prog_%s_%d%d%d%d' % (outcome, tp, ta, explicit, imp)


def prog_text(outcome, tp, ta, explicit, imp=0):
    lines = ['import sys']
    if imp:     # imports that a -p selection can match: auto-profiling registers them right here
        lines += ['import json', 'from helper_mod import helper']
    if explicit:
        lines += ['from line_profiler import profile']
    else:
        lines += ['try:', '    profile', 'except NameError:', '    def profile(f):', '        return f']
    if tp:
        lines += ["sys.path.append('/prog-added')"]
    if ta:
        lines += ["sys.argv.append('prog-added')"]
    lines += ['@profile', 'def work(n):', '    t = 0', '    for i in range(n):', '        t += i']
    if outcome == 'excin':
        lines += ["    raise ValueError('boom inside')"]
    lines += ['    return t', 'work(5)']
    lines += dict(ret=[], exit=['sys.exit(3)'], kbd=['raise KeyboardInterrupt'], exc=["raise ValueError('boom')"], excin=[])[outcome]
    return '\n'.join(lines) + '\n'


SPECIALS = ['rebind_path', 'rebind_argv', 'rebind_both', 'threads', 'suspended_gen', 'settrace_none', 'worker_only']
# programs that drive the builtin `profile` object themselves (kernprof -l / -b put it there): left open, or balanced
LEAVES = dict(leave_bycount_untraced='LByCount', leave_untraced='LEnableUntraced', leave_enable='LEnable', leave_bycount='LByCount', leave_with='LByCount', balanced_enable='LNone', balanced_with='LNone',
              balanced_bycount='LNone')


def special_name(kind, outcome, explicit=0):
    return 'special_%s_%s_%d' % (kind, outcome, explicit)


def special_text(kind, outcome, explicit=0):
    """programs that REBIND sys.path / sys.argv after touching them in place, and a well-behaved threaded program whose
    profiled calls overlap across threads (a call in the main thread ends while a later one in a worker still runs)"""
    lines = ['import sys']
    lines += ['from line_profiler import profile'] if explicit else ['try:', '    profile', 'except NameError:', '    def profile(f):', '        return f']
    if kind in ('rebind_path', 'rebind_both'):
        lines += ["sys.path.append('/prog-added')", "sys.path = sys.path + ['/prog-rebound']"]
    if kind in ('rebind_argv', 'rebind_both'):
        lines += ["sys.argv.append('prog-added')", "sys.argv = sys.argv + ['prog-rebound']"]
    if kind in LEAVES:
        lines = ['import sys', 'def work(n):', '    return sum(range(n))']
        lines += dict(leave_bycount_untraced=['profile.enable_by_count()', 'work(5)', 'sys.settrace(None)'],
                      leave_untraced=['profile.enable()', 'work(5)', 'sys.settrace(None)'], leave_enable=['profile.enable()', 'work(5)'], leave_bycount=['profile.enable_by_count()', 'work(5)'],
                      leave_with=['profile.__enter__()', 'work(5)'], balanced_enable=['profile.enable()', 'work(5)', 'profile.disable()'],
                      balanced_with=['with profile:', '    work(5)'],
                      balanced_bycount=['profile.enable_by_count()', 'work(5)', 'profile.disable_by_count()'])[kind]
        lines += dict(ret=[], exit=['sys.exit(3)'], exc=["raise ValueError('boom')"])[outcome]
        return '\n'.join(lines) + '\n'
    if kind == 'settrace_none':     # imports that -p can select, a profiled call, and at the end the program removes the trace
        # function itself (as trace.Trace.runfunc, bdb / pdb on quit, coverage tools do)
        lines.insert(1, 'import json')
        lines.insert(2, 'from helper_mod import helper')
    if kind == 'worker_only':       # every profiled call happens in a worker thread, the main thread never enters profiled code
        lines += ['import threading', '@profile', 'def in_worker(n):', '    return sum(range(n))',
                  '_ts = [threading.Thread(target=in_worker, args=(50,)) for _ in range(2)]',
                  'for _t in _ts:', '    _t.start()', 'for _t in _ts:', '    _t.join()']
        lines += dict(ret=[], exit=['sys.exit(3)'], exc=["raise ValueError('boom')"])[outcome]
        return '\n'.join(lines) + '\n'
    if kind == 'suspended_gen':     # a profiled generator (and a coroutine-free twin) left suspended when the program ends:
        # it is finalised later, when the program's namespace goes away (the next run replaces builtins.profile)
        lines += ['@profile', 'def gen(n):', '    for i in range(n):', '        yield i',
                  '_g = gen(5)', 'next(_g)', 'next(_g)', '_h = gen(3)', 'next(_h)', '_h.close()']
    if kind == 'threads':
        lines += ['import threading', '_in_b = threading.Event()', '_go = threading.Event()',
                  '@profile', 'def b_work():', '    _in_b.set()', '    _go.wait(10)', '    return 1',
                  '@profile', 'def a_work():', '    t = threading.Thread(target=b_work)', '    t.start()', '    _in_b.wait(10)', '    return t',
                  '_t = a_work()', '_go.set()', '_t.join()']
    lines += ['@profile', 'def work(n):', '    return sum(range(n))', 'work(5)']
    if kind == 'settrace_none':
        lines += ['sys.settrace(None)']
    lines += dict(ret=[], exit=['sys.exit(3)'], exc=["raise ValueError('boom')"])[outcome]
    return '\n'.join(lines) + '\n'


SETUP_USE_SETS = [['enable'], ['enable', 'decorate'], ['decorate'], ['disable'], ['enable', 'disable', 'decorate'], ['decorate', 'enable']]


def setup_file(uses):
    return 'setupd/setup%s.py' % ''.join('_' + u[:3] for u in uses or [])


def setup_text(uses):
    lines = ['SETUP_RAN = 1']
    if uses:
        lines += ['import line_profiler']
    for k, u in enumerate(uses or []):
        if u == 'enable':
            lines += ['line_profiler.profile.enable()']
        elif u == 'disable':
            lines += ['line_profiler.profile.disable()']
        else:
            lines += ['def _helper%d(x):' % k, '    return x + 1', '_helper%d = line_profiler.profile(_helper%d)' % (k, k), '_helper%d(1)' % k]
    return '\n'.join(lines) + '\n'


def all_files():
    files = {'setupd/setup.py': 'SETUP_RAN = 1\n', 'helper_mod.py': 'def helper(n):\n    return sum(range(n))\n'}
    for uses in SETUP_USE_SETS:
        files[setup_file(uses)] = setup_text(uses)
    for kind in SPECIALS + sorted(LEAVES):
        for outcome in ('ret', 'exit', 'exc'):
            for ex in (0, 1):
                files[special_name(kind, outcome, ex) + '.py'] = special_text(kind, outcome, ex)
                files['sub/' + special_name(kind, outcome, ex) + '.py'] = special_text(kind, outcome, ex)
    for outcome in OUTCOMES:
        for tp, ta, ex, imp in itertools.product((0, 1), repeat=4):
            nm = prog_name(outcome, tp, ta, ex, imp) + '.py'
            files[nm] = prog_text(outcome, tp, ta, ex, imp)
            files['sub/' + nm] = prog_text(outcome, tp, ta, ex, imp)
            if (tp, ta, ex, imp) == (1, 1, 0, 0):
                files['pathdir/onpath_' + nm] = prog_text(outcome, tp, ta, ex, imp)
    return files


# ---- one run: kernprof arguments and the model's view of them ------------------------------------
SELECTIONS = ['json', 'helper', 'both', 'script', 'nosuch']


def make_run(l, b, m, setup, interval, where, extras, sargs, outcome, tp, ta, explicit, imp=0, sel=None, setup_uses=None, special=None,
             fail=None):
    """fail: 'dump' = -o names a file in a directory that does not exist; 'print' = kernprof runs with a closed sys.stdout;
    'missing' = the script / module does not exist"""
    """sel: what -p selects (needs -l): an imported module, an imported function's module, both, the script itself
    (with --prof-imports: every import of the script is registered) or nothing that the program imports"""
    if sel == 'script':
        explicit = 0    # --prof-imports on a program doing `from line_profiler import profile` dies with AttributeError
                        # (the registration statements then call the GlobalProfiler): auto-profiling's business, C08/C09
    name = prog_name(outcome, tp, ta, explicit, imp)
    rp = ra = False
    if special:
        if outcome not in ('ret', 'exit', 'exc'):
            outcome = 'exc'
        if special == 'settrace_none':
            imp = 1
            sel = None if sel == 'script' else sel
        else:
            imp, sel = 0, None
        name = special_name(special, outcome, explicit)
        rp, ra = special in ('rebind_path', 'rebind_both'), special in ('rebind_argv', 'rebind_both')
        tp, ta = int(rp), int(ra)
    args = []
    if l:
        args.append('-l')
    if b:
        args.append('-b')
    if setup_uses:
        setup = True
    if setup:
        args += ['-s', setup_file(setup_uses)]
    if interval is not None:
        args += ['-i', str(interval)]
    if fail == 'dump':
        extras = [x for i, x in enumerate(extras) if x != '-o' and (i == 0 or extras[i - 1] != '-o')] + ['-o', '{TMP}/no_such_dir/out.dat']
    if fail == 'missing':
        name, special, sel, imp = 'no_such_program', None, None, 0
    args += extras
    if m and sel == 'script':
        sel = 'both'
    regs = 0
    if sel:
        path = dict(rel=name + '.py', sub='sub/' + name + '.py', abs='{TMP}/sub/' + name + '.py')[where]
        args += dict(json=['-p', 'json'], helper=['-p', 'helper_mod'], both=['-p', 'json,helper_mod'],
                     script=['-p', path, '--prof-imports'], nosuch=['-p', 'no_such_module'])[sel]
        if l:   # registration statements executed (each ends in enable_by_count): C09's matching, restated
            regs = dict(json=imp, helper=imp, both=2 * imp, script=1 + 2 * imp, nosuch=0)[sel]
    if m:
        script, sdir = name, ''
        args += ['-m', name]
    else:
        script = dict(rel=name + '.py', sub='sub/' + name + '.py', abs='{TMP}/sub/' + name + '.py', path='onpath_' + name + '.py')[where]
        sdir = dict(rel='', sub='sub', abs='/T/sub', path='/T/pathdir')[where]      # bare name: only $PATH finds it (mode 0644)
        args.append(script)
    args += sargs
    return dict(args=args, l=l, b=b, m=m, setup='setupd' if setup else None, interval=interval or 0,
                new_argv=[script.replace('{TMP}', '/T')] + sargs, script_dir=sdir,
                outcome=outcome, tp=bool(tp), ta=bool(ta), explicit=bool(explicit), imp=int(imp), sel=sel, regs=regs,
                setup_uses=list(setup_uses or []), plain=not (l or b), special=special, rp=rp, ra=ra, fail=fail, stdout_closed=(fail == 'print'),
                leave=LEAVES.get(special, 'LNone'))


EXTRAS = [[], ['-v'], ['-z'], ['-v', '-z', '-u', '1e-3'], ['-o', 'out.dat'], ['-v', '-r']]


def random_run(rnd, allow_p=True):
    l, b, m = rnd.random() < 0.5, rnd.random() < 0.4, rnd.random() < 0.35
    outcome = rnd.choice(OUTCOMES)
    explicit = rnd.random() < 0.4 and (l or b)     # see `assumptions`: explicit decorator under plain cProfile mode is C03's
    extras = list(rnd.choice(EXTRAS))
    sel = None
    if allow_p and rnd.random() < 0.3:
        sel = rnd.choice(SELECTIONS)        # without -l the option is accepted and ignored
    return make_run(l, b, m, rnd.random() < 0.3, rnd.choice([None, None, None, 0, 2, 5, 30, -1, -2, 100000]),
                    rnd.choice(['rel', 'rel', 'sub', 'abs']), extras, rnd.choice([[], [], ['a'], ['a', '--flag', 'x y']]),
                    outcome, int(rnd.random() < 0.3), int(rnd.random() < 0.3), int(explicit),
                    imp=int(rnd.random() < 0.6), sel=sel)


def gen_cases(tier, rnd):
    thorough = tier == 'thorough'
    init0 = dict(argv=['driver', 'arg1'], argv_rebound=False, path_rebound=False, profile='undecided')
    cases = []
    # 1. every option set x every outcome, single run  (l, b, m, setup, interval>0)
    for l, b, m, setup, timed in itertools.product((False, True), repeat=5):
        for outcome in OUTCOMES:
            if outcome == 'excin' and not (l or b):
                continue        # without a profile decorator in scope `excin` is the same program as `exc`
            r = make_run(l, b, m, setup, 3 if timed else None, 'rel', [], ['a'], outcome, 0, 0, 0)
            cases.append(dict(kind='single', init=init0, runs=[r]))
    # 1b. auto-profiling selections (-l -p ...): every selection kind x with/without matching imports x outcome x -m
    for sel in SELECTIONS:
        for imp in (0, 1):
            for outcome in OUTCOMES:
                for m in (False, True):
                    r = make_run(True, False, m, False, None, 'rel', [], [], outcome, 0, 0, 0, imp=imp, sel=sel)
                    cases.append(dict(kind='autoprofile', init=init0, runs=[r]))
    # 1c. ... and what the leaked profiler does to the next run (each mode)
    for l2, b2 in ((True, False), (False, True), (False, False)):
        for sel2 in (None, 'helper'):
            r1 = make_run(True, False, False, False, None, 'rel', [], [], 'ret', 0, 0, 0, imp=1, sel='helper')
            r2 = make_run(l2, b2, False, False, None, 'sub', [], [], 'ret', 1, 1, 0, imp=1, sel=sel2)
            cases.append(dict(kind='autoprofile', init=init0, runs=[r1, r2]))
    # 1d. programs that rebind sys.path / sys.argv, and threaded programs with overlapping profiled calls (-l only:
    #     ContextualProfile's count is shared between threads, C05), every mode x outcome x script / module
    for special in SPECIALS:
        for l, b in (((True, False), (False, True), (False, False)) if special not in ('threads', 'suspended_gen', 'worker_only') else ((True, False), (True, True))):
            for outcome in ('ret', 'exit', 'exc'):
                for m in (False, True):
                    r = make_run(l, b, m, rnd.random() < 0.3, None, rnd.choice(['rel', 'sub']), [], ['a'], outcome, 0, 0,
                                 int((l or b) and rnd.random() < 0.3), special=special)
                    cases.append(dict(kind='special-program', init=init0, runs=[r]))
    # 1d+. profiled calls only in worker threads, then a cProfile-flavour run; scripts given by bare name and found on $PATH
    for outcome in ('ret', 'exit', 'exc'):
        for l2, b2 in ((False, True), (False, False), (True, False)):
            r1 = make_run(True, rnd.random() < 0.3, False, False, None, 'rel', [], [], outcome, 0, 0, 0, special='worker_only')
            r2 = make_run(l2, b2, False, False, None, 'sub', [], [], 'ret', 0, 0, int(l2 or b2))
            cases.append(dict(kind='special-program', init=init0, runs=[r1, r2]))
    for l, b in ((True, False), (False, True), (False, False), (True, True)):
        for outcome in ('ret', 'exit', 'exc'):
            cases.append(dict(kind='script-on-path', init=init0,
                              runs=[make_run(l, b, False, rnd.random() < 0.2, None, 'path', [], ['a'], outcome, 1, 1, 0)]))
    # 1d". -p registrations outstanding AND the program removes the trace function itself, then a second run
    for sel in ('json', 'helper', 'both', None):
        for outcome in ('ret', 'exit', 'exc'):
            r1 = make_run(True, rnd.random() < 0.3, False, False, None, 'rel', [], [], outcome, 0, 0, 0, special='settrace_none', sel=sel)
            r2 = make_run(rnd.random() < 0.6, False, False, False, None, 'sub', [], [], 'ret', 0, 0, 0)
            cases.append(dict(kind='special-program', init=init0, runs=[r1, r2]))
    # 1d'. a suspended profiled generator is finalised AFTER its run: look at the run that follows
    for l, b in ((True, False), (True, True), (False, True)):
        for outcome in ('ret', 'exit', 'exc'):
            for l2, b2 in ((True, False), (False, True), (False, False)):
                r1 = make_run(l, b, False, False, None, 'rel', [], [], outcome, 0, 0, 0, special='suspended_gen')
                r2 = make_run(l2, b2, False, False, None, 'sub', [], [], 'ret', 0, 0, int(l2 or b2))
                cases.append(dict(kind='special-program', init=init0, runs=[r1, r2]))
    # 1f. the results cannot be written (-o into a directory that does not exist) / announced (closed stdout), or the script /
    #     module does not exist: every mode x outcome x script / module, then ordinary use (always) and a second run
    for fail in ('dump', 'print', 'missing'):
        for l, b in ((True, False), (False, True), (False, False), (True, True)):
            for outcome in (('ret', 'exit', 'exc') if fail != 'missing' else ('ret',)):
                for m in (False, True):
                    extras = ['-v'] if rnd.random() < 0.4 else []
                    mk = lambda: make_run(l, b, m, rnd.random() < 0.2, None, 'rel', list(extras), ['a'], outcome, 0, 0, 0, fail=fail)  # noqa: E731
                    cases.append(dict(kind='results-fail', init=rnd.choice([init0, dict(init0, profile='disabled')]), runs=[mk()]))
                    r2 = make_run(rnd.random() < 0.5, rnd.random() < 0.5, False, False, None, 'sub', [], [], 'ret', 0, 0, 1)
                    if not (r2['l'] or r2['b']):
                        r2 = make_run(True, False, False, False, None, 'sub', [], [], 'ret', 0, 0, 1)
                    cases.append(dict(kind='results-fail', init=init0, runs=[mk(), r2]))
    for special in ('leave_enable', 'leave_bycount', 'leave_untraced', 'balanced_enable'):      # ... and programs that leave the profiler on
        for l, b in ((True, False), (False, True), (True, True)):
            for fail in ('dump', 'print'):
                cases.append(dict(kind='results-fail', init=init0,
                                  runs=[make_run(l, b, False, False, None, 'rel', [], [], rnd.choice(['ret', 'exit', 'exc']), 0, 0, 0,
                                                 special=special, fail=fail)]))
    # 1e. programs that switch the builtin profile on themselves (enable / enable_by_count / with), left open or balanced,
    #     in every mode that has the builtin, every outcome, script / module - alone and followed by a second run
    for special in sorted(LEAVES):
        for l, b in ((True, False), (False, True), (True, True)):
            for outcome in ('ret', 'exit', 'exc'):
                m = rnd.random() < 0.3
                r = make_run(l, b, m, False, None, 'rel', [], ['a'], outcome, 0, 0, 0, special=special)
                cases.append(dict(kind='program-drives-profiler', init=init0, runs=[r]))
                if outcome != 'exit' or thorough:
                    # (after a cProfile-flavour run whose program left enable_by_count() open, the profiler object left in
                    #  builtins keeps a non-zero count, so a later plain-mode program decorating with that stale object does
                    #  NOT try to enable it; the model does not track the count of a stale builtin: keep the builtin fresh)
                    stale_open = LEAVES[special] == 'LByCount' and not l
                    r2 = make_run(rnd.random() < 0.5 or stale_open, rnd.random() < 0.5, False, False, None, 'sub', [], [], 'ret', 1, 0, 0)
                    cases.append(dict(kind='program-drives-profiler', init=init0,
                                      runs=[make_run(l, b, m, False, None, 'rel', [], ['a'], outcome, 0, 0, 0, special=special), r2]))
    for _ in range(200 if thorough else 12):     # ... and inside sequences
        rs = [random_run(rnd, allow_p=False) for _ in range(rnd.choice([1, 2]))]
        l = rnd.random() < 0.7
        rs.insert(rnd.randrange(len(rs) + 1), make_run(l, False, rnd.random() < 0.3, False, None, 'rel', [], [], rnd.choice(['ret', 'exit', 'exc']),
                                                        0, 0, 0, special=rnd.choice(SPECIALS if l else SPECIALS[:3])))
        cases.append(dict(kind='special-program', init=init0, runs=rs))
    # 1g. -i values as data: negative (argparse takes `-i -2` as the value), zero, 1, large, in every mode x outcome, alone and
    #     followed by a second run; a fractional value is rejected by argparse before anything is touched
    for iv in (-2, -1, 0, 1, 7, 100000):
        for l, b in ((True, False), (False, True), (False, False)):
            for outcome in ('ret', 'exit', 'exc'):
                r = make_run(l, b, rnd.random() < 0.3, False, iv, 'rel', [], ['a'], outcome, 0, 0, 0)
                cases.append(dict(kind='interval-values', init=init0, runs=[r]))
        cases.append(dict(kind='interval-values', init=init0,
                          runs=[make_run(True, False, False, False, iv, 'rel', [], [], 'ret', 0, 0, 0),
                                make_run(False, True, False, False, -iv, 'sub', [], [], 'exc', 0, 0, 1)]))
    for l, b in ((True, False), (False, False)):
        r = make_run(l, b, False, False, None, 'rel', ['-i', '0.5'], ['a'], 'ret', 0, 0, 0)
        cases.append(dict(kind='rejected-options', init=init0, runs=[r]))
    # 2. program behaviours and irrelevant options, single run
    for _ in range(1500 if thorough else 60):
        init = dict(init0, argv=rnd.choice([['driver'], ['driver', 'x', 'y'], ['']]),
                    profile=rnd.choice(['undecided', 'undecided', 'disabled']))
        cases.append(dict(kind='single-random', init=init, runs=[random_run(rnd)]))
    # 3. sequences of 2 and 3 runs
    for _ in range(6000 if thorough else 120):
        n = rnd.choice([2, 2, 3])
        init = dict(init0, profile=rnd.choice(['undecided', 'undecided', 'disabled']))
        cases.append(dict(kind='sequence', init=init, runs=[random_run(rnd) for _ in range(n)]))
    # 3b. runs interleaved with ordinary use of the decorator (enable / disable / decorate) that changes its state
    uses = [['decorate'], ['enable'], ['enable', 'decorate'], ['disable'], ['enable', 'disable', 'decorate'], ['decorate', 'enable']]
    for pat in itertools.product(range(len(uses) + 1), repeat=2):
        for outcome2 in (('ret', 'exc') if not thorough else ('ret', 'exit', 'exc')):
            rs = [make_run(True, False, False, False, None, 'rel', [], ['a'], 'ret', 0, 0, 0),
                  make_run(rnd.random() < 0.5, rnd.random() < 0.5, rnd.random() < 0.3, False, None, 'sub', [], [], outcome2, 0, 0, 0),
                  make_run(True, False, False, False, None, 'rel', [], [], rnd.choice(['ret', 'exit', 'exc']), 0, 0, 0)]
            for r, k in zip(rs[1:], pat):
                r['pre_use'] = uses[k - 1] if k else []
            cases.append(dict(kind='interleaved-use', init=init0, runs=rs))
    for _ in range(600 if thorough else 40):
        rs = [random_run(rnd, allow_p=False) for _ in range(rnd.choice([2, 3]))]      # (a leaked profiler would make the uses fail)
        for r in rs:
            r['pre_use'] = list(rnd.choice(uses + [[], []]))
        cases.append(dict(kind='interleaved-use', init=dict(init0, profile=rnd.choice(['undecided', 'disabled'])), runs=rs))
    # 4. all ordered pairs of (return / raise / -i / module) core behaviours
    core_runs = [(True, False, False, None, 'ret'), (True, False, False, None, 'exc'), (False, False, False, None, 'exit'),
                 (True, False, True, None, 'ret'), (True, False, False, 4, 'ret'), (False, True, True, 4, 'exc')]
    for a, b2 in itertools.product(core_runs, repeat=2):
        rs = [make_run(x[0], x[1], x[2], False, x[3], 'sub', [], [], x[4], 0, 0, 0) for x in (a, b2)]
        cases.append(dict(kind='pairs', init=init0, runs=rs))
    # 5. the caller rebound sys.argv / sys.path after kernprof was imported (C19_restores covers these
    #    states too; before f436ae3 they were outside what could hold)
    for ar, pr in [(True, False), (False, True), (True, True)]:
        for outcome in ('ret', 'exc'):
            for _ in range(4 if thorough else 1):
                r = random_run(rnd)
                r2 = make_run(r['l'], r['b'], r['m'], False, None, 'sub', [], ['a'], outcome, 1, 1, 0)
                cases.append(dict(kind='caller-rebound', init=dict(init0, argv_rebound=ar, path_rebound=pr), runs=[r2]))
    return cases


# ---- the periodic-dump timer driven directly (deterministic interleavings of stop() and a dump) ----
RT_SCHEDULES = [
    ['Stop'],
    ['Fire', 'DumpDone', 'Stop'],
    ['Fire', 'Stop', 'DumpDone'],                         # stop() falls into a dump
    ['Fire', 'Fire', 'Stop', 'DumpDone', 'DumpDone'],     # ... into two overlapping dumps
    ['Fire', 'DumpDone', 'Fire', 'Stop', 'DumpDone'],
    ['Fire', 'DumpDone', 'Stop', 'Fire'],                 # nothing expires after stop()
    ['Fire', 'Stop', 'Fire', 'DumpDone'],                 # ... not even while the dump is still going
]
RT_SCHEDULES_THOROUGH = [
    ['Fire', 'Fire', 'DumpDone', 'Stop', 'DumpDone'],
    ['Fire', 'Fire', 'Fire', 'Stop', 'DumpDone', 'DumpDone', 'DumpDone'],
    ['Fire', 'Stop', 'DumpDone', 'Fire'],
    ['Fire', 'DumpDone', 'Fire', 'DumpDone', 'Fire', 'Stop', 'DumpDone'],
    ['Stop', 'Fire'],
    ['Fire', 'Stop', 'Stop', 'DumpDone'],
]


def rt_model(sched, rearm_first=True):
    """python copy of Cli/MainEffects.v rt_step: (fires, threads after the dumps are over)"""
    running, cur, dumping, orphans = True, 'Armed', 0, 0
    fires = []

    def start():
        nonlocal running, cur, orphans
        if not running:
            if cur == 'Armed':
                orphans += 1
            running, cur = True, 'Armed'
    for e in sched + ['Drain']:
        if e == 'Fire':
            fires.append(cur == 'Armed')
            if cur == 'Armed':
                running, cur, dumping = False, 'Fired', dumping + 1
                if rearm_first:
                    start()
        elif e in ('DumpDone', 'Drain'):
            for _ in range(dumping if e == 'Drain' else min(dumping, 1)):
                dumping -= 1
                if not rearm_first:
                    start()
        elif e == 'Stop':
            running = False
            if cur == 'Armed':
                cur = 'Cancelled'
    return fires, (1 if cur == 'Armed' else 0) + orphans + dumping


def q_rt(sched, o):
    return '(rt_case %s %s %s)' % (core.coq_list(sched), core.coq_list([core.coq_bool(f) for f in o['fires']]), core.coq_z(o['threads']))


# ---- the property, python side -------------------------------------------------------------------
def run_views(case, o):
    """for every kernprof run: (run, observation just before it, observation after it)"""
    prev = o['before']
    for r, ob in zip(case['runs'], o['seen']):
        for u in ob.get('pre', []):
            prev = u
        yield r, prev, ob
        prev = ob


def run_bits(before, final):
    bits = 0
    if final['argv'] != before['argv']:
        bits |= 1
    if final['path'] != before['path']:
        bits |= 2
    same = (final['enabled'], final['profile']) == (before['enabled'], before['profile'])
    unusable = final['enabled'] is True and final['profile'] is None
    if unusable or not same:
        bits |= 4
    if final['tracing'] != before['tracing']:
        bits |= 8
    if final['threads'] != before['threads']:
        bits |= 16
    return bits


def py_bits(case, o):
    bits = 0
    for r, before, final in run_views(case, o):
        bits |= run_bits(before, final)
        if any(u['code'] in (2, 3) for u in final.get('pre', [])):
            bits |= 4
    if o['use'] in (2, 3):
        bits |= 4
    return bits


def failing_view(case, o, bit):
    """the first run on which the clause fails, as a one-run case (what classify / why_text look at)"""
    for r, before, final in run_views(case, o):
        if run_bits(before, final) & bit:
            unusable = final['enabled'] is True and final['profile'] is None
            return (dict(case, runs=[r]), dict(before=before, seen=[final], use=2 if unusable else 0,
                                               use_err="TypeError: 'NoneType' object is not callable" if unusable else None))
    return case, o


def current_path_prediction(case, o):
    """sys.path as the (repaired) no-finally defect left it: entries inserted by runs that raised stay"""
    path = list(o['before']['path'])
    for r, seen in zip(case['runs'], o['seen']):
        entry = list(path)
        if r['m']:
            path.insert(0, '/T')
        if r['setup']:
            path.insert(0, r['setup'])
        if not r['m']:
            path.insert(0, r['script_dir'])
        if r['tp']:
            path.append('/prog-added')
        if seen['raised'] is None:
            path = entry
    return path


def classify(case, o, bit):
    """the finding id iff the failing clause matches that finding's signature exactly"""
    final, last = o['seen'][-1], case['runs'][-1]
    taken_over = final['enabled'] is True and final['profile'] is not None and final['profile'][0] == 'ext'
    if bit == 4 and last.get('fail') == 'missing' and taken_over and final['raised'] == 'SystemExit':
        return FINDINGS[304]
    if bit == 4 and last.get('fail') in ('dump', 'print') and taken_over and final['raised']:
        return FINDINGS[204]
    if bit == 8 and last.get('special') == 'leave_untraced' and last['l'] and not last.get('fail') == 'missing' \
            and not o['before']['tracing'] and final['tracing'] and not final['threads']:
        return FINDINGS[208]
    if bit == 8 and last.get('special') in ('leave_enable', 'leave_bycount', 'leave_with', 'leave_untraced') and not last['l'] and last['b'] \
            and last.get('fail') == 'dump' and not o['before']['tracing'] and final['tracing'] and not final['threads']:
        return FINDINGS[308]
    if bit == 8 and last.get('special') == 'leave_enable' and last['l'] \
            and not o['before']['tracing'] and final['tracing'] and not final['threads']:
        return FINDINGS[108]
    if last.get('special'):
        return None         # none of the repaired defects involved such programs
    if bit == 1:
        want = last['new_argv'] + (['prog-added'] if last['ta'] else [])
        if final['argv'] == want and not final['argv_same'] and not final['argv_cap']:
            return FINDINGS[1]
    if bit == 2:
        raised = any(s['raised'] for s in o['seen'])
        if raised and final['path'] == current_path_prediction(case, o) and final['path_same']:
            return FINDINGS[2]
    if bit == 4:
        if final['enabled'] is True and final['profile'] is None and o['use'] == 2:
            return FINDINGS[4]
    if bit == 8:
        if last['l'] and last.get('regs', 0) > 0 and not o['before']['tracing'] and final['tracing'] and not final['threads']:
            return FINDINGS[8]
    if bit == 16:
        n = sum(1 for r in case['runs'] if r['interval'] != 0)
        if n > 0 and final['threads'] - o['before']['threads'] == n and final['thread_kinds'] == ['Timer']:
            return FINDINGS[16]
    return None


def why_text(case, o, bit):
    final, before = o['seen'][-1], o['before']
    if bit == 1:
        return 'sys.argv was %r, is %r after kernprof.main (same object: %s)' % (before['argv'], final['argv'], final['argv_same'])
    if bit == 2:
        extra = [p for p in final['path'] if p not in before['path']]
        return 'sys.path changed: extra entries %r (main raised: %s)' % (extra, [s['raised'] for s in o['seen']])
    if bit == 4:
        after = o['use_err'] or ['returned its argument', 'returned a wrapper'][min(o['use'], 1)]
        return 'line_profiler.profile was (enabled=%r, _profile=%r) before kernprof.main, is (enabled=%r, _profile=%r) after; ordinary use afterwards: %s' % (
            before['enabled'], before['profile'], final['enabled'], final['profile'], after)
    if bit == 8:
        return 'a profiler / trace hook is still installed after kernprof.main(%s)' % ' '.join(case['runs'][-1]['args'])
    if bit == 16:
        return '%d helper thread(s) still alive after kernprof.main: %r' % (final['threads'] - before['threads'], final['thread_kinds'])
    return '?'


# ---- Coq encoding ----------------------------------------------------------------------------------
def q_strs(xs):
    return core.coq_list([core.coq_str(x) for x in xs])


def q_prof(p):
    if p is None:
        return 'None'
    if p[0] == 'ext':
        return '(Some (Ext %d))' % p[1]
    if p[0] == 'own':
        return '(Some (Own %d))' % p[1]
    return '(Some (Own (-1)))'


def q_obool(b):
    return 'None' if b is None else '(Some %s)' % core.coq_bool(bool(b))


def q_gp(init):
    return 'gp_init' if init['profile'] == 'undecided' else '(mkGP (Some false) None "profile_output" 0 0)'


def q_run(r):
    return '(mkOpts %s %s %s %s %s %s %s %s %s %s %s "/T") (mkProg %s %s %s %s %s %s %s %s [])' % (
        core.coq_bool(r['l']), core.coq_bool(r['b']), core.coq_bool(r['m']),
        core.coq_opt(core.coq_str(r['setup']) if r['setup'] else None),
        core.coq_list([COQ_UOP[u] for u in r.get('setup_uses') or []]), core.coq_z(r['interval']),
        core.coq_bool(r.get('fail') == 'dump'), core.coq_bool(r.get('fail') == 'print'), core.coq_bool(r.get('fail') == 'missing'),
        q_strs(r['new_argv']), core.coq_str(r['script_dir']),
        COQ_OUTCOME[r['outcome']], core.coq_bool(r['tp']), core.coq_bool(r['ta']), core.coq_bool(r.get('rp', False)), core.coq_bool(r.get('ra', False)),
        core.coq_bool(not r['explicit']), r.get('leave', 'LNone'), core.coq_z(r.get('regs', 0)))
    # p_sched = []: in these runs the program ends long before the first expiry (N >= 2 s); the
    # interleavings of stop() with a dump are exercised on the RepeatedTimer directly (RT_SCHEDULES)


def q_seen(s, base_threads):
    return '(mkSeen %s %s %s %s %s %s %s %s %s %s %s)' % (
        core.coq_bool(s['raised'] is not None), q_strs(s['argv']), core.coq_bool(s['argv_same']), core.coq_bool(s['argv_cap']),
        q_strs(s['path']), core.coq_bool(s['path_same']), q_obool(s['enabled']), q_prof(s['profile']), q_prof(s['builtin']),
        core.coq_z(s['threads'] - base_threads), core.coq_bool(s['tracing']))


COQ_USE = dict(enable='AUse UEnable', disable='AUse UDisable', decorate='AUse UDecorate')
COQ_UOP = dict(enable='UEnable', disable='UDisable', decorate='UDecorate')


def q_case(case, o):
    if case['kind'] == 'rejected-options':      # argparse exits before main touches anything: not a run of the model; the
        return '(true, 0%Z)'                     # property is evaluated on the observations python-side
    init, b = case['init'], o['before']
    st = '(mk_state %s %s %s %s %s 0)' % (q_strs(b['argv']), core.coq_bool(init['argv_rebound']), q_strs(b['path']),
                                         core.coq_bool(init['path_rebound']), q_gp(init))
    acts, obs = [], []
    for r, ob in zip(case['runs'], o['seen']):
        for op, u in zip(r.get('pre_use', []), ob.get('pre', [])):
            acts.append(COQ_USE[op])
            obs.append('(%s, %s)' % (q_seen(u, b['threads']), core.coq_z(u['code'])))
        acts.append('ARun ' + q_run(r))
        obs.append('(%s, 0)' % q_seen(ob, b['threads']))
    # the ordinary use afterwards: the driver observes its answer only
    acts_full = core.coq_list(acts)
    return '(c19_case %s %s %s %s %s)' % (st, acts_full, q_seen(b, b['threads']), core.coq_list(obs), core.coq_z(o['use']))


HEADER = '''From LP Require Import Prelude.Py Explicit.Base Gen.GlobalProfiler Cli.MainEffects Cli.MainEffectsProofs.
Definition c19_case (s : St) (acts : list act) (before : seen) (os : list (seen * Z)) (use : Z) : bool * Z :=
  (case_model_ok s acts os
   && Z.eqb (use_code (gp (exec_acts current s acts)) (cur (argv (exec_acts current s acts)))) use,
   Z.lor (spec_bits before acts os) (if Z.eqb use 2 || Z.eqb use 3 then 4 else 0)).
'''


def run_driver(impl, cases, tmp, rt=()):
    payload = dict(tmp=str(tmp), files=all_files(), rt=list(rt),
                   cases=[dict(init=c['init'], runs=[dict(args=[a.replace('{TMP}', str(tmp)) for a in r['args']], pre_use=r.get('pre_use', []), setup_uses=r.get('setup_uses', []), stdout_closed=r.get('stdout_closed', False),
                                                          plain=r.get('plain', False))
                                                     for r in c['runs']])
                          for c in cases])
    out = core.run_impl(impl, DRIVER, payload, timeout=1500, cwd=str(tmp))
    if not out.get('kernprof_file', '').startswith(str(impl)):
        raise RuntimeError('kernprof was not imported from the scratch build: %r' % out.get('kernprof_file'))
    if rt:
        return out['cases'], out['rt']
    return out['cases']


def fails_of(case, o, bits):
    res = []
    for bit in (1, 2, 4, 8, 16):
        if bits & bit:
            vc, vo = failing_view(case, o, bit)
            res.append(dict(case=dict(case, clause=BITNAMES[bit]),
                            impl=dict(before=vo['before'], final=vo['seen'][-1], use=o['use'], use_err=o['use_err'],
                                      raised=[s['raised'] for s in o['seen']],
                                      decorator_states=[[u['enabled'], u['profile']] for s in o['seen'] for u in s.get('pre', []) + [s]]),
                            why=why_text(vc, vo, bit), finding=classify(vc, vo, bit)))
    return res


def run(tier, seed):
    rnd = core.rng(seed, PROP)
    res = core.Result(PROP)
    gen = core.regenerate(['GlobalProfiler.v'])
    res.obl = core.check_obligations(PROP, MODULE, THEOREMS)
    if gen.get('GlobalProfiler.v'):
        res.obl['failures'].append('translator refused the source: ' + gen['GlobalProfiler.v'])
    impl = core.build_impl()
    tmp = core.SCRATCH_ROOT / 'tmp' / ('c19-%d-%d' % (seed, os.getpid()))      # concurrent checks must not share it
    shutil.rmtree(tmp, ignore_errors=True)
    tmp.mkdir(parents=True, exist_ok=True)
    tmp = tmp.resolve()
    try:
        cases = gen_cases(tier, rnd)
        for fid in sorted(FINDINGS.values()):       # canonical replays of the known findings are always included
            p = core.VERIF / 'findings' / (fid + '.json')
            if p.exists():
                cases.append(dict(json.loads(p.read_text())['case'], kind='finding-replay'))
        rt_scheds = RT_SCHEDULES + (RT_SCHEDULES_THOROUGH if tier == 'thorough' else [])
        out, rt_out = run_driver(impl, cases, tmp, rt=rt_scheds)

        def rt_fail(sched, o):
            if 'Stop' in sched and o['threads'] != 0:
                return dict(case=dict(kind='repeated-timer', schedule=sched, clause=BITNAMES[16]), impl=o,
                            why='RepeatedTimer: %d timer thread(s) alive after stop() and after the dumps in progress returned '
                                '(schedule %s)' % (o['threads'], ' '.join(sched)), finding=None)
            return None

        def search(budget):
            c2 = gen_cases('thorough', core.rng(seed + 1, PROP))
            o2, rt2 = run_driver(impl, c2, tmp, rt=RT_SCHEDULES + RT_SCHEDULES_THOROUGH)
            for sc, o in zip(RT_SCHEDULES + RT_SCHEDULES_THOROUGH, rt2):
                if rt_fail(sc, o):
                    return rt_fail(sc, o)
            known = {e['id'] for e in core.load_findings(PROP)}
            first_known = None
            for c, o in zip(c2, o2):
                if c['kind'] == 'model-only':
                    continue
                for sf in fails_of(c, o, py_bits(c, o)):
                    sf['why'] += ' (search)'
                    if sf['finding'] not in known:
                        return sf
                    first_known = first_known or sf
            return first_known
        res.search = search

        model_ok = not any('build of' in f or 'translator refused' in f for f in res.obl['failures'])
        coq_bits = {}
        if model_ok:
            per = 120
            idx = list(range(len(cases)))
            chunks = core.chunks(idx, per)
            bodies = []
            for ch in chunks:
                body = 'Definition rows : list (bool * Z) := [\n' + ';\n'.join(q_case(cases[i], out[i]) for i in ch) + '].\n'
                body += 'Eval vm_compute in (false_indices (map fst rows)).\nEval vm_compute in (map snd rows).\n'
                bodies.append(body)
            rt_body = 'Definition rows : list (bool * bool) := [\n' + ';\n'.join(q_rt(sc, o) for sc, o in zip(rt_scheds, rt_out)) + '].\n'
            rt_body += 'Eval vm_compute in (false_indices (map fst rows)).\nEval vm_compute in (false_indices (map snd rows)).\n'
            bodies.append(rt_body)
            shards = core.run_shards('c19', HEADER, bodies)
            rt_shard = shards.pop()
            if rt_shard[0] != 'ok' or len(rt_shard[1]) != 2:
                res.infra_errors.append('timer shard failed: %s' % str(rt_shard[1])[-600:])
            else:
                for j in rt_shard[1][0]:
                    res.mismatches.append(dict(case=dict(kind='repeated-timer', schedule=rt_scheds[j]), impl=rt_out[j],
                                               model='rt_step (re-arm before dump) predicts fires=%r threads=%r' % rt_model(rt_scheds[j])))
                for j in rt_shard[1][1]:
                    if not rt_fail(rt_scheds[j], rt_out[j]):
                        res.infra_errors.append('python and Coq disagree on timer schedule %d' % j)
            for k, sres in enumerate(shards):
                if sres[0] != 'ok' or len(sres[1]) != 2 or len(sres[1][1]) != len(chunks[k]):
                    res.infra_errors.append('shard %d failed: %s' % (k, str(sres[1])[-600:]))
                    continue
                mism, bitlist = sres[1]
                for j in mism:
                    i = chunks[k][j]
                    res.mismatches.append(dict(case=cases[i], impl=out[i], model='Cli/MainEffects.v (current) predicts a different observation'))
                for j, bits in enumerate(bitlist):
                    coq_bits[chunks[k][j]] = bits
        for sc, o in zip(rt_scheds, rt_out):
            if o['noisy']:
                res.notes.append('timer schedule %s: an unscheduled expiry slipped in twice (machine stalled)' % ' '.join(sc))
            f = rt_fail(sc, o)
            if f:
                res.spec_fails.append(f)
            elif (o['fires'], o['threads']) != rt_model(sc) and not model_ok:
                res.mismatches.append(dict(case=dict(kind='repeated-timer', schedule=sc), impl=o, model=repr(rt_model(sc))))
        stats = dict(runs=0, raised=0, timed=0, module=0, line=0, builtin=0, setup=0)
        bit_hist = {}
        kinds = {}
        lens = {}
        outcomes = {}
        distinct = set()
        for i, (c, o) in enumerate(zip(cases, out)):
            kinds[c['kind']] = kinds.get(c['kind'], 0) + 1
            lens[len(c['runs'])] = lens.get(len(c['runs']), 0) + 1
            for r, s in zip(c['runs'], o['seen']):
                stats['runs'] += 1
                stats['raised'] += s['raised'] is not None
                stats['timed'] += r['interval'] != 0
                stats['module'] += r['m']
                stats['line'] += r['l']
                stats['builtin'] += r['b']
                stats['setup'] += bool(r['setup'])
                outcomes[r['outcome']] = outcomes.get(r['outcome'], 0) + 1
            distinct.add(json.dumps([c['init'], [r['args'] for r in c['runs']]], sort_keys=True))
            if c['kind'] == 'model-only':
                continue
            bits = py_bits(c, o)
            if i in coq_bits and coq_bits[i] != bits:
                res.infra_errors.append('python and Coq evaluations of the property disagree on case %d: %d vs %d' % (i, bits, coq_bits[i]))
            bits |= coq_bits.get(i, 0)
            bit_hist[bits] = bit_hist.get(bits, 0) + 1
            res.spec_fails += fails_of(c, o, bits)
        n_raise = sum(1 for c, o in zip(cases, out) if c['kind'] != 'model-only' and any(s['raised'] for s in o['seen']))
        n_timed = sum(1 for c in cases if c['kind'] != 'model-only' and any(r['interval'] != 0 for r in c['runs']))
        n_stale = sum(1 for c, o in zip(cases, out) for r, s in zip(c['runs'], o['seen'])
                      if s['raised'] and COQ_OUTCOME[r['outcome']] != 'Exc')
        res.coverage = dict(
            evaluations=len(cases) + len(rt_scheds), distinct_nontrivial=len(distinct) + len(rt_scheds),
            repeated_timer_schedules=[dict(schedule=sc, fires=o['fires'], threads=o['threads']) for sc, o in zip(rt_scheds, rt_out)],
            rule='every case is non-trivial (at least one real kernprof.main run that executes a generated program); distinct by '
                 'initial state and the kernprof argument lists of its runs.  Complete enumeration of the 32 effect-relevant option sets '
                 '(-l, -b, -m, -s, -i N) x 5 program outcomes (return, sys.exit, KeyboardInterrupt, raise at top level, raise inside a '
                 'profiled function) as single runs, all ordered pairs of 6 core behaviours, plus seeded random runs / sequences of 2-3 runs '
                 'with irrelevant options (-v -z -r -u -o), all kinds of -p selections with and without matching imports (and --prof-imports), program edits of sys.path / sys.argv, script given relative / in a '
                 'subdirectory / absolute, results that cannot be written (-o into a missing directory) or announced (closed stdout), scripts / modules that do not exist, programs that drive the builtin profile themselves (enable / enable_by_count / with, left open or balanced), programs that rebind sys.path / sys.argv, threaded programs whose profiled calls overlap across threads, decided and undecided initial decorator; plus the real kernprof.RepeatedTimer driven through '
                 'deterministic schedules of expiry / dump completion / stop() (a blocking dump function places stop() inside a dump)',
            exhaustive=True, case_kinds=kinds, runs_per_case=lens, run_stats=stats, outcomes=outcomes,
            clause_failure_bits_histogram={str(k): v for k, v in sorted(bit_hist.items())},
            hypothesis_holds_on=dict(usable_initial_state=len(cases), cases_where_main_raised=n_raise, cases_with_interval_timer=n_timed,
                                     runs_raising_only_because_of_a_stale_builtin_profile=n_stale,
                                     caller_rebound_argv_or_path=kinds.get('caller-rebound', 0)),
            samples=[dict(case=cases[i], impl=out[i]) for i in (0, len(cases) // 2)],
            translated=['line_profiler/explicit_profiler.py::GlobalProfiler._kernprof_overwrite, __call__ (+ the rest of Gen/GlobalProfiler.v)'],
            trusted_base_extra=[
                'hand-modelled, tied by correspondence only: kernprof.main\'s effect skeleton, contextlib.contextmanager used as a decorator '
                '(lists looked up at call time, written back and re-bound in a finally), RepeatedTimer start/stop, the profiler being switched '
                'off by wrappers / runctx',
                'py2coq translation of _kernprof_overwrite / __call__ (validated by C14\'s tables and by the use-after-run observations here)',
                'the driver restores the interpreter between cases itself (reset); cases are independent',
                'os.path.dirname / abspath(curdir) of the script are computed by the harness and handed to the model',
                'sys.gettrace / sys.getprofile / sys.monitoring.get_tool as the observation of "a profiler is enabled"'])
        res.assumptions = ['the profiled program does not itself rebind sys.argv / sys.path, start threads or leave a profiler enabled',
                           'the explicit `from line_profiler import profile` decorator is exercised under -l / -b only (under plain cProfile '
                           'mode a nested enable raises on 3.12: C03)',
                           'option parsing itself (which tokens are kernprof\'s) is C15; here argument lists are simple']
    finally:
        shutil.rmtree(tmp, ignore_errors=True)
    return res


def replay(path):
    data = json.load(open(path))
    impl = core.build_impl()
    c = data['case']
    tmp = (core.SCRATCH_ROOT / 'tmp' / ('c19-replay-%d' % os.getpid()))
    shutil.rmtree(tmp, ignore_errors=True)
    tmp.mkdir(parents=True, exist_ok=True)
    tmp = tmp.resolve()
    try:
        if c.get('kind') == 'repeated-timer':
            o = run_driver(impl, [], tmp, rt=[c['schedule']])[1][0]
            ok = not ('Stop' in c['schedule'] and o['threads'] != 0)
            print(json.dumps(dict(case=c, impl=o, holds=ok), indent=1))
            return 0 if ok else 1
        o = run_driver(impl, [c], tmp)[0]
    finally:
        shutil.rmtree(tmp, ignore_errors=True)
    bits = py_bits(c, o)
    only = data.get('clause_bit') or {v: k for k, v in BITNAMES.items()}.get(c.get('clause'))
    if only:
        bits &= only        # a replay is about one clause of the property
    fails = [dict(clause=BITNAMES[b], why=why_text(c, o, b), finding=classify(c, o, b)) for b in (1, 2, 4, 8, 16) if bits & b]
    print(json.dumps(dict(case=c, final=o['seen'][-1], before=o['before'], use=o['use'], use_err=o['use_err'], holds=bits == 0, failing=fails), indent=1))
    return 0 if bits == 0 else 1
