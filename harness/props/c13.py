"""C13 - counts stay exact under threads and interleaved tasks.  Theorems: Props/C13.v.
Tie: (a) real threads (2-4, voluntary yields, tiny switch interval in the thorough tier): the reported counts
must equal the schedule-independent per-thread sum computed from the recorded history, every thread's enable
count must be 0 afterwards, trace slot and tool released; (b) interleaved generators/coroutines on one thread."""
import sys
from harness import core, e1common

PROP = 'C13'
MODULE = 'Props.C13'
THEOREMS = ['C13_sum_of_threads', 'C13_interleave_invariant', 'C13_unenabled_thread_silent', 'C13_hits_exact',
            'C13_reported_interleave_invariant', 'C13_nonvacuous', 'C13_model_is_generated_core',
            'C13_operations_are_thread_local', 'C13_idle_thread_untouched', 'C13_disable_effect']
LEVEL = 'proof'
FEATURES_T = [{'gen'}, set(), {'rec'}, {'gen', 'rec'}, {'rawthreads'}, {'rawthreads', 'gen'}]
FEATURES_M = [{'monitor'}, {'baton'}, {'baton', 'gen'}, {'baton', 'rec'}, {'monitor', 'gen'}, {'baton', 'monitor'}]
FEATURES_I = [{'gen'}, {'gen', 'co'}, {'co'}, {'gen', 'rec'}, {'gen', 'straddle'}, {'gen', 'straddle', 'rec'}]
FEATURES_C = [{'agen'}, {'agen', 'co', 'cotasks'}, {'agen', 'rec'}, {'co', 'cotasks'}, {'co', 'cotasks', 'gen'}, {'co', 'cotasks', 'rec'}, {'co', 'cotasks', 'asyncio'}, {'co', 'asyncio', 'cotasks', 'rec'}]


def run(tier, seed):
    res = e1common.run_property(PROP, MODULE, THEOREMS, tier, seed, 80, 8000, FEATURES_T, 'hits', threads=True, ticks=(0,))
    res2 = e1common.run_property(PROP, MODULE, THEOREMS, tier, seed + 1, 80, 8000, FEATURES_I, 'hits', ticks=(0,))
    res.mismatches += res2.mismatches
    res.spec_fails += res2.spec_fails
    res.infra_errors += res2.infra_errors
    c1, c2 = res.coverage, res2.coverage
    c1['evaluations'] += c2['evaluations']
    c1['distinct_nontrivial'] += c2['distinct_nontrivial']
    c1['events'] += c2['events']
    c1['samples'] += c2['samples'][:1]
    c1['interleaved_tasks_part'] = dict(evaluations=c2['evaluations'], hypothesis_holds_on=c2['hypothesis_holds_on'])
    res4 = e1common.run_property(PROP, MODULE, THEOREMS, tier, seed + 3, 50, 4000, FEATURES_C, 'hits', ticks=(0,), extra_cases=[e1common.FIXED_COTASKS, e1common.FIXED_ASYNCIO])
    e1common.merge_results(res, res4, 'concurrent_coroutines_part')
    res3 = e1common.run_property(PROP, MODULE, THEOREMS, tier, seed + 2, 60, 4000, FEATURES_M, 'hits', threads=True, ticks=(0,))
    e1common.merge_results(res, res3, 'monitor_part')
    res.assumptions.append('memory safety of the C++ maps under the GIL is observed (no crash), not proved (partial)')
    return res


def replay(path):
    return e1common.replay(PROP, path, 'hits')
