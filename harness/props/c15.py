"""C15 - kernprof never takes the program's arguments for its own.

Theorem side: Props/C15.v over Gen/PreParse.v (the pre-parser, regenerated from
kernprof.py), Gen/KernprofArgs.v (option table read off main()), the argparse model
(environment, validated here against the real argparse through the real kernprof.main)
and the glue of Cli/KernprofCmdline.v.
Tie: in-process runs of the real kernprof.main on generated command lines with a program
that records sys.argv; the namespace argparse produced is captured by a spy on
ArgumentParser.parse_args (driver only)."""
import json

from harness import core

PROP = 'C15'
MODULE = 'Props.C15'
THEOREMS = ['C15_module_mode', 'C15_script_mode', 'C15_script_shield', 'C15_script_shield_later',
            'C15_preparse_no_directive', 'C15_fuel_irrelevant', 'C15_ambiguous_abbreviation_refuted',
            'C15_nonvacuous']
LEVEL = 'proof'

LONGS = ['--help', '--version', '--line-by-line', '--builtin', '--outfile', '--setup', '--view', '--rich',
         '--unit', '--skip-zero', '--output-interval', '--prof-mod', '--prof-imports']
SCRIPTS = ['s.py', 'prog.py', 'x', '-5']
MODULES = ['mod1', 'pkgm']
UNITS = ['1e-3', '0.5', '1', '2.5e-2']
OUTS = ['out1.lprof', 'res.prof', 'o']
PMODS = ['nonexistentmod', 'nomod2']

FLAG_ITEMS = [['-l'], ['-b'], ['-v'], ['-z'], ['-r'], ['--line-by-line'], ['--builtin'], ['--view'], ['--skip-zero'],
              ['--rich'], ['--prof-imports'], ['-lv'], ['-lb'], ['-bvz'], ['-lvz'], ['--line'], ['--vie'], ['--sk'],
              ['--prof-i']]
REST_TOKENS = ['-l', '-v', '-o', 'out.x', '--outfile=zzz', '-h', '--help', '-V', '--version', '-x', '--unknown', 'a',
               'b c', '', '-5', '-i', '--line', '--no', '-lvx', '=', '-', '--outfile', '-u', '-b', '-p', 'x.py', '-z',
               '--unit=3', '-o=1', '-ofoo', '-.5', '--builtin', '-lq',
               # tokens other argparse conventions would treat specially (file expansion, other prefix characters)
               '@args.txt', '@nofile', '@', '+l', '+v', ':v',
               # the switches of the importable decorator (explicit_profiler): under kernprof they are program arguments
               '--line-profile', '--line_profile',
               # longer tokens that merely begin like kernprof's own -m
               '-march=native', '-m32', '-max']
AMBIG_TOKENS = ['--p', '--prof', '--pro=3', '--o', '--out', '--ou', '--=', '--s', '--v', '--r', '--pr', '--outfile=', '--l']


def ambiguous(tok):
    if not tok.startswith('--') or tok == '--':
        return False
    pfx = tok.split('=', 1)[0]
    if pfx in LONGS:
        return False
    return sum(1 for l in LONGS if l.startswith(pfx)) >= 2


def gen_value_item(rnd):
    k = rnd.randrange(12)
    f, u, p = rnd.choice(OUTS), rnd.choice(UNITS), rnd.choice(PMODS)
    return [['-o', f], ['-o' + f], ['--outfile', f], ['--outfile=' + f], ['-o=' + f], ['--outf', f], ['--outf=' + f],
            ['-u', u], ['-u' + u], ['--unit=' + u], ['-p', p], ['--prof-m=' + p]][k]


def gen_prefix(rnd, n):
    items = []
    for _ in range(n):
        r = rnd.random()
        if r < 0.55:
            items += rnd.choice(FLAG_ITEMS)
        elif r < 0.9:
            items += gen_value_item(rnd)
        elif r < 0.92:
            items += ['-lo', rnd.choice(OUTS)]
        else:
            items += ['-s', 'setup.py']
    return items


def gen_rest(rnd, n, allow_m, allow_sep, allow_ambig):
    pool = list(REST_TOKENS)
    if allow_m:
        pool += ['-m', '-m', 'mod1']
    if allow_sep:
        pool += ['--', '--']
    if allow_ambig:
        pool += AMBIG_TOKENS
    return [rnd.choice(pool) for _ in range(n)]


def gen_cases(tier, rnd):
    """Returns list of dict(args, cls, prefix, target, rest, mode).  cls:
       'module'         prefix -m mod rest              (all rest)            in the quantifier
       'script'         prefix script rest              (rest without -m/--)  in the quantifier
       'shield'         prefix script -- rest           (all rest)            in the quantifier
       'shield_later'   prefix script r1 -- r2          (r1 non-empty w/o -m/--)
       'base'           prefix target                   companion giving the reference configuration
       'malformed'      anything                        model validation only"""
    n = 110 if tier == 'quick' else 12000
    cases = []

    def add(cls, prefix, target, rest, mode, args):
        cases.append(dict(cls=cls, prefix=prefix, target=target, rest=rest, mode=mode, args=args))
    for i in range(n):
        prefix = gen_prefix(rnd, rnd.choice([0, 1, 1, 2, 2, 3, 4]))
        rest = gen_rest(rnd, rnd.choice([0, 1, 2, 3, 4, 5]), False, False, i % 5 == 0)
        anyrest = gen_rest(rnd, rnd.choice([0, 1, 2, 3, 4, 5]), True, True, True)
        kind = i % 4
        if kind == 0:
            mod = rnd.choice(MODULES)
            add('module', prefix, mod, anyrest, 'module', prefix + ['-m', mod] + anyrest)
            add('base', prefix, mod, [], 'module', prefix + ['-m', mod])
        elif kind == 1:
            s = rnd.choice(SCRIPTS)
            add('script', prefix, s, rest, 'script', prefix + [s] + rest)
            add('base', prefix, s, [], 'script', prefix + [s])
        elif kind == 2:
            s = rnd.choice(SCRIPTS)
            add('shield', prefix, s, anyrest, 'script', prefix + [s, '--'] + anyrest)
            add('base', prefix, s, [], 'script', prefix + [s])
        else:
            s = rnd.choice(SCRIPTS)
            r1 = gen_rest(rnd, rnd.choice([1, 2, 3]), False, False, False)
            add('shield_later', prefix, s, r1 + ['--'] + anyrest, 'script', prefix + [s] + r1 + ['--'] + anyrest)
            add('base', prefix, s, [], 'script', prefix + [s])
    # a setup file that uses the importable decorator (which then looks at sys.argv itself) together with program
    # arguments spelled like that decorator's own switches, in every class of the quantifier
    for pre in (['-s', 'setup.py'], ['-l', '-s', 'setup.py'], ['-b', '-s', 'setup.py', '-v']):
        for sw in (['--line-profile', 'in.txt'], ['a', '--line_profile'], ['--line-profile', '--line_profile', '--line-profile']):
            add('script', pre, 's.py', sw, 'script', pre + ['s.py'] + sw)
            add('base', pre, 's.py', [], 'script', pre + ['s.py'])
            add('module', pre, 'mod1', sw, 'module', pre + ['-m', 'mod1'] + sw)
            add('base', pre, 'mod1', [], 'module', pre + ['-m', 'mod1'])
            add('shield', pre, 's.py', sw, 'script', pre + ['s.py', '--'] + sw)
            add('base', pre, 's.py', [], 'script', pre + ['s.py'])
    # malformed stream: shuffles of everything, exercised for model = implementation only
    for i in range(n // 2):
        toks = gen_prefix(rnd, rnd.choice([0, 1, 2])) + gen_rest(rnd, rnd.choice([0, 1, 2, 3]), True, True, True)
        if rnd.random() < 0.7:
            toks.insert(rnd.randrange(len(toks) + 1), rnd.choice(SCRIPTS))
        rnd.shuffle(toks)
        add('malformed', [], None, [], None, toks)
    # fixed corpus (documented cases of the test-suite and earlier probes)
    for args in (['-p', 'bar', '-m', 'mod1', '-p', 'baz'], ['-p', 'bar', '-m', '--', 'mod1'],
                 ['-p', 'bar', 's.py', '--', '-m', 'mod1', '-p', 'baz'], ['-l', '--', 's.py', '-m', 'c'],
                 ['-l', 's.py', '--prof'], ['-l', 's.py', 'a', '--', 'b', '-m', 'c'], ['-m'], ['-l', '-m'], [],
                 ['-l', '-i', 's.py'], ['-lvo', 'o', 's.py', '-o', 'zz']):
        add('malformed', [], None, [], None, args)
    return cases


def py_spec(c, o, base):
    """The property on the implementation's own observations.  Returns (ok, why)."""
    if c['cls'] in ('base', 'malformed'):
        return True, ''
    if base['kind'] != 'ran':
        return True, 'prefix invalid (outside the quantifier)'
    exp_rest = c['rest']
    if o['kind'] != 'ran' or o['rec'] is None:
        return False, 'kernprof did not run the program: %s %s' % (o['kind'], o['detail'])
    if o['rec']['argv'] != [c['target']] + exp_rest:
        return False, 'program saw %r, expected %r' % (o['rec']['argv'], [c['target']] + exp_rest)
    if o['rec'].get('argv_after_decorating', o['rec']['argv']) != o['rec']['argv']:
        return False, 'the importable decorator changed sys.argv under kernprof: %r' % (o['rec'].get('argv_after_decorating'),)
    if o['ns'] != base['ns'] or o['files'] != base['files'] or o['viewed'] != base['viewed'] \
            or o['rec']['profile_type'] != base['rec']['profile_type']:
        return False, 'kernprof configuration changed with the program arguments'
    return True, ''


def classify_finding(c, o):
    if c['cls'] == 'script' and o['kind'] == 'usage' and 'ambiguous option' in (o.get('stderr') or '') \
            and any(ambiguous(t) for t in c['rest']):
        return 'C15-ambiguous-abbreviation-after-script'
    if c['cls'] == 'shield_later' and o['kind'] == 'usage' and 'ambiguous option' in (o.get('stderr') or ''):
        i = c['rest'].index('--')
        if any(ambiguous(t) for t in c['rest'][:i]):
            return 'C15-ambiguous-abbreviation-after-script'
    return None


def run_cases(impl, cases, tmp):
    return core.run_impl(impl, 'harness.drivers.c15',
                         dict(cases=[c['args'] for c in cases], scripts=SCRIPTS + [m + '.py' for m in MODULES] + ['setup.py'],
                              tmp=str(tmp)), timeout=1800)['out']


def run(tier, seed):
    rnd = core.rng(seed, PROP)
    res = core.Result(PROP)
    gen = core.regenerate(['PreParse.v', 'KernprofArgs.v'])
    res.obl = core.check_obligations(PROP, MODULE, THEOREMS, extra_vo=['theories/Cli/C15Cases.vo'])
    for k, v in gen.items():
        if v:
            res.obl['failures'].append('translator refused the source (%s): %s' % (k, v))
    if tier == 'thorough' and not res.obl['failures']:
        core.thorough_coqchk(res, MODULE)
    impl = core.build_impl()
    tmp = core.SCRATCH_ROOT / 'tmp'
    tmp.mkdir(parents=True, exist_ok=True)
    cases = gen_cases(tier, rnd)
    out = run_cases(impl, cases, tmp)

    def check_spec(cases, out):
        fails = []
        base = None
        for i, (c, o) in enumerate(zip(cases, out)):
            if c['cls'] in ('base', 'malformed'):
                continue
            base = out[i + 1]
            ok, why = py_spec(c, o, base)
            if not ok:
                fails.append(dict(case=c, impl=o, why=why, finding=classify_finding(c, o)))
        return fails

    def search(budget):
        c2 = gen_cases('thorough', core.rng(seed + 7, PROP))[:2400]
        o2 = run_cases(impl, c2, tmp)
        for f in check_spec(c2, o2):
            if f['finding'] is None:
                return f
        return None
    res.search = search
    res.spec_fails = check_spec(cases, out)

    # ---- shards: model = implementation on every case (incl. malformed) ----------
    KIND = {'ran': 0, 'usage': 1, 'exit0': 2, 'valueerror': 3}
    model_ok = not any('build of' in f or 'translator' in f for f in res.obl['failures'])
    skipped_type = 0
    rows_all = []
    for c, o in zip(cases, out):
        if o['kind'] == 'exc':
            res.infra_errors.append('driver: unexpected exception for %r: %s' % (c['args'], o['detail']))
            continue
        if o['kind'] == 'usage' and ('invalid int value' in o['stderr'] or 'invalid positive_float' in o['stderr']):
            skipped_type += 1      # type conversion of option values is not modelled
            continue
        if o['kind'] == 'usage' and o['detail'] == '1':
            skipped_type += 1      # find_script / find_module_script failed (exit status 1): outside the model
            continue
        try:
            args = core.coq_list([core.coq_str(a) for a in c['args']])
        except ValueError:
            continue
        rows_all.append((c, o, args))
    if model_ok:
        per = 300
        bodies = []
        for chunk in core.chunks(rows_all, per):
            rows = []
            for c, o, args in chunk:
                kind = KIND[o['kind']]
                if o['kind'] == 'ran' and o['rec'] is not None and o['ns'] is not None:
                    ns = o['ns']
                    argv = core.coq_list([core.coq_str(a) for a in o['rec']['argv']])
                    flags = core.coq_list([core.coq_bool(bool(ns[k])) for k in
                                           ('line_by_line', 'builtin', 'view', 'rich', 'skip_zero', 'prof_imports')])
                    unit = None
                    if not isinstance(ns['unit'], str):
                        cands = []
                        for tkn in c['args']:
                            cands += [tkn, tkn[2:], tkn.split('=', 1)[-1]]
                        for u in cands:
                            try:
                                if float(u) == ns['unit']:
                                    unit = u
                            except ValueError:
                                pass
                    pm = core.coq_list([core.coq_str(x) for x in (ns['prof_mod'] or [])])
                    rows.append('(run_ok %s %s %s %s %s %s %s)' % (
                        args, argv, flags,
                        core.coq_opt(core.coq_str(ns['outfile']) if ns['outfile'] is not None else None),
                        core.coq_opt(core.coq_str(ns['setup']) if ns['setup'] is not None else None),
                        core.coq_opt(core.coq_str(unit) if unit else None), pm))
                else:
                    rows.append('(Z.eqb (result_kind (kernprof_cmdline %s)) %d)' % (args, kind))
            body = 'Definition rows : list bool := [\n' + ';\n'.join(rows) + '].\nEval vm_compute in (false_indices rows).\n'
            bodies.append(body)
        shards = core.run_shards('c15', 'From LP Require Import Prelude.Py Cli.KernprofCmdline Cli.C15Cases.', bodies)
        for k, sres in enumerate(shards):
            if sres[0] != 'ok' or len(sres[1]) != 1:
                res.infra_errors.append('shard %d failed: %s' % (k, str(sres[1])[-600:]))
                continue
            for i in sres[1][0]:
                c, o, _ = rows_all[k * per + i]
                res.mismatches.append(dict(case=c, impl=o, model='kernprof_cmdline disagrees (kind, argv or namespace)'))
    hist = {}
    for c in cases:
        hist[c['cls']] = hist.get(c['cls'], 0) + 1
    kinds = {}
    for o in out:
        kinds[o['kind']] = kinds.get(o['kind'], 0) + 1
    nontrivial = {tuple(c['args']) for c, o in zip(cases, out)
                  if c['cls'] not in ('base', 'malformed') and c['rest'] and any(t.startswith('-') for t in c['rest'])}
    res.coverage = dict(
        evaluations=len(cases), distinct_nontrivial=len(nontrivial),
        rule='seeded generator: valid option prefixes (every spelling: clustered, attached, =, unique abbreviations) x '
             '{-m module, script, script --, script r1 --} x program argument lists drawn from option-like and plain tokens; '
             'each with a companion run of the prefix alone (reference configuration); a malformed stream (shuffles) for '
             'model validation; non-trivial = in the quantifier with at least one option-like program argument',
        samples=[dict(case=cases[i], impl=out[i]) for i in (0, 2, 4, 6)],
        case_classes=hist, implementation_outcomes=kinds, skipped_outside_model=skipped_type,
        translated=['kernprof.py::pre_parse_single_arg_directive -> Gen/PreParse.v',
                    'kernprof.py::main add_argument calls -> Gen/KernprofArgs.v'],
        trusted_base_extra=['py2coq translator + Prelude list primitives',
                            'Cli/ArgparseModel.v: hand model of argparse 3.12.1 parse_args for this parser shape (environment), '
                            'validated against the real argparse through kernprof.main on every case incl. the malformed stream; '
                            'type conversion of option values not modelled',
                            'Cli/KernprofCmdline.v glue (options.args += post_args; sys.argv = [script] + args): hand model, '
                            'guarded by translator checks on the source text of main() and tied by correspondence'])
    res.assumptions = ['a valid option prefix is one for which kernprof runs `prefix target` (executable hypothesis of the theorems)',
                       'script names are classified as positional by argparse (do not start with "-" unless a negative number)']
    return res


def replay(path):
    data = json.load(open(path))
    impl = core.build_impl()
    tmp = core.SCRATCH_ROOT / 'tmp'
    tmp.mkdir(parents=True, exist_ok=True)
    c = data['case']
    base = dict(c, cls='base', rest=[], args=c['prefix'] + (['-m', c['target']] if c['mode'] == 'module' else [c['target']]))
    o, b = run_cases(impl, [c, base], tmp)
    ok, why = py_spec(c, o, b)
    print(json.dumps(dict(case=c, impl=o, base=b, holds=ok, why=why), indent=1))
    return 0 if ok else 1
