"""C06 - results are delivered however the profiled program ends.

Theorem side: Props/C06.v over Cli/DeliverModel.v (program = stream of tracing
events, profilers = folds, kernprof.main's try/except/finally skeleton = a
statement of a small language with an interpreter) and the translated
GlobalProfiler (Gen/GlobalProfiler.v) for the explicit mode.
Tie: generated deterministic programs with a termination trigger at the K-th
executed statement line, kinds {return, sys.exit(3), KeyboardInterrupt,
ValueError}, modes {kernprof -l, -l -p, -b, plain, -l -m, -m, LINE_PROFILE=1} and the
-i 1 variants {-l -i 1, -i 1, -b -i 1} with a periodic dump forced at a known statement; the
written files are loaded with the rebuilt package's loaders and compared inside Coq
with the model's snapshot and with the exact execution counts of an independent
sys.settrace oracle run of the same program."""
import collections
import json
import os
import re
import shutil
import subprocess
import time
from concurrent.futures import ThreadPoolExecutor

from harness import core

PROP = 'C06'
MODULE = 'Props.C06'
THEOREMS = ['C06_dump_on_every_outcome', 'C06_view_agrees_with_file', 'C06_flush_before_dump_would_lose_results',
            'C06_final_dump_with_periodic_dumps', 'C06_cprofile_periodic_dump_refuted', 'C06_wrapper_windows_transparent',
            'C06_unwindowed_segment_would_be_lost', 'C06_builtin_mode_records_profiled_sections', 'C06_content',
            'C06_content_closed_stream', 'C06_content_nonvacuous', 'C06_explicit_atexit_partial',
            'C06_explicit_stdout_unusable_refuted', 'C06_explicit_nonvacuous']
LEVEL = 'proof'

# 'bexc': an uncaught exception that is no Exception (an application's own BaseException subclass, like
# asyncio.CancelledError or GeneratorExit): for kernprof's try/except/finally skeleton it is kind 3 as well
KINDS = ['none', 'exit', 'kbd', 'exc', 'bexc']
KCODE = {'none': 0, 'exit': 1, 'kbd': 2, 'exc': 3, 'bexc': 3}
MODES = ['l', 'lp', 'b', 'plain', 'lm', 'pm', 'explicit']
# 'li' = kernprof -l -i 1 with a periodic dump forced while the outermost profiled call is running;
# 'plaini' = kernprof -i 1 and 'bi' = kernprof -b -i 1: the same under cProfile, whose dump switches the profiler off
TIMED_C = {'plaini': 'plain', 'bi': 'b'}


def base_mode(mode):
    return TIMED_C.get(mode, mode)


TICK = 100
# how the program leaves its standard streams when it ends
OUTS = ['ok', 'none', 'closed', 'unwritable', 'errnone']
OUTCODE = {'ok': 0, 'errnone': 0, 'gone': 0, 'none': 1, 'closed': 2, 'unwritable': 2, 'file': 3, 'stringio': 3, 'tee': 3}
# stdout rebound to a working stream and not restored (used with the -l -v modes)
REBOUND = ['file', 'stringio', 'tee']
TEEMOD = 'teemod_c06'
TEE_TEXT = '''class Abort(BaseException):
    """an application's own way out: not an Exception"""


class Tee:
    """a logger installed as sys.stdout: keeps a copy and passes everything on"""
    def __init__(self, stream):
        self.stream = stream
        self.copy = []

    def write(self, text):
        self.copy.append(text)
        return self.stream.write(text)

    def flush(self):
        self.stream.flush()
'''
F_EXPL = 'C06-explicit-show-needs-stdout'
F_CPI = 'C06-cprofile-periodic-dump-stops-profiling'
HELPERS = {'_wait', '_stamp'}      # functions of the program header that only the -i cases call

STALE = 'stale results of an earlier run\n'

HEADER = '''import sys, contextlib, threading
import teemod_c06
_LOCK = threading.RLock()      # re-entrant: with-blocks nest, also across calls
K = int(sys.argv[1]); KIND = sys.argv[2]; DECO = sys.argv[3]; OUT = sys.argv[4]
SHOWAT = int(sys.argv[5]) if len(sys.argv) > 5 else 0     # explicit mode: an intermediate profile.show() at that statement
WAITAT = int(sys.argv[6]) if len(sys.argv) > 6 else 0     # kernprof -i: wait at that statement until the timer has dumped
WAITFILE = sys.argv[7] if len(sys.argv) > 7 else ''
LEAVE = """
if OUT == 'none':
    sys.stdout = None
elif OUT == 'closed':
    sys.stdout = open('progress.log', 'w')
    sys.stdout.close()
elif OUT == 'unwritable':
    sys.stdout = open(__file__)
elif OUT == 'errnone':
    sys.stderr = None
elif OUT == 'gone':         # the program's source is no longer there when the results are written
    import os
    os.remove(__file__)
elif OUT == 'file':
    sys.stdout = open('progress.log', 'w')
elif OUT == 'stringio':
    import io
    sys.stdout = io.StringIO()
elif OUT == 'tee':
    sys.stdout = teemod_c06.Tee(sys.stdout)
"""
if DECO == 'explicit':
    from line_profiler import profile as deco
    if OUT == 'gone':       # report every decorated function, also those never reached
        deco.show_config['stripzeros'] = 0
elif DECO == 'builtin':
    deco = profile
else:
    deco = lambda f: f
_n = 0


def _stamp():
    import os
    try:
        st = os.stat(WAITFILE)
        return (st.st_mtime_ns, st.st_size)
    except OSError:
        return None


_W0 = _stamp() if WAITFILE else None        # what an earlier run left under that name


def _wait():
    import time
    t0 = time.time()
    seen = False
    polls = 0
    while WAITFILE and time.time() - t0 < 30 and not seen:
        now = _stamp()
        seen = now is not None and now != _W0 and now[1] > 0
        polls += 1
        time.sleep(0.01)
    time.sleep(0.2 if WAITFILE else 0)
    print('WAITED', seen, 'polls=%d' % polls, flush=True)


def tick(v=0):
    global _n
    _n += 1
    if _n == WAITAT: _wait()
    if _n == SHOWAT and DECO == 'explicit': deco.show()
    if _n == K:
        exec(LEAVE, globals())
        if KIND == 'exit':
            sys.exit(3)
        if KIND == 'kbd':
            raise KeyboardInterrupt
        if KIND == 'exc':
            raise ValueError('boom')
        if KIND == 'bexc':
            raise teemod_c06.Abort('boom')
    return v
'''


# ---------------------------------------------------------------------------------
# programs
def gen_block(rnd, i, nfun, ind, budget, depth, fin, withs=False):
    out = []
    pad = '    ' * ind
    n = rnd.randrange(1, budget + 1)
    for _ in range(n):
        choices = ['assign', 'assign']
        if depth < 2:
            choices += ['if', 'if', 'for', 'while']
        if i < nfun - 1:
            choices += ['call']
        if fin and depth < 2:
            choices += ['finally', 'finally']
        if withs and depth < 3:
            choices += ['with', 'with', 'with']
        c = rnd.choice(choices)
        if c == 'assign':
            out.append(pad + 'x = tick(x + %d)' % rnd.randrange(1, 5))
        elif c == 'if':
            out.append(pad + 'if tick(x) %% %d:' % rnd.randrange(2, 4))
            out += gen_block(rnd, i, nfun, ind + 1, 2, depth + 1, fin, withs)
            if rnd.random() < 0.6:
                out.append(pad + 'else:')
                out += gen_block(rnd, i, nfun, ind + 1, 2, depth + 1, fin, withs)
        elif c == 'for':
            out.append(pad + 'for i%d in range(tick(%d)):' % (depth, rnd.randrange(1, 3)))
            out += gen_block(rnd, i, nfun, ind + 1, 2, depth + 1, fin, withs)
        elif c == 'while':
            out.append(pad + 'w%d = tick(0)' % depth)
            out.append(pad + 'while tick(w%d) < %d:' % (depth, rnd.randrange(1, 3)))
            out.append(pad + '    w%d = tick(w%d + 1)' % (depth, depth))
        elif c == 'call':
            out.append(pad + 'x = tick(f%d(x %% 3))' % rnd.randrange(i + 1, nfun))
        elif c == 'with':
            # context managers from the standard library (their __exit__ is not a function of the program)
            out.append(pad + rnd.choice(['with contextlib.nullcontext():', 'with _LOCK:', 'with contextlib.nullcontext() as _cm, contextlib.ExitStack():']))
            out += gen_block(rnd, i, nfun, ind + 1, 2, depth + 1, fin, withs)
        elif c == 'finally':
            out.append(pad + 'try:')
            out += gen_block(rnd, i, nfun, ind + 1, 2, depth + 1, False)
            out.append(pad + 'finally:')
            out.append(pad + '    x = tick(x + 1)')
    return out


def gen_program_g(rnd):
    """a decorated GENERATOR with clean-up code, consumed by a for loop in a function that is not
    decorated: when the program is terminated inside the loop body the abandoned generator is closed
    during the unwinding and its clean-up lines run before the results are written"""
    n = rnd.randrange(2, 4)
    lines = HEADER.splitlines()
    lines += ['', '', 'def f0(n):', '    t = tick(0)', '    for v in f1(tick(n)):', '        t = tick(t + v)']
    if rnd.random() < 0.7:
        lines += ['        if tick(t) %% %d:' % rnd.randrange(2, 4), '            t = tick(f2(t % 3))']
    else:
        lines += ['        t = tick(f2(t % 3))']
    lines += ['    return tick(t)']
    lines += ['', '', '@deco', 'def f1(n):', '    x = tick(0)']
    variant = rnd.choice(['finally', 'genexit', 'nested'])
    lines += ['    try:', '        for i in range(n):', '            x = tick(x + i)', '            yield tick(x)']
    if variant == 'finally':
        lines += ['    finally:', '        x = tick(x + 1)', '        x = tick(x + 2)']
    elif variant == 'genexit':
        lines += ['    except GeneratorExit:', '        x = tick(x + 1)', '        raise', '    finally:', '        x = tick(x + 2)']
    else:
        lines += ['    finally:', '        try:', '            x = tick(x + 1)', '        finally:', '            x = tick(f2(x % 3))']
    lines += ['', '', '@deco', 'def f2(x):', '    x = tick(x + %d)' % rnd.randrange(1, 4), '    return tick(x)']
    lines += ['', ''] + ['_pre = tick(%d)' % j for j in range(NPRE)] + ['f0(%d)' % n, "print('END', _n)", 'exec(LEAVE, globals())']
    return '\n'.join(lines) + '\n'


NPRE = 2     # statements at module level before the first profiled call


def gen_program(rnd, nfun, budget, fin, withs=False):
    lines = HEADER.splitlines()
    for i in range(nfun):
        lines += ['', '', '@deco', 'def f%d(x):' % i]
        body = gen_block(rnd, i, nfun, 1, budget, 0, fin, withs)
        if i < nfun - 1 and not any('f%d(' % (i + 1) in b for b in body):
            # every function is reached: a call of the next one at a top-level position
            tops = [j for j, b in enumerate(body) if b.startswith('    ') and not b.startswith('     ')]
            body.insert(rnd.choice(tops + [len(body)]), '    x = tick(f%d(x %% 3))' % (i + 1))
        lines += body
        lines.append('    return tick(x)')
    # a decorated function that is never reached
    lines += ['', '', '@deco', 'def f%d(x):' % nfun, '    x = tick(x + 1)', '    return tick(x)']
    lines += ['', ''] + ['_pre = tick(%d)' % j for j in range(NPRE)] + ['f0(%d)' % rnd.randrange(1, 4), "print('END', _n)", 'exec(LEAVE, globals())']
    return '\n'.join(lines) + '\n'


# ---------------------------------------------------------------------------------
def sub(cmd, cwd, env, timeout=120):
    t0 = time.monotonic()
    try:
        p = subprocess.run(cmd, cwd=cwd, env=env, stdout=subprocess.PIPE, stderr=subprocess.PIPE, text=True,
                           timeout=timeout, stdin=subprocess.DEVNULL)
        return dict(rc=p.returncode, out=p.stdout, err=p.stderr, wall=time.monotonic() - t0)
    except subprocess.TimeoutExpired:
        return dict(rc='timeout', out='', err='TIMEOUT', wall=time.monotonic() - t0)


def oracle(base, prog, k, kind, out='ok'):
    d = os.path.join(base, 'oracle_%s_%d_%s_%s' % (prog['name'], k, kind, out))
    os.makedirs(d, exist_ok=True)
    f = os.path.join(d, prog['file'])
    with open(f, 'w') as fh:
        fh.write(prog['text'])
    with open(os.path.join(d, TEEMOD + '.py'), 'w') as fh:
        fh.write(TEE_TEXT)
    env = dict(os.environ, PYTHONPATH=str(core.VERIF), PYTHONDONTWRITEBYTECODE='1', PYTHONHASHSEED='0')
    env.pop('LINE_PROFILE', None)
    r = sub([core.PY, '-m', 'harness.drivers.c06_oracle', prog['file'], str(k), kind, out], d, env)
    shutil.rmtree(d, ignore_errors=True)
    m = re.search(r'^EVENTS (.*)$', r['out'], flags=re.M)
    if not m:
        raise RuntimeError('oracle failed: %r %r' % (r['out'][-300:], r['err'][-600:]))
    o = json.loads(m.group(1))
    if o['line_profiler_loaded']:
        raise RuntimeError('the oracle must not load line_profiler')
    return o


def fid(name):
    return TICK if name == 'tick' else int(name[1:])


def conv(events):
    """events of the program's functions f<i> and tick (helpers like _wait are not part of the program)"""
    return [(e[0], fid(e[1])) + ((e[2],) if e[0] == 'l' else ()) for e in events
            if e[1] == 'tick' or re.match(r'f\d+$', e[1])]


ENDED = {'none': 'return', 'exit': 'exit:3', 'kbd': 'kbd', 'exc': 'exc:ValueError', 'bexc': 'exc:Abort'}


def mode_cmd(mode, prog, k, kind, out='ok', showat=0, waitat=0):
    f, mod = prog['file'], prog['file'][:-3]
    tail = [str(k), kind]
    kp = [core.PY, '-m', 'kernprof']
    if mode == 'l':
        return kp + ['-l', f] + tail + ['builtin', out], f + '.lprof', {}
    if mode == 'li':
        return kp + ['-l', '-i', '1', f] + tail + ['builtin', out, '0', str(waitat), f + '.lprof'], f + '.lprof', {}
    if mode == 'lv':
        return kp + ['-l', '-v', f] + tail + ['builtin', out], f + '.lprof', {}
    if mode == 'lvp':
        return kp + ['-l', '-v', '-p', TEEMOD, f] + tail + ['builtin', out], f + '.lprof', {}
    if mode == 'lp':
        return kp + ['-l', '-p', f, f] + tail + ['nodeco', out], f + '.lprof', {}
    if mode == 'b':
        return kp + ['-b', f] + tail + ['builtin', out], f + '.prof', {}
    if mode == 'plain':
        return kp + [f] + tail + ['nodeco', out], f + '.prof', {}
    if mode == 'plaini':
        return kp + ['-i', '1', f] + tail + ['nodeco', out, '0', str(waitat), f + '.prof'], f + '.prof', {}
    if mode == 'bi':
        return kp + ['-b', '-i', '1', f] + tail + ['builtin', out, '0', str(waitat), f + '.prof'], f + '.prof', {}
    if mode == 'lm':
        return kp + ['-l', '-m', mod] + tail + ['builtin', out], mod + '.lprof', {}
    if mode == 'pm':
        return kp + ['-m', mod] + tail + ['nodeco', out], mod + '.prof', {}
    if mode == 'explicit':
        return [core.PY, f] + tail + ['explicit', out, str(showat)], 'profile_output.lprof', {'LINE_PROFILE': '1'}
    raise ValueError(mode)


def run_case(impl, base, idx, c, progs):
    prog = progs[c['p']]
    d = os.path.join(base, 'case%05d' % idx)
    os.makedirs(d)
    with open(os.path.join(d, prog['file']), 'w') as fh:
        fh.write(prog['text'])
    with open(os.path.join(d, TEEMOD + '.py'), 'w') as fh:
        fh.write(TEE_TEXT)
    cmd, outfile, extra = mode_cmd(c['mode'], prog, c['k'], c['kind'], c.get('out', 'ok'), c.get('showat', 0), c.get('waitat', 0))
    with open(os.path.join(d, outfile), 'w') as fh:       # what an earlier run left behind under the same name
        fh.write(STALE)
    env = core.impl_env(impl, **extra)
    r = sub(cmd, d, env)
    ref = None
    if c['mode'] == 'explicit' and c.get('out') != 'gone':
        ref = sub([core.PY, prog['file'], str(c['k']), c['kind'], 'nodeco', c.get('out', 'ok')], d, core.impl_env(impl))
    return dict(c=c, dir=d, cmd=cmd[1:], outfile=os.path.join(d, outfile), outname=outfile, r=r, ref=ref,
                listing=sorted(os.listdir(d)))


def regset(mode, prog):
    if mode in ('l', 'li', 'lm', 'explicit', 'lv', 'lvp'):
        return list(prog['deco'])
    return list(range(prog['nfun'])) + [TICK]


def tick_position(ex, waitat):
    """number of events executed when the program waits for the periodic dump (-1: it does not)"""
    seen = 0
    for j, e in enumerate(ex if waitat else []):
        if e == ('c', TICK):
            seen += 1
            if seen == waitat:
                return j + 1
    return -1


def expected_counts(mode, prog, ex, cut=-1):
    """cut >= 0 (cProfile modes only): what is recorded when a periodic dump after that many events has switched
    the profiler off - nothing more under runctx; with -b until a new outermost profiled section switches it on"""
    mode = base_mode(mode)
    reg = set(regset(mode, prog))
    if mode == 'b':
        # cProfile is on only inside the decorated functions' windows
        cnt, depth, off = collections.Counter(), 0, False
        for j, e in enumerate(ex):
            if j == cut:
                off = True
            if e[0] == 'c' and e[1] in prog['deco']:
                if depth == 0:
                    off = False
                depth += 1
            if depth > 0 and e[0] == 'c' and not off:
                cnt[e[1]] += 1
            if e[0] == 'r' and e[1] in prog['deco']:
                depth -= 1
        return dict(cnt)
    if mode in ('plain', 'pm'):
        cnt = collections.Counter(e[1] for e in (ex if cut < 0 else ex[:cut]) if e[0] == 'c' and e[1] in reg)
        return {k: v for k, v in cnt.items()}
    cnt = collections.Counter((e[1], e[2]) for e in ex if e[0] == 'l' and e[1] in reg)
    return {k: v for k, v in cnt.items()}


def impl_counts(mode, prog, loaded):
    """statistics of the program file's functions out of a loaded file"""
    names = {'f%d' % i for i in range(prog['nfun'])} | {'tick'}
    got = {}
    extra = []
    for ent in loaded['entries']:
        if ent[0] != prog['file']:
            continue
        if ent[2] not in names:
            has_data = bool(ent[3]) if loaded['kind'] == 'prof' else any(h for _, h in ent[3])
            if not ent[2].startswith('<') and ent[2] not in HELPERS and has_data:
                extra.append(ent[2])
            continue
        if loaded['kind'] == 'prof':
            got[fid(ent[2])] = got.get(fid(ent[2]), 0) + ent[3]
        else:
            for line, hits in ent[3]:
                if hits:
                    got[(fid(ent[2]), line)] = got.get((fid(ent[2]), line), 0) + hits
    return got, extra


def parse_view(text):
    """hits shown by a `kernprof -l -v` report on stdout: {(file, function, line): hits > 0}, None without a report"""
    if 'Timer unit:' not in text:
        return None
    got, fn, name = {}, None, None
    for line in text[text.index('Timer unit:'):].splitlines():
        m = re.match(r'File: (.*)$', line)
        if m:
            fn = os.path.basename(m.group(1))
            continue
        m = re.match(r'Function: (\S+) at line \d+$', line)
        if m:
            name = m.group(1)
            continue
        m = re.match(r'\s*(\d+)\s+(\d+)\s+[-+.\de]+\s+[-+.\de]+\s+[-+.\de]+', line)
        if m and fn and name and int(m.group(2)):
            got[(fn, name, int(m.group(1)))] = int(m.group(2))
    return got


def diff_keys(got, want):
    return [k for k in set(got) | set(want) if got.get(k) != want.get(k)]


def analyse(res_case, loaded, prog, ex, ended):
    """python-side property predicate -> (list of failure strings, observation dict)"""
    c, r = res_case['c'], res_case['r']
    fails = []
    mode = c['mode']
    wrote = [l for l in r['out'].splitlines() if l.startswith('Wrote profile results to ')]
    want_line = 'Wrote profile results to ' + res_case['outname']
    out = c.get('out', 'ok')
    visible = out in ('ok', 'errnone', 'tee')  # can kernprof's closing lines be seen on the captured stdout?
    dumps = sum(1 for l in wrote if l == want_line) if visible else int(loaded['exists'] and not loaded.get('stale'))
    if c.get('showat'):
        dumps -= 1          # the program's own intermediate show(); what is left is the exit hook's
    if visible and dumps != 1:
        fails.append('expected exactly one %r line, stdout has %r' % (want_line, wrote))
    if loaded['exists'] and loaded.get('stale'):
        fid = None
        if (mode == 'explicit' and out in ('none', 'closed', 'unwritable')
                and 'show_text' in r['err'] and 'GlobalProfiler.show' in r['err']):
            fid = F_EXPL
        fails.append(('the statistics file %s was not written by this run: it still holds the content that was there before'
                      % res_case['outname'], fid))
    elif not loaded['exists']:
        fid = None
        if (mode == 'explicit' and out in ('none', 'closed', 'unwritable')
                and not any(x.startswith('profile_output') for x in res_case['listing'])
                and 'show_text' in r['err'] and 'GlobalProfiler.show' in r['err']):
            fid = F_EXPL
        fails.append(('the statistics file %s was not written (directory: %r)' % (res_case['outname'], res_case['listing']), fid))
    elif not loaded['ok']:
        fails.append('the statistics file is not loadable: %s' % loaded['err'])
    got, extra = impl_counts(mode, prog, loaded) if loaded['ok'] else ({}, [])
    want = expected_counts(mode, prog, ex)
    if loaded['ok'] and got != want:
        diff = {str(k): (got.get(k), want.get(k)) for k in set(got) | set(want) if got.get(k) != want.get(k)}
        fid = None
        cut = tick_position(ex, c.get('waitat', 0))
        # the known finding and nothing else: cProfile with -i, a periodic dump was made, and the file holds exactly
        # what had been recorded when that dump switched the profiler off (every key at most the oracle's count)
        if (mode in TIMED_C and cut >= 0 and 'WAITED True' in r['out'] and got == expected_counts(mode, prog, ex, cut)
                and all((got.get(k) or 0) <= (want.get(k) or 0) for k in diff_keys(got, want))):
            fid = F_CPI
        fails.append(('file content differs from the execution counts of the executed prefix: {key: (file, oracle)} = %r'
                      % diff, fid))
    if extra:
        fails.append('statistics for functions the program does not define: %r' % extra)
    if mode == 'explicit' and loaded['ok']:
        ls = res_case['listing']
        if 'profile_output.txt' not in ls or not any(re.match(r'profile_output_\d{4}-\d\d-\d\dT\d{6}\.txt$', x) for x in ls):
            fails.append('explicit mode text outputs missing: %r' % ls)
        if visible and 'Timer unit:' not in r['out']:
            fails.append('explicit mode printed no report on stdout')
        if res_case['ref'] and r['rc'] != res_case['ref']['rc']:
            fails.append('exit status %r differs from the unprofiled run %r' % (r['rc'], res_case['ref']['rc']))
    view = None
    if mode in ('lv', 'lvp'):
        view = parse_view(r['out'])
        filed = {}
        for ent in (loaded['entries'] if loaded['ok'] else []):
            for line, hits in ent[3]:
                if hits:
                    filed[(ent[0], ent[2], line)] = hits
        if view is None:
            fails.append('-v: no report arrived on the standard output of kernprof (the program left sys.stdout %s)' % out)
        elif loaded['ok'] and view != filed:
            diff = {str(k): (view.get(k), filed.get(k)) for k in set(view) | set(filed) if view.get(k) != filed.get(k)}
            fails.append('-v: the report differs from the written file: {key: (report, file)} = %r' % diff)
    if c.get('waitat') and 'WAITED True' not in r['out']:
        fails.append(('INFRA: the periodic dump was not seen by the program: %r' % r['out'][-200:], 'infra'))
    if mode in TIMED_C and re.search(r'^WAITED True polls=1$', r['out'], flags=re.M):
        fails.append(('INFRA: the periodic dump was made before the program reached its waiting point: %r' % r['out'][-200:], 'infra'))
    if c['kind'] == 'none' and ('END %d' % prog['N']) not in r['out']:
        fails.append('the program did not run to its end: %r' % r['out'][-200:])
    fails = [f if isinstance(f, tuple) else (f, None) for f in fails]
    return fails, dict(dumps=dumps, got=got, rc=r['rc'], view_seen=int(view is not None),
                       view_agrees=int(view is not None and loaded['ok'] and not any(f[0].startswith('-v:') for f in fails)))


# ---------------------------------------------------------------------------------
# Coq encoding
def coq_ev(e):
    if e[0] == 'c':
        return 'PCall %d' % e[1]
    if e[0] == 'l':
        return 'PLine %d %d' % (e[1], e[2])
    return 'PRet %d' % e[1]


def coq_evs(evs):
    return '[' + '; '.join(coq_ev(e) for e in evs) + ']%Z'


def coq_hits(got):
    return '[' + '; '.join('(%d, %d, %d)' % (k[0], k[1], v) for k, v in sorted(got.items())) + ']%Z'


def coq_calls(got):
    return '[' + '; '.join('(%d, %d)' % (k, v) for k, v in sorted(got.items())) + ']%Z'


def common_prefix(a, b):
    n = 0
    while n < len(a) and n < len(b) and a[n] == b[n]:
        n += 1
    return n


def strip(evs):
    return [e for e in evs if not (e[0] == 'l' and e[1] == TICK)]


HEADER_V = ('From LP Require Import Prelude.Py Cli.DeliverModel.\n'
            'Definition fst3 (x : bool * bool * bool) := fst (fst x).\n'
            'Definition snd3 (x : bool * bool * bool) := snd (fst x).\n'
            'Definition thd3 (x : bool * bool * bool) := snd x.\n')


# ---------------------------------------------------------------------------------
def make_programs(rnd, tier, base):
    # (functions, statements per block, try/finally blocks, with blocks)
    specs = [(2, 2, False, False), (2, 3, False, True)] if tier == 'quick' else \
        [(2, 2, False, False), (2, 3, False, True), (3, 3, False, False), (3, 3, True, False), (2, 4, True, True),
         (3, 2, False, True), (4, 2, False, False), (3, 3, True, True), (2, 4, False, False), (4, 2, True, False)]
    limit = 30 if tier == 'quick' else 60
    progs = []
    for pi, (nfun, budget, fin, withs) in enumerate(specs):
        for attempt in range(200):
            text = gen_program(rnd, nfun, budget, fin, withs)
            # an exception that leaves a with block executes the with line again (__exit__) during the unwinding
            prog = dict(name='p%d' % pi, file='progc06_%d.py' % pi, text=text, nfun=nfun + 1, fin=fin or withs, deco=list(range(nfun + 1)),
                        gen=False, withs=withs)
            o = oracle(base, prog, 0, 'none')
            full = conv(o['events'])
            n = sum(1 for e in full if e == ('c', TICK))
            if 14 <= n <= limit and o['ended'] == 'return' and (not fin or 'finally' in text) and (not withs or text.count('    with ') >= 2):
                prog.update(N=n, full=full)
                progs.append(prog)
                break
        else:
            raise RuntimeError('no program of the requested size found')
    for gi in range(1 if tier == 'quick' else 3):
        pi = len(progs)
        prog = dict(name='g%d' % gi, file='progc06_%d.py' % pi, text=gen_program_g(rnd), nfun=3, fin=True, deco=[1, 2], gen=True, withs=False)
        o = oracle(base, prog, 0, 'none')
        full = conv(o['events'])
        prog.update(N=sum(1 for e in full if e == ('c', TICK)), full=full)
        progs.append(prog)
    return progs


def make_cases(rnd, tier, progs):
    cases = []
    for pi, prog in enumerate(progs):
        ks = list(range(1, prog['N'] + 1))
        # a generator program's consumer is deliberately not decorated: -b would leave its statements outside cProfile
        pmodes = [m for m in MODES if not (prog['gen'] and m == 'b')]
        if tier == 'thorough':
            for mode in pmodes:
                cases.append(dict(p=pi, k=0, kind='none', mode=mode))
                for k in ks:
                    for kind in KINDS[1:]:
                        cases.append(dict(p=pi, k=k, kind=kind, mode=mode))
        else:
            cases.append(dict(p=pi, k=0, kind='none', mode='l'))
            for k in ks:
                # generator program: every K, the kinds taken in turn (keeps the quick tier short)
                for kind in ([KINDS[1 + k % 4]] if prog['gen'] else KINDS[1:]):
                    cases.append(dict(p=pi, k=k, kind=kind, mode='l'))
            for mode in pmodes[1:]:
                cases.append(dict(p=pi, k=0, kind='none', mode=mode))
                for kind in KINDS[1:]:
                    cases.append(dict(p=pi, k=rnd.choice(ks), kind=kind, mode=mode))
        # the program ends before its first profiled call (a stale file of an earlier run is always present)
        for mode in pmodes:
            for kind in (KINDS[1:] if (mode == 'b' or tier == 'thorough') else [rnd.choice(KINDS[1:])]):
                cases.append(dict(p=pi, k=rnd.randrange(1, NPRE + 1), kind=kind, mode=mode))
        # explicit mode with an intermediate profile.show() requested by the program itself
        for kind in KINDS:
            k = 0 if kind == 'none' else rnd.choice([x for x in ks if x >= 4])
            cases.append(dict(p=pi, k=k, kind=kind, mode='explicit', showat=max(1, (k or prog['N']) // 2)))
        # kernprof -l -i 1: the program waits inside its outermost profiled call until the timer thread has
        # dumped, carries on and ends; the file left behind must be the final state, not the periodic one
        if not prog['gen']:
            for kind in KINDS:
                for _ in range(1 if tier == 'quick' else 3):
                    waitat = rnd.randrange(NPRE + 1, prog['N'] - 3)
                    k = 0 if kind == 'none' else rnd.randrange(waitat + 1, prog['N'] + 1)
                    cases.append(dict(p=pi, k=k, kind=kind, mode='li', waitat=waitat))
            # kernprof -i 1 / -b -i 1 (cProfile): the same wait; the periodic dump switches cProfile off (known finding:
            # what the program executes after it is missing from the file) - any other content is a violation
            for mode in ('plaini', 'bi'):
                for kind in (KINDS if tier == 'thorough' else (['none', rnd.choice(KINDS[1:])] if mode == 'plaini' else [rnd.choice(KINDS)])):
                    waitat = rnd.randrange(NPRE + 1, prog['N'] - 3)
                    k = 0 if kind == 'none' else rnd.randrange(waitat + 1, prog['N'] + 1)
                    cases.append(dict(p=pi, k=k, kind=kind, mode=mode, waitat=waitat))
        # explicit mode: every decorated function is reported (also the never reached one) and the program's
        # source file is gone when the exit hook writes the outputs
        for kind in (rnd.sample(KINDS, 2) if tier == 'quick' else KINDS):
            cases.append(dict(p=pi, k=0 if kind == 'none' else rnd.choice(ks), kind=kind, mode='explicit', out='gone'))
        # kernprof -l -v (also with an auto-profiled helper module): the program ends with sys.stdout untouched /
        # rebound to a log file, a StringIO, a tee object of the helper module; the report must reach the real
        # stdout and agree with the file
        if not prog['gen']:
            for mode in ('lv', 'lvp'):
                for out in ['ok'] + REBOUND:
                    for _ in range(1 if tier == 'quick' else 3):
                        kind = rnd.choice(KINDS)
                        cases.append(dict(p=pi, k=0 if kind == 'none' else rnd.choice(ks), kind=kind, mode=mode, out=out))
        # the program ends with its standard streams closed / replaced
        for mode in pmodes:
            for out in OUTS[1:]:
                picks = [(rnd.choice(KINDS), rnd.choice(ks))] if tier == 'quick' else \
                    [(kind, rnd.choice(ks)) for kind in KINDS for _ in range(2)]
                for kind, k in sorted(set(picks)):
                    cases.append(dict(p=pi, k=0 if kind == 'none' else k, kind=kind, mode=mode, out=out))
    return cases


def evaluate(impl, base, cases, progs, tag):
    keys = sorted({(c['p'], c['k'], c['kind'], c.get('out', 'ok')) for c in cases})
    with ThreadPoolExecutor(max_workers=core.NCPU) as ex:
        ors = list(ex.map(lambda k: oracle(base, progs[k[0]], k[1], k[2], k[3]), keys))
    orc = {}
    for key, o in zip(keys, ors):
        if o['ended'] != ENDED[key[2]]:
            raise RuntimeError('oracle run %r ended as %r' % (key, o['ended']))
        orc[key] = conv(o['events'])
    sub_base = os.path.join(base, tag)
    os.makedirs(sub_base, exist_ok=True)
    with ThreadPoolExecutor(max_workers=core.NCPU) as ex:
        rs = list(ex.map(lambda ic: run_case(impl, sub_base, ic[0], ic[1], progs), enumerate(cases)))
    loaded = []
    for chunk in core.chunks(rs, 1500):
        out = core.run_impl(impl, 'harness.drivers.c06', dict(paths=[r['outfile'] for r in chunk], stale=STALE), timeout=900)
        loaded += out['files']
    shutil.rmtree(sub_base, ignore_errors=True)
    return rs, loaded, orc


def run(tier, seed):
    rnd = core.rng(seed, PROP)
    res = core.Result(PROP)
    gen = core.regenerate(['GlobalProfiler.v'])
    res.obl = core.check_obligations(PROP, MODULE, THEOREMS)
    if gen.get('GlobalProfiler.v'):
        res.obl['failures'].append('translator refused the source: ' + gen['GlobalProfiler.v'])
    impl = core.build_impl()
    base = str(core.SCRATCH_ROOT / 'tmp' / ('c06_%d_%d' % (os.getpid(), seed)))
    shutil.rmtree(base, ignore_errors=True)
    os.makedirs(base)
    try:
        progs = make_programs(rnd, tier, base)
        cases = make_cases(rnd, tier, progs)
        rs, loaded, orc = evaluate(impl, base, cases, progs, 'main')
    finally:
        shutil.rmtree(base, ignore_errors=True)

    def brief(r, obs=None):
        return dict(cmd=r['cmd'], rc=r['r']['rc'], stdout=r['r']['out'][-600:], stderr=r['r']['err'][-600:],
                    files=r['listing'], observed=obs and dict(dumps=obs['dumps'], rc=obs['rc'],
                                                              stats={str(k): v for k, v in sorted(obs['got'].items())}))

    rows = []       # (shard key, coq row text, index)
    obs_all = []
    py_fail = set()
    for i, (r, ld) in enumerate(zip(rs, loaded)):
        c = r['c']
        prog = progs[c['p']]
        ex = orc[(c['p'], c['k'], c['kind'], c.get('out', 'ok'))]
        fails, obs = analyse(r, ld, prog, ex, None)
        obs_all.append(obs)
        for why, fid_ in fails:
            if fid_ == 'infra':
                res.infra_errors.append('%r: %s' % (c, why))
                continue
            py_fail.add(i)
            res.spec_fails.append(dict(case=dict(c, seed=seed, tier=tier, program=prog['text']), impl=brief(r, obs), why=why, finding=fid_))
        if r['r']['rc'] == 'timeout':
            res.infra_errors.append('case %r timed out' % c)

    # ---- shards: grouped by program so that FULL is defined once
    model_ok = not any('build of' in f for f in res.obl['failures'])
    if model_ok:
        bodies, index = [], []
        per = 40
        for pi, prog in enumerate(progs):
            idxs = [i for i, r in enumerate(rs) if r['c']['p'] == pi]
            for chunk in core.chunks(idxs, per):
                body = 'Definition FULL : list pev := %s.\n' % coq_evs(prog['full'])
                exdefs, rowtxt = {}, []
                for i in chunk:
                    c = rs[i]['c']
                    key = (c['k'], c['kind'], c.get('out', 'ok'))
                    ex = orc[(pi,) + key]
                    if key not in exdefs:
                        exdefs[key] = 'EX_%d_%s_%s' % key
                        body += 'Definition %s : list pev := %s.\n' % (exdefs[key], coq_evs(ex))
                    m = -1 if prog['fin'] else common_prefix(strip(ex), strip(prog['full']))
                    tickpos = tick_position(ex, c.get('waitat', 0))
                    o = obs_all[i]
                    rc = o['rc'] if isinstance(o['rc'], int) else -99
                    regl = '[' + '; '.join(str(x) for x in regset(c['mode'], prog)) + ']%Z'
                    if c['mode'] in ('lv', 'lvp'):
                        rowtxt.append('(view_case_ok %s %d %d %s %s (%d)%%Z %d %d)' % (
                            exdefs[key], KCODE[c['kind']], OUTCODE[key[2]], regl, coq_hits(o['got']), rc,
                            o['view_seen'], o['view_agrees']))
                    elif c['mode'] == 'explicit':
                        rowtxt.append('(explicit_case_ok 100 FULL %s (%d)%%Z %d %d %s %s %d)' % (
                            exdefs[key], m, KCODE[c['kind']], OUTCODE[key[2]], regl, coq_hits(o['got']), o['dumps']))
                    else:
                        bmode = base_mode(c['mode'])
                        cprof = bmode in ('b', 'plain', 'pm')
                        decl = '[' + '; '.join(str(x) for x in prog['deco']) + ']%Z'
                        rowtxt.append('(kern_case_ok 100 FULL %s (%d)%%Z %d %d (%d)%%Z %s %s %s %s %s %s %s (%d)%%Z %d)' % (
                            exdefs[key], m, KCODE[c['kind']], OUTCODE[key[2]], tickpos, regl, decl, core.coq_bool(bmode in ('plain', 'pm')),
                            core.coq_bool(cprof), core.coq_bool(bmode == 'b'), coq_hits({} if cprof else o['got']), coq_calls(o['got'] if cprof else {}),
                            rc, o['dumps']))
                body += 'Definition rows : list (bool * bool * bool) := [\n' + ';\n'.join(rowtxt) + '].\n'
                body += ('Eval vm_compute in (false_indices (map fst3 rows)).\nEval vm_compute in (false_indices (map snd3 rows)).\n'
                         'Eval vm_compute in (false_indices (map thd3 rows)).\n')
                bodies.append(body)
                index.append(chunk)
        shards = core.run_shards('c06', HEADER_V, bodies)
        coq_fail = set()
        for kk, sres in enumerate(shards):
            if sres[0] != 'ok' or len(sres[1]) != 3:
                res.infra_errors.append('shard %d failed: %s' % (kk, str(sres[1])[-600:]))
                continue
            mk, me, sf = sres[1]
            for j in mk:
                i = index[kk][j]
                res.mismatches.append(dict(case=rs[i]['c'], impl=brief(rs[i], obs_all[i]),
                                           model='Cli/DeliverModel: snapshot / exit status / number of dumps differ from the implementation'))
            for j in me:
                i = index[kk][j]
                res.mismatches.append(dict(case=rs[i]['c'], impl=brief(rs[i], obs_all[i]),
                                           model='environment assumption: the interrupted run is not the prefix plus unwinding (or not well nested)'))
            for j in sf:
                coq_fail.add(index[kk][j])
        for i in sorted(coq_fail - py_fail):
            res.spec_fails.append(dict(case=dict(rs[i]['c'], seed=seed, tier=tier, program=progs[rs[i]['c']['p']]['text']),
                                       impl=brief(rs[i], obs_all[i]), finding=None,
                                       why='Coq-side predicate (counts of the executed stream, one dump) is false; python-side found nothing'))
        # content-related python failures must be seen by the Coq side as well
        for i in sorted(py_fail - coq_fail):
            whys = [sf['why'] for sf in res.spec_fails if sf['case'].get('p') == rs[i]['c']['p'] and sf['impl']['cmd'] == rs[i]['cmd']]
            if any(w.startswith('file content differs') for w in whys):
                res.mismatches.append(dict(case=rs[i]['c'], impl=brief(rs[i], obs_all[i]),
                                           model='python-side content predicate fails where the Coq-side one holds'))

    def search(budget):
        rnd2 = core.rng(seed + 1, PROP)
        base2 = str(core.SCRATCH_ROOT / 'tmp' / ('c06s_%d_%d' % (os.getpid(), seed)))
        shutil.rmtree(base2, ignore_errors=True)
        os.makedirs(base2)
        try:
            progs2 = make_programs(rnd2, 'quick', base2)
            cases2 = make_cases(rnd2, 'thorough', progs2)
            rs2, loaded2, orc2 = evaluate(impl, base2, cases2, progs2, 'search')
            for r, ld in zip(rs2, loaded2):
                c = r['c']
                fails, obs = analyse(r, ld, progs2[c['p']], orc2[(c['p'], c['k'], c['kind'], c.get('out', 'ok'))], None)
                fails = [f for f in fails if f[1] is None]
                if fails:
                    return dict(case=dict(c, seed=seed + 1, tier='search', program=progs2[c['p']]['text']), impl=brief(r, obs),
                                why=fails[0][0] + ' (search)', finding=None)
        finally:
            shutil.rmtree(base2, ignore_errors=True)
        return None
    res.search = search

    hist = collections.Counter((r['c']['mode'], r['c']['kind']) for r in rs)
    outhist = collections.Counter((r['c']['mode'], r['c'].get('out', 'ok')) for r in rs)
    distinct = {(r['c']['p'], r['c']['k'], r['c']['kind'], r['c']['mode'], r['c'].get('out', 'ok')) for r, o in zip(rs, obs_all) if o['got']}
    res.coverage = dict(
        evaluations=len(rs), oracle_runs=len(orc), distinct_nontrivial=len(distinct),
        rule='one evaluation = one kernprof / LINE_PROFILE=1 subprocess on a generated program with the trigger at statement K, '
             'its written file loaded by the rebuilt package; non-trivial = the loaded file holds at least one non-zero counter of a '
             'program function; distinct by (program, K, kind, mode)',
        exhaustive=(tier == 'thorough'),
        scope=('every K x kind x mode for %d programs' % len(progs)) if tier == 'thorough' else
              'every K x {exit,kbd,exc} for 2 programs in mode -l, one K per other (mode, kind), normal return in every mode',
        programs=[dict(name=p['name'], functions=p['nfun'], statements_executed=p['N'], events=len(p['full']),
                       has_finally=p['fin'], generator_with_cleanup=p['gen']) for p in progs],
        mode_kind_histogram={'%s/%s' % k: v for k, v in sorted(hist.items())},
        mode_stdout_state_histogram={'%s/%s' % k: v for k, v in sorted(outhist.items())},
        hypothesis_holds_on=dict(C06_content=sum(1 for r in rs if not progs[r['c']['p']]['fin']),
                                 C06_content_closed_stream=len(rs),
                                 C06_dump_on_every_outcome=sum(1 for r in rs if r['c']['mode'] != 'explicit'),
                                 C06_explicit_atexit_partial=sum(1 for r in rs if r['c']['mode'] == 'explicit' and OUTCODE[r['c'].get('out', 'ok')] == 0),
                                 stdout_unusable_at_end=sum(1 for r in rs if OUTCODE[r['c'].get('out', 'ok')] != 0),
                                 C06_final_dump_with_periodic_dumps=sum(1 for r in rs if r['c']['mode'] == 'li'),
                                 C06_cprofile_periodic_dump_refuted_cases=sum(1 for r in rs if r['c']['mode'] in TIMED_C),
                                 cprofile_periodic_dump_lost_later_calls=sum(1 for sf in res.spec_fails if sf.get('finding') == F_CPI),
                                 C06_view_agrees_with_file=sum(1 for r in rs if r['c']['mode'] in ('lv', 'lvp')),
                                 C06_wrapper_windows_transparent_generator_programs=sum(1 for r in rs if progs[r['c']['p']]['gen'])),
        samples=[dict(case=rs[i]['c'], impl=brief(rs[i], obs_all[i])) for i in (0, len(rs) // 2, len(rs) - 1)],
        translated=['line_profiler/explicit_profiler.py::GlobalProfiler methods -> Gen/GlobalProfiler.v (C06_explicit_atexit)'],
        trusted_base_extra=[
            'hand model of kernprof.main\'s try/except/finally skeleton, of the by-line counter with its pending slot and of '
            'cProfile\'s call counter (Cli/DeliverModel.v), tied by correspondence only',
            'sys.settrace as the independent account of what executed (oracle run without line_profiler loaded); environment '
            'assumption checked per case inside Coq: the interrupted run is well nested, closed and (programs without finally) '
            'equals the common prefix with the full run followed by the unwinding of the live activations',
            'py2coq translator + Explicit engine (C14) for the atexit registration of the explicit profiler',
            'OS-level delivery (flush at exit, atexit ordering, SIGINT delivered as a signal rather than raised) is exercised, not modelled'])
    res.assumptions = ['single-threaded programs without generators; termination raised from a statement of a profiled function',
                       'KeyboardInterrupt is raised in-process (raise KeyboardInterrupt), not delivered as an OS signal',
                       'report option -v is outside this check (see C07 finding on -b -v)']
    return res


def replay(path):
    data = json.load(open(path))
    c = data['case']
    impl = core.build_impl()
    base = str(core.SCRATCH_ROOT / 'tmp' / ('c06r_%d' % os.getpid()))
    shutil.rmtree(base, ignore_errors=True)
    os.makedirs(base)
    try:
        prog = dict(name='p0', file='progc06_0.py', text=c['program'],
                    nfun=len(re.findall(r'^def f\d+\(', c['program'], flags=re.M)), fin='finally' in c['program'])
        prog['deco'] = [int(x) for x in re.findall(r'^@deco\ndef f(\d+)\(', c['program'], flags=re.M)]
        prog['gen'] = 'yield' in c['program']
        o = oracle(base, prog, 0, 'none')
        prog['full'] = conv(o['events'])
        prog['N'] = sum(1 for e in prog['full'] if e == ('c', TICK))
        case = dict(p=0, k=c['k'], kind=c['kind'], mode=c['mode'], out=c.get('out', 'ok'), showat=c.get('showat', 0), waitat=c.get('waitat', 0))
        rs, loaded, orc = evaluate(impl, base, [case], [prog], 'replay')
        fails, obs = analyse(rs[0], loaded[0], prog, orc[(0, c['k'], c['kind'], case['out'])], None)
        fails = [dict(why=f[0], finding=f[1]) for f in fails]
        print(json.dumps(dict(case=case, cmd=rs[0]['cmd'], rc=rs[0]['r']['rc'], stdout=rs[0]['r']['out'][-600:],
                              stderr=rs[0]['r']['err'][-600:], files=rs[0]['listing'], failing=fails, holds=not fails), indent=1))
        return 1 if fails else 0
    finally:
        shutil.rmtree(base, ignore_errors=True)
