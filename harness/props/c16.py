"""C16 - decorating any supported callable really profiles its code.

Theorem side: Props/C16.v over Gen/Dispatch.v (wrap_callable's dispatch chain and
_get_underlying_functions regenerated from /repo on every run; the wrap_* methods,
_already_wrapped/_mark_wrapped, LineProfiler.__call__/add_callable matched structurally).
Tie: every well-formed composition up to a depth bound (exhaustive) plus random deeper
ones are built as real Python objects, decorated once and twice by a real LineProfiler and
used through the right access path (direct call, class attribute, instance attribute,
property get/set/del, cached_property first/second read), from enable depth 0 and 1; every
generator / coroutine / async-generator result is run to the end, closed early, thrown into and
dropped while suspended, and its finally: code records the enable depth and is hit-counted; the
same use is repeated from a worker thread while the main thread is inside a profiled section and
vice versa (real threads, forced overlap); all functions of one kind inside one object are textually
identical, same-named, same-line functions of different files (value-equal code objects);
compared inside Coq with the model (registration list, structure of the returned objects,
which functions run at which enable depth, executions) and with the property predicate
(ran under the profiler, exact hit counts, registered once, second decoration inert)."""
import json
import time
from concurrent.futures import ThreadPoolExecutor

from harness import core

PROP = 'C16'
MODULE = 'Props.C16'
THEOREMS = ['C16_sequence_independent', 'C16_each_result_runs_its_own_functions', 'C16_runs_under_profiler', 'C16_same_functions_run', 'C16_registered_exactly_once', 'C16_idempotent',
            'C16_no_second_layer', 'C16_underlying_functions', 'C16_dispatch', 'C16_rebuilt_attributes',
            'C16_shared_function_registered_twice', 'C16_nonvacuous']
LEVEL = 'proof'
DRIVER = 'harness.drivers.c16'

INNER = {  # what may sit directly inside a wrapper object so that Python can still use the result
    'bd': ['fn', 'wr', 'bd', 'pt', 'sm'],
    'pt': ['fn', 'wr', 'bd', 'sm'],          # partial(partial(..)) is flattened by functools itself
    'cm': ['fn', 'wr', 'bd', 'pt', 'sm'],
    'sm': ['fn', 'wr', 'bd', 'pt'],
    'pm': ['fn', 'wr', 'bd', 'pt', 'cm', 'sm'],   # partialmethod(partialmethod(..)) is flattened too
    'cp': ['fn', 'wr', 'bd', 'pt'],
}
SLOT = ['fn', 'wr', 'bd', 'pt']               # property accessors
UNARY = ['cm', 'sm', 'bd', 'pt', 'pm', 'cp']
KNAME = ['KPlain', 'KGen', 'KCoro', 'KAsyncGen']
COQ = {'cm': 'ClassM', 'sm': 'StaticM', 'bd': 'Bound', 'pt': 'Partial', 'pm': 'PartialM', 'cp': 'CachedProp'}
ACC = ['ACall', 'AGet', 'ASet', 'ADel', 'ACachedGet']


def chains(depth, tops):
    """all unary chains (as tag lists, leaf tag last) of exactly `depth` nodes starting with one of `tops`"""
    if depth == 1:
        return [[t] for t in tops if t in ('fn', 'wr')]
    out = []
    for t in tops:
        if t in INNER:
            for rest in chains(depth - 1, INNER[t]):
                out.append([t] + rest)
    return out


def mk(chain, kind, ids):
    """tag list -> term, drawing a fresh leaf id"""
    t = chain[-1]
    ids[0] += 1
    term = [t, kind, ids[0]]
    for tag in reversed(chain[:-1]):
        term = [tag, term]
    return term


def exhaustive(maxdepth):
    cases = []
    for d in range(1, maxdepth + 1):
        for ch in chains(d, ['fn', 'wr'] + UNARY):
            for k in range(4):
                cases.append(dict(term=mk(ch, k, [0]), tag='chain%d' % d))
    # properties: every presence pattern x {function, profiled function, partial of a function}
    opts = [None, ['fn'], ['wr'], ['pt', 'fn']]
    for g in opts:
        for s in opts:
            for dl in opts:
                if g is None and s is None and dl is None:
                    continue
                ids = [0]
                cases.append(dict(term=['pr'] + [None if c is None else mk(c, 0, ids) for c in (g, s, dl)], tag='prop'))
    for k in range(1, 4):      # getters of the other function kinds
        for c in (['fn'], ['wr'], ['bd', 'fn']):
            ids = [0]
            cases.append(dict(term=['pr', mk(c, k, ids), mk(['fn'], 0, ids), None], tag='prop'))
    return cases


def rand_chain(rnd, depth, tops):
    ch = []
    allowed = tops
    while True:
        if len(ch) >= depth - 1:
            pool = [x for x in allowed if x in ('fn', 'wr')]
        else:
            pool = [x for x in allowed if x not in ('fn', 'wr')] or allowed
        t = rnd.choice(pool)
        ch.append(t)
        if t in ('fn', 'wr'):
            return ch
        allowed = INNER[t]


def rand_case(rnd, maxdepth):
    ids = [0]
    if rnd.random() < 0.3:
        slots = []
        for j in range(3):
            if rnd.random() < 0.3:
                slots.append(None)
            else:
                ch = rand_chain(rnd, rnd.randrange(1, maxdepth), SLOT)
                # the value a setter / deleter returns is thrown away by Python: only plain functions run there
                slots.append(mk(ch, rnd.randrange(4) if j == 0 else 0, ids))
        if all(s is None for s in slots):
            slots[0] = mk(['fn'], rnd.randrange(4), ids)
        return dict(term=['pr'] + slots, tag='rnd-prop')
    ch = rand_chain(rnd, rnd.randrange(2, maxdepth + 1), UNARY)
    return dict(term=mk(ch, rnd.randrange(4), ids), tag='rnd-chain')


def shared_cases():
    """outside the hypotheses of C16_registered_exactly_once: ONE function object used twice inside one
    property.  Only the model is compared here (C16_shared_function_registered_twice); the property's
    own clauses except 'registered once' are still evaluated."""
    f = ['fn', 0, 1]
    return [dict(term=['pr', f, f, None], tag='shared'), dict(term=['pr', f, None, f], tag='shared'),
            dict(term=['pr', ['pt', f], f, f], tag='shared')]


def max_id(t):
    if t is None:
        return 0
    if t[0] in ('fn', 'wr'):
        return t[2]
    return max([max_id(x) for x in t[1:] if isinstance(x, list)] + [0])


def sibling(t, ids):
    """the same shape built from fresh, not yet profiled functions"""
    if t is None:
        return None
    if t[0] in ('fn', 'wr'):
        ids[0] += 1
        return ['fn', t[1], ids[0]]
    return [t[0]] + [sibling(x, ids) if (isinstance(x, list) or x is None) else x for x in t[1:]]


def with_variant(c, deco, same_def, nsib, put_back=False, subclass=False, stray=False):
    """entry point (a LineProfiler called directly / the explicit `line_profiler.profile`, enabled), how the
    functions were defined (textually identical defs in different files / one def executed several times
    with different defaults), and how many objects of the same shape were decorated just before, inline,
    so that the decorated originals are temporaries."""
    # put_back: the object is a member of an existing class, decorated via vars(cls)[name] and put back with
    # setattr; subclass: wrapper objects are instances of SUBCLASSES of classmethod/staticmethod/partial/
    # partialmethod/property/cached_property; stray: the plain functions carry attributes named func, __func__,
    # fget, ... (the `wrapper.func = fn` idiom)
    c = dict(c, deco=deco, same_def=same_def, put_back=put_back, subclass=subclass, stray=stray)
    ids = [max_id(c['term'])]
    c['before'] = [sibling(c['term'], ids) for _ in range(nsib)]
    return c


def variant_block():
    out = []
    for d in (1, 2):
        for ch in chains(d, ['fn', 'wr'] + UNARY):
            for k in range(4):
                for deco in ('lp', 'global'):
                    for same_def in (False, True):
                        out.append(with_variant(dict(term=mk(ch, k, [0]), tag='seq%d' % d), deco, same_def, 3))
    for g, st in ((['fn'], ['fn']), (['pt', 'fn'], None), (None, ['fn'])):
        for deco in ('lp', 'global'):
            for same_def in (False, True):
                ids = [0]
                t = ['pr'] + [None if c is None else mk(c, 0, ids) for c in (g, st, None)]
                out.append(with_variant(dict(term=t, tag='seq-prop'), deco, same_def, 3))
    # every descriptor kind applied to a member of an existing class / subclass-typed / with stray attributes
    n = 0
    for d in (1, 2):
        for ch in chains(d, ['fn', 'wr'] + UNARY):
            for k in ((0, 1, 2, 3) if d == 1 else (n % 4,)):
                for pb, sub, stray in ((True, False, False), (True, True, False), (False, True, True), (True, False, True)):
                    n += 1
                    out.append(with_variant(dict(term=mk(ch, k, [0]), tag='apply%d' % d), 'lp' if n % 3 else 'global',
                                            False, 0, pb, sub, stray))
    for g, st, dl in ((['fn'], ['fn'], ['fn']), (['pt', 'fn'], None, None), (['wr'], ['fn'], None)):
        for pb, sub, stray in ((True, False, False), (True, True, False), (False, True, True)):
            ids = [0]
            t = ['pr'] + [None if c is None else mk(c, 0, ids) for c in (g, st, dl)]
            out.append(with_variant(dict(term=t, tag='apply-prop'), 'lp', False, 0, pb, sub, stray))
    return out


def gen_cases(tier, rnd):
    if tier == 'quick':
        ex, nr, md = 4, 400, 6
    else:
        ex, nr, md = 6, 40000, 10
    plain = exhaustive(ex) + [rand_case(rnd, md) for _ in range(nr)]
    plain = [with_variant(c, rnd.choice(['lp', 'lp', 'global']), rnd.random() < 0.3, rnd.choice([0, 0, 0, 2]),
                          rnd.random() < 0.3, rnd.random() < 0.3, rnd.random() < 0.3) for c in plain]
    cases = shared_cases() + variant_block() + plain
    return cases, dict(exhaustive_chain_depth=ex, random=nr, random_max_depth=md)


def depth_of(t):
    if t is None:
        return 0
    if t[0] in ('fn', 'wr'):
        return 1
    if t[0] == 'pr':
        return 1 + max(depth_of(x) for x in t[1:4])
    return 1 + depth_of(t[1])


def leaf_kind_list(t):
    if t is None:
        return []
    if t[0] in ('fn', 'wr'):
        return [t[1]]
    return [k for x in t[1:] if isinstance(x, list) for k in leaf_kind_list(x)]


def coq_term(t):
    if t[0] == 'fn':
        return '(Fn %s %d)' % (KNAME[t[1]], t[2])
    if t[0] == 'wr':
        return '(Wrapped %s %d)' % (KNAME[t[1]], t[2])
    if t[0] == 'pr':
        return '(PropOf %s %s %s)' % tuple(core.coq_opt(None if x is None else coq_term(x)) for x in t[1:4])
    return '(%s %s)' % (COQ[t[0]], coq_term(t[1]))


def zl(xs):
    return core.coq_list([core.coq_z(x) for x in xs])


# ---- the property on the implementation's own output (python side) ------------------
def run_ids(l):
    out, i = [], 0
    while i < len(l):
        if l[i] == -2:
            out.append(-2)
            i += 1
        else:
            out.append(l[i])
            i += 2
    return out


def depths(l):
    out, i = [], 0
    while i < len(l):
        if l[i] == -2:
            i += 1
        else:
            out.append(l[i + 1] if i + 1 < len(l) else -9)
            i += 2
    return out


def py_spec_why(r, shared=False):
    if r.get('err'):
        return 'using the decorated object raised: ' + r['err']
    if any(d < 1 for d in depths(r['runs1']) + depths(r['runs2'])):
        return 'an underlying function ran with enable_count < 1 (not under the profiler)'
    if run_ids(r['runs1']) != run_ids(r['orig']):
        return 'the decorated object does not execute the same underlying functions as the original'
    if r['hits'] != r['execs_all']:
        return ('reported hit counts %r differ from the exact execution counts %r (per function: first line, middle / '
                'raising line, finally line, first-suspension line)' % (r['hits'], r['execs_all']))
    for f in run_ids(r['runs1']):
        if f != -2 and r['funcs1'].count(f) != 1 and not shared:
            return 'function %d is registered %d times' % (f, r['funcs1'].count(f))
    if r['funcs2'] != r['funcs1']:
        return 'decorating again registered more functions'
    if r['shape2'] != r['shape1']:
        return 'decorating again changed the object (a second wrapper layer)'
    if r['runs2'] != r['runs1']:
        return 'the twice-decorated object runs the function at a different enable depth'
    return None


def expected_ids(t, acc):
    """the leaf ids Python itself runs when the (undecorated) object is used through access acc"""
    if t is None:
        return []
    if t[0] in ('fn', 'wr'):
        return [t[2]]
    if t[0] == 'pr':
        return expected_ids({1: t[1], 2: t[2], 3: t[3]}.get(acc), 0) if acc in (1, 2, 3) else []
    if t[0] == 'cp' and acc == 4:
        return []
    return expected_ids(t[1], 0)


def sib_why(c, r):
    sibs = c.get('before', [])
    if not sibs or r.get('err'):
        return None
    for st, runs in zip(sibs, r['sib_runs']):
        if any(d < 1 for d in depths(runs)):
            return 'an object decorated earlier in a row runs its function with enable_count < 1'
        if run_ids(runs) != expected_ids(st, r['sib_access']) + [-2]:
            return ('an object decorated inline in a row (the original was a temporary) runs functions %r instead of its '
                    'own %r' % (run_ids(runs)[:-1], expected_ids(st, r['sib_access'])))
        for f in run_ids(runs):
            if f != -2 and r['sib_regs'].count(f) != 1:
                return 'function %d of an object decorated in a row is registered %d times' % (f, r['sib_regs'].count(f))
    if r['sib_hits'] != r['sib_execs_all']:
        return 'hit counts %r of the objects decorated in a row differ from the exact executions %r' % (r['sib_hits'], r['sib_execs_all'])
    return None


def py_spec(r, shared=False):
    return py_spec_why(r, shared) is None


def run_cases(impl, cases, per=100):
    chunks = core.chunks(cases, per)

    def one(ch):
        return core.run_impl(impl, DRIVER, dict(cases=[dict(term=c['term'], deco=c.get('deco', 'lp'), same_def=c.get('same_def', False),
                                                           put_back=c.get('put_back', False), subclass=c.get('subclass', False),
                                                           stray=c.get('stray', False),
                                                           before=c.get('before', [])) for c in ch]), timeout=900)['results']
    with ThreadPoolExecutor(max_workers=min(core.NCPU, max(1, len(chunks)))) as ex:
        res = list(ex.map(one, chunks))
    return [r for rs in res for r in rs]


def coq_row(c, r):
    obs = '(mk_obs %s %s %s %s %s %s %s %s)' % (zl(r['funcs1']), zl(r['shape1']), zl(r['funcs2']), zl(r['shape2']),
                                               zl(r['orig']), zl(r['runs1']), zl(r['runs2']), zl(r['execs']))
    plan = core.coq_list(['(%s, %s)' % (ACC[a], core.coq_z(d)) for a, d in r['plan']])
    main = '(case_ok %s %s %s %s %s %s)' % (coq_term(c['term']), zl(r['regs0']), plan, obs, zl(r['hits']), zl(r['execs_all']))
    sibs = c.get('before', [])
    if not sibs:
        return main
    return '(both %s (sibs_ok %s %s %s %s %s %s %s %s))' % (
        main, ACC[r['sib_access']], core.coq_list([coq_term(x) for x in sibs]), zl(r['sib_regs']),
        core.coq_list([zl(x) for x in r['sib_shapes']]), core.coq_list([zl(x) for x in r['sib_runs']]),
        zl(r['sib_execs']), zl(r['sib_hits']), zl(r['sib_execs_all']))


def run(tier, seed):
    rnd = core.rng(seed, PROP)
    res = core.Result(PROP)
    gen = core.regenerate(['Dispatch.v'])
    res.obl = core.check_obligations(PROP, MODULE, THEOREMS)
    if gen.get('Dispatch.v'):
        res.obl['failures'].append('translator refused the source: ' + gen['Dispatch.v'])
    impl = core.build_impl()
    cases, scope = gen_cases(tier, rnd)
    t1 = time.time()
    outs = run_cases(impl, cases)
    t_impl = time.time() - t1

    def search(budget):
        c2 = variant_block() + exhaustive(4) + [rand_case(core.rng(seed + 1, PROP), 7) for _ in range(1500)]
        o2 = run_cases(impl, c2)
        for c, r in zip(c2, o2):
            w = py_spec_why(r) or sib_why(c, r)
            if w:
                return dict(case=c, impl=r, why=w + ' (search)', finding=None)
        return None
    res.search = search

    model_ok = not any('build of' in f for f in res.obl['failures'])
    flagged = set()
    t_coq = 0.0
    if model_ok:
        per = 100
        idx = [j for j, r in enumerate(outs) if not r.get('err')]
        bodies = []
        for chunk in core.chunks(idx, per):
            rows = [coq_row(cases[j], outs[j]) for j in chunk]
            body = 'Definition rows : list (bool * bool) := [\n' + ';\n'.join(rows) + '].\n'
            body += 'Eval vm_compute in (false_indices (map fst rows)).\nEval vm_compute in (false_indices (map snd rows)).\n'
            bodies.append(body)
        t1 = time.time()
        shards = core.run_shards('c16', 'From LP Require Import Prelude.Py Wrap.CallableBase Wrap.Callable.', bodies)
        t_coq = time.time() - t1
        for k, sres in enumerate(shards):
            if sres[0] != 'ok' or len(sres[1]) != 2:
                res.infra_errors.append('shard %d failed: %s' % (k, str(sres[1])[-500:]))
                continue
            mism, sfail = sres[1]
            for i in mism:
                j = idx[k * per + i]
                res.mismatches.append(dict(case=cases[j], impl=outs[j], model='differs (Wrap/Callable.v model_obs)'))
            for i in sfail:
                j = idx[k * per + i]
                if cases[j]['tag'] == 'shared' and py_spec(outs[j], shared=True):
                    continue     # only the 'registered once' clause fails, outside its hypotheses
                flagged.add(j)
                res.spec_fails.append(dict(case=cases[j], impl=outs[j],
                                           why='Coq-side spec: ' + str(py_spec_why(outs[j]) or sib_why(cases[j], outs[j])), finding=None))
    n_py_only = 0
    for j, (c, r) in enumerate(zip(cases, outs)):
        w = py_spec_why(r, shared=(c['tag'] == 'shared')) or sib_why(c, r)
        if w and j not in flagged:
            if not r.get('err'):
                n_py_only += 1
            res.spec_fails.append(dict(case=c, impl=r, why=w, finding=None))
    if model_ok and n_py_only:
        res.infra_errors.append('python-side and Coq-side spec predicates disagree on %d case(s)' % n_py_only)
    res.spec_fails.sort(key=lambda sf: len(json.dumps([sf['case']['term'], sf['case'].get('before')])))

    # ---- evidence ---------------------------------------------------------------------
    ok = [(c, r) for c, r in zip(cases, outs) if not r.get('err')]
    distinct = {json.dumps(c['term']) for c, r in ok if depth_of(c['term']) >= 2}
    dh, th, kh = {}, {}, {}
    for c in cases:
        d = depth_of(c['term'])
        dh[d] = dh.get(d, 0) + 1
        th[c['term'][0]] = th.get(c['term'][0], 0) + 1
        kh[c['tag']] = kh.get(c['tag'], 0) + 1
    txt = [json.dumps(c['term']) for c in cases]
    pick = [0, len(cases) // 4, len(cases) // 2, len(cases) - 1]
    res.coverage = dict(
        evaluations=len(cases), distinct_nontrivial=len(distinct),
        rule='non-trivial = nesting depth >= 2 (at least one wrapper object around a function); distinct by term',
        exhaustive=True,
        exhaustive_scope='every well-formed chain classmethod/staticmethod/bound method/partial/partialmethod/cached_property '
                         'of depth <= %d over each of {def, generator, coroutine, async generator} x {plain, already profiled}; '
                         'every presence pattern of property(fget, fset, fdel) over {function, profiled function, partial}'
                         % scope['exhaustive_chain_depth'],
        random_cases=scope['random'], random_max_depth=scope['random_max_depth'],
        depth_histogram=dh, top_constructor_histogram=th, case_kinds=kh,
        consumption_modes=(lambda h: h)({m: sum(r.get('modes', []).count(m) for r in outs) * 3
                                        for m in ('exhaust', 'raise', 'close', 'throw', 'drop')}),
        decorated_through_line_profiler_profile=sum(1 for c in cases if c.get('deco') == 'global'),
        functions_from_one_def_with_different_defaults=sum(1 for c in cases if c.get('same_def')),
        members_of_an_existing_class_decorated_and_put_back=sum(1 for c in cases if c.get('put_back')),
        subclass_typed_wrapper_objects=sum(1 for c in cases if c.get('subclass')),
        functions_carrying_stray_func_fget_attributes=sum(1 for c in cases if c.get('stray')),
        calls_pass_keyword_arguments_named=['func', 'self', 'args', 'kwds', 'cmd', 'globals', 'locals', 'wrapper'],
        cases_with_objects_decorated_in_a_row=sum(1 for c in cases if c.get('before')),
        objects_decorated_in_a_row=sum(len(c.get('before', [])) for c in cases),
        uses_from_a_worker_thread_while_main_is_inside_a_profiled_section=sum(
            r.get('modes', []).count('thread:worker') for r in outs),
        other_thread_completes_a_profiled_section_while_the_function_is_running=sum(
            r.get('modes', []).count('thread:short-other') + r.get('modes', []).count('thread:short-other-w') for r in outs),
        uses_in_main_thread_while_a_worker_is_inside_a_profiled_section=sum(
            r.get('modes', []).count('thread:main') for r in outs),
        cases_with_value_equal_code_objects_in_different_files=sum(
            1 for c in cases if len(leaf_kind_list(c['term'])) != len(set(leaf_kind_list(c['term'])))),
        accesses_performed=sum(len(r.get('plan', [])) for r in outs) * 3,
        function_runs_observed=sum(len(depths(r['runs1'])) + len(depths(r['runs2'])) + len(depths(r['orig'])) for _, r in ok),
        hypothesis_counts=dict(
            contains_already_profiled_part=sum('"wr"' in t for t in txt),
            generator_leaf=sum(', 1, ' in t for t in txt), coroutine_leaf=sum(', 2, ' in t for t in txt),
            async_generator_leaf=sum(', 3, ' in t for t in txt),
            registered_once_hypotheses_hold=sum(1 for c, _ in ok if c['tag'] != 'shared'),
            shared_function_cases=sum(1 for c, _ in ok if c['tag'] == 'shared'),
            second_decoration_returned_same_object=sum(1 for _, r in ok if r.get('same_object'))),
        samples=[dict(case=cases[i], impl=outs[i]) for i in pick],
        timings=dict(implementation_s=round(t_impl, 1), coq_shards_s=round(t_coq, 1)),
        translated=['line_profiler/profiler_mixin.py::ByCountProfilerMixin.wrap_callable, '
                    'line_profiler/line_profiler.py::_get_underlying_functions -> Gen/Dispatch.v',
                    'matched structurally (exact source): the seven is_* predicates, the impl_attrs of every wrap_* wrapper-object '
                    'method, _wrap_callable_wrapper wrapping every impl, the double-wrap guard and marker of wrap_function/'
                    'generator/coroutine/async_generator, _already_wrapped/_mark_wrapped, LineProfiler.__call__/add_callable'],
        trusted_base_extra=[
            'py2coq translator (+ the meaning-preserving rewrites any(...)->or, for-over-tuple unrolling, extend->+, in '
            'harness/py2coq/targets_wrap.py) + Prelude',
            'hand-modelled, tied by correspondence only: wrap (rebuilding each wrapper object), register (add_callable), invoke '
            '(Python descriptor / partial / bound-method call semantics, validated on the UNDECORATED object each run)',
            'hit counts come from the tracing engine (C01); here they are only compared with exact execution counts of two '
            'marker lines per function (the second one inside the finally: clean-up code of generator / coroutine / '
            'async-generator bodies)'])
    res.notes.append('threads: the executing thread\'s own enable depth is what the model\'s d denotes (per-thread counts: C05_threads)')
    res.assumptions = ['one profiler; compositions Python itself can use (e.g. a property accessor is callable); the functions inside '
                       'one object are pairwise distinct and were not decorated through another object before',
                       'setter / deleter accessors are plain functions (Python discards what they return)']
    return res


def replay(path):
    data = json.load(open(path))
    impl = core.build_impl()
    c = data['case']
    r = run_cases(impl, [c])[0]
    w = py_spec_why(r, shared=(c.get('tag') == 'shared')) or sib_why(c, r)
    print(json.dumps(dict(case=c, impl=r, holds=w is None, why=w), indent=1))
    return 0 if w is None else 1
