"""Generator of executable programs for C08's behavioural tie.

A program is a random selection of self-contained snippets (each prints lines that start
with its own tag `S<k>:` so that a difference can be attributed), optionally wrapped in
compound statements, behind an optional `__future__` header and import block, optionally
ending in an uncaught exception.  Tags name the constructs the property lists:
nested / async functions, every method kind, existing decorators, generators that return
values, closures, star / aliased / relative / in-function / __future__ imports."""

HELPER = '''__all__ = ['hf', 'HK', 'HVALUE']
HVALUE = 41
def hf(x=1):
    y = x + 100
    return y
class HK:
    def hm(self):
        return 7
    @staticmethod
    def hs():
        return 8
# classes whose class-level attribute access runs program code: a registration hook must not touch them
_H_EVENTS = []
class _Loud:
    def __set_name__(self, owner, name):
        self.name = name
    def __get__(self, obj, owner):
        _H_EVENTS.append(self.name)
        print('H: descriptor', self.name, 'read on', 'class' if obj is None else 'instance', len(_H_EVENTS))
        return len(_H_EVENTS)
class _Strict:
    def __get__(self, obj, owner):
        if obj is None:
            raise RuntimeError('class-level access before set-up')
        return 'strict ok'
class _HMeta(type):
    def __getattr__(cls, name):
        print('H: metaclass __getattr__', name)
        raise AttributeError(name)
class HDesc(metaclass=_HMeta):
    loud = _Loud()
    def hm(self):
        return 9
class HBase:
    lazy = _Loud()
    def base_m(self):
        return 10
class HStrict(HBase):
    strict = _Strict()
    def hm(self):
        return 11
'''

# (tags, code).  {p} is the snippet's print tag; names are suffixed with {n} to stay unique.
SNIPPETS = [
    (['plain'], '''
def plain_{n}(a, b=2, *args, c=3, **kw):
    """docstring of plain"""
    return a + b + c + len(args) + len(kw)
print('{p}', plain_{n}(1), plain_{n}(1, 2, 3, 4, c=5, z=6), plain_{n}.__name__, plain_{n}.__doc__)
'''),
    (['nested', 'closure'], '''
def outer_{n}(k):
    total = 0
    def middle(x):
        nonlocal total
        def inner(y):
            nonlocal total
            total += y
            return total * k
        return inner(x) + inner(x + 1)
    r = [middle(i) for i in range(3)]
    return r, total
print('{p}', outer_{n}(2))
def make_counter_{n}():
    c = [0]
    def bump(by=1):
        c[0] += by
        return c[0]
    return bump
_b_{n} = make_counter_{n}()
print('{p}', _b_{n}(), _b_{n}(5), _b_{n}.__name__)
'''),
    (['recursion'], '''
def fact_{n}(k):
    return 1 if k <= 1 else k * fact_{n}(k - 1)
def even_{n}(k):
    return True if k == 0 else odd_{n}(k - 1)
def odd_{n}(k):
    return False if k == 0 else even_{n}(k - 1)
print('{p}', fact_{n}(10), even_{n}(10), odd_{n}(7))
'''),
    (['decorated'], '''
import functools
def deco_{n}(fn):
    @functools.wraps(fn)
    def wrapper(*a, **k):
        return ('wrapped', fn(*a, **k))
    return wrapper
def deco_args_{n}(tag):
    def apply(fn):
        def inner(*a, **k):
            return (tag, fn(*a, **k))
        inner.__name__ = fn.__name__
        return inner
    return apply
@deco_{n}
def once_{n}(x):
    return x * 2
@deco_args_{n}('T')
@deco_{n}
def twice_{n}(x):
    return x * 3
@functools.lru_cache(maxsize=None)
def cached_{n}(x):
    return x + 1
print('{p}', once_{n}(1), twice_{n}(2), once_{n}.__name__, twice_{n}.__name__)
print('{p}', cached_{n}(1), cached_{n}(1), cached_{n}.cache_info().hits)
'''),
    (['methods'], '''
class K_{n}:
    """class doc"""
    count = 0
    def __init__(self, v):
        self.v = v
        K_{n}.count += 1
    def inst(self, d=1):
        return self.v + d
    @staticmethod
    def stat(x):
        return x * 10
    @classmethod
    def cls(cls, x):
        return (cls.__name__, x)
    @property
    def prop(self):
        return self.v * 2
    @prop.setter
    def prop(self, nv):
        self.v = nv
    @prop.deleter
    def prop(self):
        self.v = None
    def __repr__(self):
        return 'K(%r)' % (self.v,)
    def __eq__(self, other):
        return isinstance(other, K_{n}) and self.v == other.v
    def __hash__(self):
        return hash(self.v)
_k_{n} = K_{n}(3)
print('{p}', _k_{n}.inst(), _k_{n}.inst(d=4), K_{n}.stat(2), _k_{n}.stat(3), K_{n}.cls(1), _k_{n}.cls(2), _k_{n}.prop)
_k_{n}.prop = 9
print('{p}', _k_{n}, _k_{n}.prop, K_{n}.inst(_k_{n}), _k_{n} == K_{n}(9), K_{n}.count)
del _k_{n}.prop
_bm_{n} = _k_{n}.inst
print('{p}', _k_{n}, len({{K_{n}(1), K_{n}(1)}}), _bm_{n}.__name__)
'''),
    (['inheritance', 'methods'], '''
class Base_{n}:
    registry = []
    def __init_subclass__(cls, **kw):
        super().__init_subclass__(**kw)
        Base_{n}.registry.append(cls.__name__)
    def __class_getitem__(cls, item):
        return (cls.__name__, item)
    def who(self):
        return 'base'
    def chain(self):
        return [self.who()]
class Child_{n}(Base_{n}):
    def who(self):
        return 'child>' + super().who()
    def chain(self):
        return ['child'] + super().chain()
    def __new__(cls, *a):
        obj = super().__new__(cls)
        obj.made = True
        return obj
print('{p}', Child_{n}().who(), Child_{n}().chain(), Base_{n}.registry, Base_{n}[int], Child_{n}().made)
'''),
    (['dunder', 'methods'], '''
class Box_{n}:
    __slots__ = ('items',)
    def __init__(self, *items):
        self.items = list(items)
    def __call__(self, x):
        return x in self
    def __contains__(self, x):
        return x in self.items
    def __getitem__(self, i):
        return self.items[i]
    def __len__(self):
        return len(self.items)
    def __iter__(self):
        for it in self.items:
            yield it
    def __add__(self, other):
        return Box_{n}(*(self.items + other.items))
    def __bool__(self):
        return bool(self.items)
_bx_{n} = Box_{n}(1, 2) + Box_{n}(3)
print('{p}', _bx_{n}(2), _bx_{n}(5), _bx_{n}[0], len(_bx_{n}), list(_bx_{n}), bool(Box_{n}()), sorted(_bx_{n}, reverse=True))
'''),
    (['dataclass', 'methods'], '''
import dataclasses
@dataclasses.dataclass
class Pt_{n}:
    x: int
    y: int = 2
    def __post_init__(self):
        self.s = self.x + self.y
    def norm(self):
        return self.x * self.x + self.y * self.y
print('{p}', Pt_{n}(1), Pt_{n}(3, 4).norm(), Pt_{n}(3, 4).s, Pt_{n}(1) == Pt_{n}(1, 2))
'''),
    (['context', 'generator'], '''
import contextlib
class CM_{n}:
    def __init__(self):
        self.log = []
    def __enter__(self):
        self.log.append('enter')
        return self
    def __exit__(self, et, ev, tb):
        self.log.append('exit:%s' % (et.__name__ if et else None))
        return et is KeyError
@contextlib.contextmanager
def managed_{n}(tag):
    out = [tag + ':before']
    try:
        yield out
    finally:
        out.append(tag + ':after')
with CM_{n}() as _c_{n}:
    _c_{n}.log.append('body')
    raise KeyError('swallowed')
with managed_{n}('m') as _o_{n}:
    _o_{n}.append('inside')
print('{p}', _c_{n}.log, _o_{n})
'''),
    (['generator'], '''
def gen_{n}(k):
    for i in range(k):
        yield i * i
def echo_{n}():
    got = []
    while True:
        x = yield got
        if x is None:
            return
        got.append(x)
_e_{n} = echo_{n}()
next(_e_{n})
print('{p}', list(gen_{n}(4)), sum(gen_{n}(5)), _e_{n}.send(1), _e_{n}.send(2))
def bare_return_{n}():
    yield 1
    return
    yield 2
print('{p}', list(bare_return_{n}()), [x for x in gen_{n}(3)], tuple(v for v in gen_{n}(2)))
'''),
    (['genret', 'generator'], '''
def sub_{n}():
    yield 1
    yield 2
    return 'sub-result'
def deleg_{n}():
    r = yield from sub_{n}()
    yield r
print('{p}', list(deleg_{n}()))
'''),
    (['genret', 'generator'], '''
def withret_{n}():
    yield 'a'
    return 42
_g_{n} = withret_{n}()
next(_g_{n})
try:
    next(_g_{n})
except StopIteration as _si_{n}:
    print('{p}', 'stop value', _si_{n}.value)
'''),
    (['genclose', 'generator'], '''
def closing_{n}(log):
    try:
        yield 1
        yield 2
    finally:
        log.append('cleanup')
_log_{n} = []
_cg_{n} = closing_{n}(_log_{n})
next(_cg_{n})
_cg_{n}.close()
print('{p}', _log_{n})
'''),
    (['genthrow', 'generator'], '''
def catching_{n}():
    while True:
        try:
            x = yield 'ready'
        except ValueError as e:
            yield 'caught %s' % e
_tg_{n} = catching_{n}()
next(_tg_{n})
print('{p}', _tg_{n}.throw(ValueError('v')))
'''),
    (['async'], '''
import asyncio
async def aleaf_{n}(x):
    await asyncio.sleep(0)
    return x + 1
async def amid_{n}(x):
    async def anested(y):
        return await aleaf_{n}(y) * 2
    a = await anested(x)
    b = await aleaf_{n}(a)
    return a, b
print('{p}', asyncio.run(amid_{n}(1)), asyncio.iscoroutinefunction(aleaf_{n}))
'''),
    (['async', 'asyncgen'], '''
import asyncio
async def agen_{n}(k):
    for i in range(k):
        await asyncio.sleep(0)
        yield i + 1
class ACM_{n}:
    async def __aenter__(self):
        return 'entered'
    async def __aexit__(self, *a):
        return False
async def adrive_{n}():
    out = []
    async for v in agen_{n}(3):
        out.append(v)
    async with ACM_{n}() as tag:
        out.append(tag)
    out.append([v async for v in agen_{n}(2)])
    return out
print('{p}', asyncio.run(adrive_{n}()))
'''),
    (['lambda'], '''
def lam_{n}(xs):
    sq = lambda v: v * v
    return sorted((sq(x) for x in xs), key=lambda v: -v), {{x: sq(x) for x in xs if x % 2}}, [y for x in xs for y in (x, -x)]
print('{p}', lam_{n}([3, 1, 2]))
'''),
    (['exceptions'], '''
class MyErr_{n}(Exception):
    def __init__(self, code):
        super().__init__('code %d' % code)
        self.code = code
def raiser_{n}(k):
    if k > 1:
        raise MyErr_{n}(k)
    return k
def guarded_{n}(k):
    log = []
    try:
        log.append(raiser_{n}(k))
    except MyErr_{n} as e:
        log.append(('caught', e.code, str(e)))
    else:
        log.append('else')
    finally:
        log.append('finally')
    return log
def finally_wins_{n}():
    try:
        return 'try'
    finally:
        return 'finally'
print('{p}', guarded_{n}(1), guarded_{n}(5), finally_wins_{n}())
try:
    raiser_{n}(9)
except Exception as _e_{n}:
    print('{p}', type(_e_{n}).__name__, _e_{n}.args)
'''),
    (['global'], '''
COUNTER_{n} = 0
def bump_global_{n}(by):
    global COUNTER_{n}
    COUNTER_{n} += by
    return COUNTER_{n}
print('{p}', bump_global_{n}(2), bump_global_{n}(3), COUNTER_{n})
'''),
    (['import_in_function'], '''
def uses_json_{n}(d):
    import json
    from collections import OrderedDict as OD
    return json.dumps(OD(sorted(d.items())))
def lazy_{n}():
    import os.path as osp
    return osp.basename('/a/b/c.txt')
print('{p}', uses_json_{n}({{'b': 1, 'a': 2}}), lazy_{n}())
'''),
    (['import_in_try'], '''
try:
    import module_that_does_not_exist_{n} as _mm_{n}
except ImportError:
    _mm_{n} = None
try:
    from math import tau as _tau_{n}, nonexistent_name_{n}
except ImportError as _ie_{n}:
    _tau_{n} = 'missing'
print('{p}', _mm_{n}, _tau_{n})
'''),
    (['partial'], '''
import functools
def three_{n}(a, b, c):
    return (a, b, c)
class Holder_{n}:
    def meth(self, x):
        return ('meth', x)
    call = functools.partialmethod(meth, 'pm')
_p_{n} = functools.partial(three_{n}, 1, c=3)
print('{p}', _p_{n}(2), Holder_{n}().call(), list(map(three_{n}, [1], [2], [3])))
'''),
    (['introspection'], '''
import inspect
def gi_{n}():
    yield 1
async def ci_{n}():
    return 1
def fi_{n}(a, b=1):
    return a
print('{p}', inspect.isgeneratorfunction(gi_{n}), inspect.iscoroutinefunction(ci_{n}), inspect.isfunction(fi_{n}),
      str(inspect.signature(fi_{n})), callable(fi_{n}))
'''),
    (['nested_class'], '''
class Outer_{n}:
    class Inner:
        def im(self):
            return 'inner'
        class Deep:
            @staticmethod
            def dm():
                return 'deep'
    def om(self):
        def local_fn():
            class Local:
                def lm(self):
                    return 'local'
            return Local().lm()
        return local_fn()
print('{p}', Outer_{n}.Inner().im(), Outer_{n}.Inner.Deep.dm(), Outer_{n}().om())
'''),
    (['helper_use'], '''
print('{p}', 'helper', c08_helper.hf(1), c08_helper.HK().hm(), c08_helper.HK.hs())
'''),
]
SNIPPETS += [
    (['dotted_profile_decorator', 'decorated'], '''
class Registry_{n}:
    def __init__(self):
        self.seen = []
    def profile_it(self, fn):
        return fn
    def profile(self, fn):          # last in the class body (see the shadow_profile snippet)
        self.seen.append(fn.__name__)
        return fn
_reg_{n} = Registry_{n}()
@_reg_{n}.profile
def dotted_{n}(x):
    return x + 1
@_reg_{n}.profile_it
def dotted2_{n}(x):
    return x + 2
print('{p}', dotted_{n}(1), dotted2_{n}(1), _reg_{n}.seen)
'''),
    (['shadow_profile', 'methods'], '''
class User_{n}:
    def profile(self):
        return 'user profile'
    def other(self):
        return 'other'
_u_{n} = User_{n}()
print('{p}', _u_{n}.profile(), _u_{n}.other())
'''),
    (['annotations'], '''
_notes_{n} = []
def note_{n}(tag, value):
    _notes_{n}.append(tag)
    return value
def annotated_{n}(a: int, b: note_{n}('b', str) = 'x', *rest: float, flag: bool = False) -> note_{n}('ret', list):
    return [a, b, rest, flag]
class Ann_{n}:
    count: int = 0
    label: note_{n}('attr', str) = 'l'
    def meth(self, v: 'Ann_{n}') -> 'Ann_{n}':
        return v
def coerce_{n}(**kw):
    hints = annotated_{n}.__annotations__
    try:
        return [hints[k](v) for k, v in sorted(kw.items())]
    except TypeError:
        return 'annotations are not callable objects'
print('{p}', sorted(annotated_{n}.__annotations__.items(), key=str), _notes_{n})
print('{p}', Ann_{n}.__annotations__, Ann_{n}.meth.__annotations__, coerce_{n}(a='3', flag=''))
try:
    def bad_annotation_{n}(x: undefined_name_{n}):
        return x
    print('{p}', 'defined', bad_annotation_{n}.__annotations__)
except NameError as _ne_{n}:
    print('{p}', 'annotation raised NameError')
'''),
    (['annotations', 'dataclass'], '''
import dataclasses, typing
@dataclasses.dataclass
class Conf_{n}:
    name: str
    retries: int = 3
    registry: typing.ClassVar[dict] = {{}}
    tags: typing.List[str] = dataclasses.field(default_factory=list)
    def describe(self) -> str:
        return '%s/%d' % (self.name, self.retries)
def hinted_{n}(x: typing.Optional[int], y: 'typing.List[int]' = None) -> typing.Dict[str, int]:
    return {{'x': x or 0}}
print('{p}', [(f.name, f.type) for f in dataclasses.fields(Conf_{n})], Conf_{n}('c').describe())
print('{p}', typing.get_type_hints(hinted_{n}), typing.get_type_hints(Conf_{n}.describe), hinted_{n}.__annotations__['x'])
'''),
    (['descriptor_class'], '''
from c08_helper import HDesc as HD_{n}
_hd_{n} = HD_{n}()
print('{p}', 'HDesc', _hd_{n}.hm(), _hd_{n}.loud, HD_{n}.loud, getattr(HD_{n}, 'missing_{n}', 'default'))
'''),
    (['descriptor_class', 'strict_descriptor'], '''
from c08_helper import HStrict as HS_{n}
_hs_{n} = HS_{n}()
print('{p}', 'HStrict', _hs_{n}.hm(), _hs_{n}.base_m(), _hs_{n}.strict, _hs_{n}.lazy)
try:
    HS_{n}.strict
except RuntimeError as _re_{n}:
    print('{p}', 'class access raised', _re_{n})
'''),
    (['generator', 'gen_base_exception'], '''
import contextlib
@contextlib.contextmanager
def guard_{n}(log):
    try:
        yield 'guarded'
    except SystemExit as e:
        log.append('exit %r handled' % (e.code,))
    except KeyboardInterrupt:
        log.append('interrupt handled')
    finally:
        log.append('left')
def reacts_{n}(log):
    while True:
        try:
            got = yield 'ready'
            log.append(('sent', got))
        except KeyboardInterrupt:
            log.append('KeyboardInterrupt inside')
            yield 'after interrupt'
        except GeneratorExit:
            log.append('GeneratorExit inside')
            raise
_lg_{n} = []
with guard_{n}(_lg_{n}):
    raise SystemExit(3)
with guard_{n}(_lg_{n}):
    raise KeyboardInterrupt()
_rg_{n} = reacts_{n}(_lg_{n})
next(_rg_{n})
print('{p}', _rg_{n}.send(1), _rg_{n}.throw(KeyboardInterrupt()), next(_rg_{n}))
_rg_{n}.close()
print('{p}', _lg_{n})
'''),
    (['generator', 'gen_close_visible'], '''
def stubborn_{n}():
    try:
        yield 1
    except GeneratorExit:
        yield 'ignored the close'
def failing_cleanup_{n}():
    try:
        yield 1
    finally:
        raise LookupError('cleanup failed')
def counting_{n}(log):
    try:
        for i in range(5):
            yield i
    finally:
        log.append('closed after %d' % i)
_cl_{n} = []
_g1_{n} = stubborn_{n}(); next(_g1_{n})
try:
    _g1_{n}.close()
    _cl_{n}.append('closed quietly')
except RuntimeError as e:
    _cl_{n}.append('RuntimeError: %s' % e)
_g2_{n} = failing_cleanup_{n}(); next(_g2_{n})
try:
    _g2_{n}.close()
except LookupError as e:
    _cl_{n}.append('LookupError: %s' % e)
_g3_{n} = counting_{n}(_cl_{n}); next(_g3_{n}); next(_g3_{n}); _g3_{n}.close()
for _v_{n} in counting_{n}(_cl_{n}):
    if _v_{n} == 3:
        break
print('{p}', _cl_{n})
'''),
    (['redefinition', 'defaults'], '''
_cbs_{n} = []
for _i_{n} in range(3):
    def cb_{n}(x, i=_i_{n}, *, scale=_i_{n} * 10):
        return (x, i, scale)
    _cbs_{n}.append(cb_{n})
def make_adder_{n}(k):
    def adder(x, k=k):
        return x + k
    return adder
def make_kw_{n}(tag):
    def tagged(*, tag=tag):
        return tag
    return tagged
_ad_{n} = [make_adder_{n}(k) for k in (1, 10, 100)]
_kw_{n} = [make_kw_{n}(t) for t in 'abc']
print('{p}', [f(0) for f in _cbs_{n}], [f(1) for f in _ad_{n}], [f() for f in _kw_{n}],
      len({{id(f) for f in _cbs_{n}}}), _cbs_{n}[0] is _cbs_{n}[1])
class Holder_{n}:
    handlers = []
    for _j in range(2):
        def handle(self, j=_j):
            return ('handled', j)
        handlers.append(handle)
print('{p}', [h(None) for h in Holder_{n}.handlers])
'''),
    (['import_in_function', 'multiline_import'], '''
def paths_{n}(n):
    from os.path import (join,
                         basename,
                         splitext)
    import json as _js, \\
        re as _re
    return basename(join('a', str(n))), splitext('x.py')[1], _js.dumps([n]), bool(_re.match('a', 'ab'))
def paths2_{n}():
    from collections import (
        OrderedDict,
    )
    from os import sep
    return OrderedDict(a=1), len(sep)
print('{p}', [paths_{n}(i) for i in range(2)], paths2_{n}())
'''),
    (['lib_use'], '''
print('{p}', 'lib', c08lib.alpha.fa(1), c08lib.beta.fb(1), c08lib.gamma.fg(1))
'''),
]
SNIP_TAGS = [t for t, _c in SNIPPETS]

# a helper package: several selected names bound by ONE import statement, followed by further
# selected imports (registration statements must stay behind their own import)
LIB_FILES = {
    'c08lib/__init__.py': '',
    'c08lib/alpha.py': 'def fa(x=0):\n    y = x + 11\n    return y\n',
    'c08lib/beta.py': 'def fb(x=0):\n    y = x + 22\n    return y\n',
    'c08lib/gamma.py': 'def fg(x=0):\n    y = x + 33\n    return y\n',
}
LIB_IMPORT_BLOCKS = [
    ['from c08lib import alpha, beta', 'import json', 'from c08lib import gamma'],
    ['from c08lib import alpha as la, beta as lb, gamma as lg', 'import c08lib.gamma', 'from c08lib.alpha import fa as lfa'],
    ['import c08lib.alpha, c08lib.beta', 'from c08lib import gamma as lg2', 'from c08lib.beta import fb'],
]

FUTURE_HEADERS = [
    ([], []),
    ([], ['from __future__ import annotations']),
    ([], ['from __future__ import annotations, division']),
    (['future2'], ['from __future__ import annotations', 'from __future__ import division']),
    (['future2'], ['from __future__ import annotations', 'from __future__ import division', 'from __future__ import generator_stop']),
]
TOP_IMPORTS = [
    ([], 'import os.path as osp'),
    ([], 'from collections import OrderedDict as OD, defaultdict'),
    ([], 'import json, re as regex'),
    ([], 'import os, os'),
    (['star'], 'from c08_helper import *'),
    (['descriptor_class_top'], 'from c08_helper import HDesc, HStrict as HTopStrict, HK as HTopK'),
    (['star_std'], 'from string import *'),
    (['bare_relative'], 'from . import sibling_mod'),
]
WRAPPERS = ['none', 'none', 'if', 'try', 'with', 'for']


def indent(text, n=1):
    pad = '    ' * n
    return '\n'.join((pad + l) if l.strip() else l for l in text.split('\n'))


def gen_program(rnd, module_mode=False):
    """returns dict(text, tags, snippet_tags={tag id: [tags]})"""
    lines = []
    tags = set()
    if rnd.random() < 0.3:
        lines.append('"""program docstring"""')
    ftags, fl = rnd.choice(FUTURE_HEADERS) if rnd.random() < 0.5 else ([], [])
    tags |= set(ftags)
    lines += fl
    lines.append('import c08_helper')
    lines += ['import c08lib.alpha, c08lib.beta, c08lib.gamma'] if rnd.random() < 0.5 else \
             ['import c08lib.gamma', 'import c08lib.alpha, c08lib.beta']
    if rnd.random() < 0.6:
        lines += rnd.choice(LIB_IMPORT_BLOCKS)
        tags.add('multi_name_selected_import')
    for t, imp in rnd.sample(TOP_IMPORTS, rnd.randint(0, 3)):
        if 'bare_relative' in t and (module_mode or rnd.random() < 0.7):
            continue
        if rnd.random() < (0.35 if t else 1.0):
            lines.append(imp)
            tags |= set(t)
    if module_mode:
        lines += ['from . import near', 'from .. import sib', 'from ..sib import thing as t_thing, sf',
                  'from .near import nf as near_fn']
        tags.add('relative')
    snippet_tags = {}
    k = rnd.randint(2, 7)
    # constructs whose handling is known to be wrong are kept rarer so most programs are clean
    pool = [i for i, (t, _c) in enumerate(SNIPPETS)
            if not (set(t) & {'genret', 'genclose', 'genthrow', 'shadow_profile'}) or rnd.random() < 0.35]
    if any('annotations' in l for l in fl):
        # with PEP 563 in the program itself dataclasses resolves the string "typing.ClassVar" through
        # sys.modules['__main__'], which under kernprof (with or without -p) is kernprof: property C07
        pool = [i for i in pool if not {'annotations', 'dataclass'} <= set(SNIPPETS[i][0])]
    chosen = rnd.sample(pool, min(k, len(pool)))
    for j, si in enumerate(chosen):
        stags, code = SNIPPETS[si]
        p = 'S%d:' % j
        snippet_tags[p] = stags
        tags |= set(stags)
        body = code.strip('\n').format(p=p, n='%d' % j)
        if rnd.random() < 0.25:
            # line boundaries for str.splitlines(), not for the tokenizer
            lines.append(rnd.choice(['# form feed \x0c in a comment', '\x0c', '# \x0b \x1c \x1d \x1e', '# NEL \x85 LS \u2028 PS \u2029']))
        w = rnd.choice(WRAPPERS)
        if w == 'none':
            lines.append(body)
        elif w == 'if':
            lines += ['if len(__name__) > 0:', indent(body), 'else:', '    pass']
        elif w == 'try':
            lines += ['try:', indent(body), 'finally:', '    pass']
        elif w == 'with':
            lines += ['with open(__file__) as _fh_%d:' % j, indent(body)]
        else:
            lines += ['for _once_%d in range(1):' % j, indent(body)]
    if module_mode:
        lines.append("print('R:', near.nf(), sib.sf(), t_thing, sf(), near_fn())")
    if 'star' in tags:
        lines.append("print('ST:', hf(2), HVALUE)")
    r = rnd.random()
    if r < 0.12:
        lines += ['def final_raiser():', "    raise KeyError('boom')", 'final_raiser()']
        tags.add('uncaught')
    elif r < 0.2:
        lines += ["print('Z:', 1 // 0)"]
        tags.add('uncaught')
    return dict(text='\n'.join(lines) + '\n', tags=sorted(tags), snippet_tags=snippet_tags)


def gen_behaviour_case(rnd, module_mode=False):
    prog = gen_program(rnd, module_mode)
    files = {'c08_helper.py': HELPER}
    files.update(LIB_FILES)
    symlinks, script_real, modname_h = {}, None, None
    if module_mode:
        # the package is either a plain directory or reached through a symlink with ANOTHER name whose
        # target is not importable itself (rpkg -> store/realpkg): its modules are rpkg.*, nothing else
        root = 'rpkg/' if rnd.random() < 0.5 else 'store/realpkg/'
        if root != 'rpkg/':
            symlinks = {'rpkg': 'store/realpkg'}
        files.update({root + '__init__.py': '', root + 'sib.py': 'thing = 5\ndef sf():\n    return 6\n',
                      root + 'sub/__init__.py': '', root + 'sub/near.py': 'def nf():\n    return 3\n'})
        stem = rnd.choice(['runme', '__main__'])
        script = 'rpkg/sub/%s.py' % stem
        script_real = root + 'sub/%s.py' % stem
        module = 'rpkg.sub' if stem == '__main__' else 'rpkg.sub.runme'
        modname_h = 'rpkg.sub.%s' % stem
        me = [module, script]
    else:
        script = rnd.choice(['prog.py', 'dir_a/prog.py'])
        module = None
        me = [script, './' + script]
        if script.startswith('dir_a/'):
            for rel in ['c08_helper.py'] + sorted(LIB_FILES):
                files['dir_a/' + rel] = files.pop(rel)
    files[script_real or script] = prog['text']
    cfgs = []
    pick = rnd.sample(['full', 'full_imports', 'helper', 'helper_full', 'nothing', 'lib', 'lib_full'], 2)
    for c in pick:
        m = rnd.choice(me)
        if c == 'full':
            cfgs.append(['-p', m])
        elif c == 'full_imports':
            cfgs.append(['-p', m, '--prof-imports'])
        elif c == 'helper':
            cfgs.append(['-p', 'c08_helper'])
        elif c == 'helper_full':
            cfgs.append(['-p', 'c08_helper,' + m] if rnd.random() < 0.5 else ['-p', 'c08_helper', '-p', m])
        elif c == 'lib':
            cfgs.append(rnd.choice([['-p', 'c08lib'], ['-p', 'c08lib.alpha,c08lib.beta', '-p', 'c08lib.gamma']]))
        elif c == 'lib_full':
            cfgs.append(['-p', 'c08lib,c08_helper,' + m])
        else:
            cfgs.append(['-p', 'nothing_matches_this'])
    return dict(kind='behaviour', files=files, script=script, script_real=script_real or script, symlinks=symlinks,
                modname_h=modname_h, module=module, configs=cfgs, cfg_names=pick,
                tags=prog['tags'], snippet_tags=prog['snippet_tags'])
