"""Generators shared by the C09 and C08 checks.

 * project layouts on disk (packages / sub-packages / modules with look-alike names),
   scripts importing from them in all four styles, selections spelled as dotted names
   or paths, comma-joined or repeated -p  (executable: used in-process and end-to-end);
 * random syntactically valid program texts with deep nesting, every compound statement,
   decorators, and every import form (not executed: tree-level tie only).
"""
import os

PKGS = ['pkg', 'pkgx', 'pk', 'pkg_a', 'foo', 'foobar', 'foo_bar', 'lib']
MODS = ['mod', 'moda', 'mod_a', 'mod_b', 'm', 'util', 'utils', 'core', '_core', '_util']
SUBS = ['sub', 'subx', 'su', '_impl', '_vendor', '__inner']     # private sub-packages are packages like any other
TOPMODS = ['helper', 'helperx', 'help', 'tools']


# ---------------------------------------------------------------------------------------
# layouts
class Layout:
    def __init__(self):
        self.ns_dirs = []
        self.files = {}      # relpath -> text
        self.mods = {}       # dotted -> dict(path=rel, is_pkg=bool, funcs=[name], classes={cname: [(mname, kind)]})

    def add_module(self, dotted, rel, text, funcs, classes, is_pkg=False, ns=False):
        self.files[rel] = text
        self.mods[dotted] = dict(path=rel, is_pkg=is_pkg, funcs=funcs, classes=classes, ns=ns)

    def children(self, dotted):
        return sorted(m for m in self.mods if m.startswith(dotted + '.') and '.' not in m[len(dotted) + 1:])

    def descendants(self, dotted):
        return sorted(m for m in self.mods if m.startswith(dotted + '.'))


class _Uniq:
    """Every generated function gets its own bytecode: the profiler core pads byte-identical
    functions with NOPs and can drop one of them when functions are registered repeatedly
    (properties C04/C12) - that must not blur what C09 measures."""
    def __init__(self):
        self.n = 0

    def body(self, indent, var='y'):
        self.n += 1
        k, out = self.n, []
        for _bit in range(7):
            out.append('%s%s = %s %s 1' % (indent, var, var, '+' if k & 1 else '-'))
            k >>= 1
        return out


def gen_module_text(rnd, wrapped=True, empty_ok=False, uniq=None):
    uniq = uniq or _Uniq()
    lines, funcs, classes = [], [], {}
    nf = rnd.randint(0 if empty_ok else 1, 3)
    for i in range(nf):
        nm = 'f%d' % i
        lines += ['def %s(x=0):' % nm, '    y = x + %d' % rnd.randint(1, 999)] + uniq.body('    ') + ['    return y', '']
        funcs.append(nm)
    if rnd.random() < 0.6:
        cn = 'K%d' % rnd.randint(0, 2)
        ms = [('m0', 'plain')]
        lines += ['class %s:' % cn, '    def m0(self, x=0):', '        y = x + %d' % rnd.randint(1, 999)] \
            + uniq.body('        ') + ['        return y']
        if rnd.random() < 0.5:
            lines += ['    def m1(self):', '        y = %d' % rnd.randint(1, 999)] + uniq.body('        ') + ['        return y']
            ms.append(('m1', 'plain'))
        if wrapped and rnd.random() < 0.5:
            kind = rnd.choice(['static', 'class', 'property'])
            if kind == 'static':
                lines += ['    @staticmethod', '    def w0(x=0):', '        y = x - %d' % rnd.randint(1, 999)]
            elif kind == 'class':
                lines += ['    @classmethod', '    def w0(cls, x=0):', '        y = x - %d' % rnd.randint(1, 999)]
            else:
                lines += ['    @property', '    def w0(self):', '        y = %d' % rnd.randint(1, 999)]
            lines += uniq.body('        ') + ['        return y']
            ms.append(('w0', kind))
        lines.append('')
        classes[cn] = ms
    if not lines:
        lines = ['VALUE = %d' % rnd.randint(1, 99), '']
    return '\n'.join(lines) + '\n', funcs, classes


def gen_layout(rnd, prefix='', wrapped=True):
    """prefix: directory (relative, '' or 'app/') under which importable things live."""
    lay = Layout()
    uniq = _Uniq()
    pk = rnd.sample(PKGS, rnd.randint(1, 3))
    for p in pk:
        t, f, c = gen_module_text(rnd, wrapped, empty_ok=True, uniq=uniq)
        lay.add_module(p, '%s%s/__init__.py' % (prefix, p), t, f, c, is_pkg=True)
        for m in rnd.sample(MODS, rnd.randint(1, 3)):
            t, f, c = gen_module_text(rnd, wrapped, uniq=uniq)
            lay.add_module('%s.%s' % (p, m), '%s%s/%s.py' % (prefix, p, m), t, f, c)
        if rnd.random() < 0.5:
            s = rnd.choice(SUBS)
            t, f, c = gen_module_text(rnd, wrapped, empty_ok=True, uniq=uniq)
            lay.add_module('%s.%s' % (p, s), '%s%s/%s/__init__.py' % (prefix, p, s), t, f, c, is_pkg=True)
            for m in rnd.sample(MODS, rnd.randint(1, 2)):
                t, f, c = gen_module_text(rnd, wrapped, uniq=uniq)
                lay.add_module('%s.%s.%s' % (p, s, m), '%s%s/%s/%s.py' % (prefix, p, s, m), t, f, c)
    for m in rnd.sample(TOPMODS, rnd.randint(0, 2)):
        t, f, c = gen_module_text(rnd, wrapped, uniq=uniq)
        lay.add_module(m, '%s%s.py' % (prefix, m), t, f, c)
    if rnd.random() < 0.35:
        # a namespace package (a directory without __init__.py) and, beside it, top-level modules that
        # have the same short names as its modules
        ns = rnd.choice(['nsp', 'nspace'])
        lay.ns_dirs = [ns]
        for m in rnd.sample(MODS[:8], rnd.randint(1, 2)):
            t, f, c = gen_module_text(rnd, wrapped, uniq=uniq)
            lay.add_module('%s.%s' % (ns, m), '%s%s/%s.py' % (prefix, ns, m), t, f, c, ns=True)
            if rnd.random() < 0.7:
                t, f, c = gen_module_text(rnd, wrapped, uniq=uniq)
                lay.add_module(m, '%s%s.py' % (prefix, m), t, f, c)
    return lay


class Binding:
    """one name bound by a top-level import of the generated script"""
    def __init__(self, real, local, kind, usage):
        self.real, self.local, self.kind, self.usage = real, local, kind, usage


def gen_import_stmt(rnd, lay, aliases):
    """returns (source line, [Binding]) for one import statement"""
    mods = sorted(lay.mods)
    style = rnd.choice(['import', 'import', 'from_mod', 'from_mod', 'from_member'])
    n = rnd.choice([1, 1, 2, 2, 3])
    if style == 'import':
        parts, bs = [], []
        for tgt in [rnd.choice(mods) for _ in range(n)]:
            if rnd.random() < 0.5:
                al = aliases.pop()
                parts.append('%s as %s' % (tgt, al))
                bs.append(Binding(tgt, al, 'module', al))
            else:
                parts.append(tgt)
                bs.append(Binding(tgt, None, 'module', tgt))
        return 'import ' + ', '.join(parts), bs
    if style == 'from_mod':
        bases = [m for m in mods if lay.mods[m]['is_pkg'] and lay.children(m)] + [n for n in lay.ns_dirs if lay.children(n)]
        if bases:
            base = rnd.choice(bases)
            kids = lay.children(base)
            parts, bs = [], []
            for tgt in [rnd.choice(kids) for _ in range(n)]:
                short = tgt.rsplit('.', 1)[1]
                if rnd.random() < 0.5:
                    al = aliases.pop()
                    parts.append('%s as %s' % (short, al))
                    bs.append(Binding(tgt, al, 'module', al))
                else:
                    parts.append(short)
                    bs.append(Binding(tgt, short, 'module', short))
            return 'from %s import %s' % (base, ', '.join(parts)), bs
    # from <module> import <function/class>
    cands = [m for m in mods if lay.mods[m]['funcs'] or lay.mods[m]['classes']]
    base = rnd.choice(cands)
    members = [(f, 'function') for f in lay.mods[base]['funcs']] + [(c, 'class') for c in lay.mods[base]['classes']]
    parts, bs = [], []
    for nm, kind in [rnd.choice(members) for _ in range(n)]:
        if rnd.random() < 0.5:
            al = aliases.pop()
            parts.append('%s as %s' % (nm, al))
            bs.append(Binding('%s.%s' % (base, nm), al, kind, al))
        else:
            parts.append(nm)
            bs.append(Binding('%s.%s' % (base, nm), nm, kind, nm))
    return 'from %s import %s' % (base, ', '.join(parts)), bs


def usage_line(lay, b):
    if b.kind == 'module':
        info = lay.mods[b.real]
        if info['funcs']:
            return '_acc.append(%s.%s())' % (b.usage, info['funcs'][0])
        if info['classes']:
            cn = sorted(info['classes'])[0]
            return '_acc.append(%s.%s().m0())' % (b.usage, cn)
        return '_acc.append(%s.__name__)' % b.usage
    if b.kind == 'class':
        return '_acc.append(%s().m0())' % b.usage
    return '_acc.append(%s())' % b.usage


OWN_DEFS = '''
def own_plain(x=1):
    return x + 1
def own_outer(x=2):
    def own_inner(y):
        def own_inner2(z):
            return z * 2
        return own_inner2(y) + 1
    return own_inner(x)
def own_deco(fn):
    import functools
    @functools.wraps(fn)
    def own_wrapper(*a, **k):
        return fn(*a, **k)
    return own_wrapper
@own_deco
def own_decorated(x=3):
    return x
class _OwnRegistry:
    def own_reg_method(self):
        return 0
    def profile(self, fn):          # last in the class body: a later `def` there would see THIS name
        return fn
own_registry = _OwnRegistry()
@own_registry.profile
def own_dotted_profile(x=4):
    return x
class OwnK:
    def own_m(self):
        return 1
    @staticmethod
    def own_s():
        return 2
    @classmethod
    def own_c(cls):
        return 3
    @property
    def own_p(self):
        return 4
    class OwnNested:
        def own_nm(self):
            return 5
async def own_co():
    return 6
def own_gen():
    yield 1
    yield 2
if True:
    def own_in_if():
        return 7
else:
    def own_in_else():
        return 8
try:
    def own_in_try():
        return 9
finally:
    pass
for _i in range(1):
    def own_in_for():
        return 10
with open(__file__):
    def own_in_with():
        return 11
'''
OWN_CALLS = '''
import asyncio as _asyncio
_acc.append(own_plain())
_acc.append(own_outer())
_acc.append(own_decorated())
_acc.append((own_dotted_profile(), own_registry.own_reg_method()))
_k = OwnK()
_acc.append((_k.own_m(), OwnK.own_s(), OwnK.own_c(), _k.own_p, OwnK.OwnNested().own_nm()))
_acc.append(_asyncio.run(own_co()))
_acc.append(list(own_gen()))
_acc.append((own_in_if(), own_in_try(), own_in_for(), own_in_with()))
'''
# every function of OWN_DEFS whose `def` executes when the script runs
OWN_FUNCS = ['own_plain', 'own_outer', 'own_inner', 'own_inner2', 'own_deco', 'own_wrapper', 'own_decorated',
             'profile', 'own_reg_method', 'own_dotted_profile',
             'own_m', 'own_s', 'own_c', 'own_p', 'own_nm', 'own_co', 'own_gen', 'own_in_if', 'own_in_try',
             'own_in_for', 'own_in_with']


def _local_name(b):
    """the name the import statement binds in the script's namespace"""
    return b.local if b.local is not None else b.real.split('.')[0]


def twin_imports(rnd, lay, aliases):
    """import statements binding objects with the SAME unqualified name from different modules
    (`from a import f0 as x` / `from b import f0 as y`, same-named classes likewise)"""
    out = []
    by_name = {}
    for m in sorted(lay.mods):
        for f in lay.mods[m]['funcs']:
            by_name.setdefault(('function', f), []).append(m)
        for c in lay.mods[m]['classes']:
            by_name.setdefault(('class', c), []).append(m)
    groups = [(k, ms) for k, ms in sorted(by_name.items()) if len(ms) >= 2]
    rnd.shuffle(groups)
    for (kind, nm), ms in groups[:rnd.randint(1, 2)]:
        for m in rnd.sample(ms, min(len(ms), rnd.randint(2, 3))):
            al = aliases.pop()
            out.append(('from %s import %s as %s' % (m, nm, al), [Binding('%s.%s' % (m, nm), al, kind, al)]))
    return out


def gen_script(rnd, lay, with_own, twins=False):
    aliases = ['al%d' % i for i in range(60, -1, -1)]
    lines = ['_acc = []']
    bindings = []     # all Binding objects, in source order
    bound = {}        # local name -> what it is bound to (a local name is never rebound to something else)
    forced = []
    if twins:
        for src, bs in twin_imports(rnd, lay, aliases):
            lines.append(src)
            bindings += bs
            forced += bs
            for b in bs:
                bound[_local_name(b)] = b.real
                lines.append(usage_line(lay, b))
    for _ in range(rnd.randint(1, 5)):
        for _attempt in range(20):
            src, bs = gen_import_stmt(rnd, lay, aliases)
            trial = dict(bound)
            ok = True
            for b in bs:
                ln = _local_name(b)
                tgt = b.real if b.local is not None else b.real.split('.')[0]
                if trial.get(ln, tgt) != tgt:
                    ok = False
                    break
                trial[ln] = tgt
            if ok:
                bound = trial
                break
        else:
            continue
        lines.append(src)
        bindings += bs
        # every binding is used right behind its import statement
        for b in bs:
            lines.append(usage_line(lay, b))
        if rnd.random() < 0.4:
            lines.append('_acc.append(0)')
    text = '\n'.join(lines) + '\n'
    if with_own:
        text += OWN_DEFS + OWN_CALLS
    text += 'print(len(_acc))\n'
    return text, bindings, forced


def spell_selection(rnd, lay, dotted, base_abs, prefix):
    """a spelling of a module/package selection: dotted name or one of several path forms"""
    info = lay.mods[dotted]
    rel = info['path']
    if info.get('ns'):
        return dotted      # a file below a namespace directory has no dotted name of its own as a path
    if info['is_pkg']:
        rel_sel = os.path.dirname(rel)
        forms = ['dotted', 'dotted', 'rel', 'abs', 'init']
    else:
        rel_sel = rel
        forms = ['dotted', 'dotted', 'rel', 'dotrel', 'abs']
    f = rnd.choice(forms)
    if f == 'dotted':
        return dotted
    if f == 'rel':
        return rel_sel
    if f == 'dotrel':
        return './' + rel_sel
    if f == 'init':
        return rel
    return os.path.join(base_abs, rel_sel)


def resolve_rel(p, symlinks):
    """the physical path (relative to the layout root) of a path spelled through the layout's symlinks"""
    p = os.path.normpath(p)
    for _ in range(4):
        for link, target in (symlinks or {}).items():
            link = os.path.normpath(link)
            if p == link:
                p = os.path.normpath(target)
            elif p.startswith(link + os.sep):
                p = os.path.normpath(os.path.join(target, p[len(link) + 1:]))
    return p


def harness_selection(lay, specs, script_rel, base_abs, symlinks=None, module=None):
    """The selection the property demands, computed from the layout alone: dotted names of
    the selected modules plus all their submodules and sub-packages; a path to a file
    (also an __init__.py) selects that file only; other dotted names verbatim; the script
    itself sets `full`.  Also returns the sub-package names that were added by descent
    (the implementation's walk leaves those out: finding C09-subpackage-init-not-selected)."""
    S, full, by_descent = [], False, []
    by_path, init_paths = {}, {}
    for d, info in lay.mods.items():
        if info['is_pkg']:
            by_path[os.path.normpath(os.path.dirname(info['path']))] = d
            init_paths[os.path.normpath(info['path'])] = d
        else:
            by_path[os.path.normpath(info['path'])] = d

    def add(x):
        if x not in S:
            S.append(x)
    explicit = set()
    for spec in specs:
        p = spec
        if os.path.isabs(p):
            p = os.path.relpath(p, base_abs)
        p = resolve_rel(p, symlinks)
        if p == os.path.normpath(script_rel):
            full = True
            continue
        descend = True
        if module is not None and spec == module:
            full = True          # -m X -p X: the executed module itself, by name (the name stays in the selection)
            add(spec)
            explicit.add(spec)
            continue
        if spec in lay.mods:
            d = spec
        elif p in by_path:
            d = by_path[p]
        elif p in init_paths:
            d, descend = init_paths[p], False
        else:
            looks_like_path = '/' in spec or spec.endswith('.py')
            if not looks_like_path:
                add(spec)
                explicit.add(spec)
            continue
        add(d)
        explicit.add(d)
        if lay.mods[d]['is_pkg'] and descend:
            for sub in lay.descendants(d):
                add(sub)
                if lay.mods[sub]['is_pkg']:
                    by_descent.append(sub)
    by_descent = [x for x in by_descent if x not in explicit]
    return S, full, sorted(set(by_descent))


def via_links(rnd, rel, symlinks):
    """one of the spellings of a physical relative path through the layout's directory symlinks"""
    outs = [rel]
    for link, target in (symlinks or {}).items():
        t = os.path.normpath(target)
        if rel.startswith(t + os.sep):
            outs.append(os.path.join(link, rel[len(t) + 1:]))
    return rnd.choice(outs)


def gen_selection(rnd, lay, bindings, script_rel, base_abs, prefix, forced=(), symlinks=None, script_spellings=None):
    """returns (specs: list of str as they reach autoprofile.run, cli: list of argv items)"""
    specs = []
    mods = sorted(lay.mods)
    for b in forced:
        # every same-named member is selected: by its own dotted name or through its module
        modname = b.real.rsplit('.', 1)[0]
        specs.append(b.real if rnd.random() < 0.5 else spell_selection(rnd, lay, modname, base_abs, prefix))
    k = rnd.randint(0 if forced else 1, 3)
    for _ in range(k):
        r = rnd.random()
        if r < 0.45 and bindings:
            # something the script actually imports: the module itself, its parent, or the member
            b = rnd.choice(bindings)
            real = b.real
            choice = rnd.random()
            if b.kind == 'module':
                tgt = real if choice < 0.6 or '.' not in real else real.rsplit('.', 1)[0]
                if tgt not in lay.mods:
                    tgt = real          # the parent is a namespace directory: no module of its own
                specs.append(spell_selection(rnd, lay, tgt, base_abs, prefix))
            else:
                modname = real.rsplit('.', 1)[0]
                if choice < 0.5:
                    specs.append(real)                     # pkg.mod.func / pkg.mod.Class
                else:
                    specs.append(spell_selection(rnd, lay, modname, base_abs, prefix))
        elif r < 0.7:
            specs.append(spell_selection(rnd, lay, rnd.choice(mods), base_abs, prefix))
        elif r < 0.85:
            # look-alikes that name nothing (or something else): prefixes / extensions of real names
            m = rnd.choice(mods)
            cand = rnd.choice([m + 'x', m[:-1] if len(m) > 1 else m + 'q', m + '.nothing', m.split('.')[0] + '_',
                               m.replace('.', '/') + 'x.py'])
            if cand.endswith('.') or '..' in cand or cand.startswith('.'):
                cand = m + 'q'      # only well-formed dotted names (`pkg.` is name<->path resolution, property C18)
            specs.append(cand)
        else:
            specs.append(rnd.choice(script_spellings or [script_rel, './' + script_rel, os.path.join(base_abs, script_rel)]))
    if symlinks:
        # module selections given as paths may go through a symlinked directory as well
        specs = [via_links(rnd, x, symlinks) if (not os.path.isabs(x) and ('/' in x) and not x.startswith('./')
                                                  and os.path.normpath(x) != os.path.normpath(script_rel)) else x
                 for x in specs]
    if not specs:
        specs.append(spell_selection(rnd, lay, rnd.choice(mods), base_abs, prefix))
    # command line spelling: repeated -p, comma-joined, or --prof-mod=
    cli = []
    style = rnd.choice(['repeat', 'comma', 'mixed', 'long'])
    if style == 'repeat':
        for s in specs:
            cli += ['-p', s]
    elif style == 'comma':
        cli += ['-p', ','.join(specs)]
    elif style == 'long':
        cli += ['--prof-mod=' + ','.join(specs)]
    else:
        cli += ['-p', specs[0]]
        if len(specs) > 1:
            cli += ['--prof-mod', ','.join(specs[1:])]
    return specs, cli


def gen_layout_case(rnd, e2e, wrapped=True, imports_prob=0.15, variant=None, dead_links=False):
    """variant: None | 'twins' (same-named members from different modules, all selected)
                     | 'symlink' (the project is also reachable through a directory symlink and the script
                                  through a file symlink; the run path and the -p spelling differ)"""
    symlinks = {}
    if variant in ('symlink', 'selected_link'):
        prefix = 'proj/'
    elif variant == 'module_path_link':
        prefix = 'real_lib/'
    else:
        prefix = rnd.choice(['', '', '', 'app/'])
    lay = gen_layout(rnd, prefix, wrapped)
    script_real = prefix + rnd.choice(['script.py', 'main.py', 'run_it.py'])
    with_own = rnd.random() < 0.6 or variant in ('symlink', 'module_path_link')
    module = pythonpath = None
    text, bindings, forced = gen_script(rnd, lay, with_own, twins=(variant == 'twins'))
    files = dict(lay.files)
    files[script_real] = text
    script_run, spellings = script_real, None
    if variant == 'symlink':
        symlinks = {'link': 'proj', 'proj/alias_run.py': script_real}
        names = [script_real, 'link/' + script_real[len(prefix):], 'proj/alias_run.py', 'link/alias_run.py']
        script_run = rnd.choice(names)
        # the selection names the same file through a different chain of links
        spellings = [n for n in names if n != script_run]
        spellings += ['./' + n for n in spellings[:2]]
    relink = None
    if variant == 'selected_link':
        # one package of the project is a symlink whose target has another name and nesting
        # (proj/engine -> shared/engine_v2): its modules are engine.*, whatever the target is called
        tops = [m for m in sorted(lay.mods) if lay.mods[m]['is_pkg'] and '.' not in m]
        pk = rnd.choice(tops)
        logical, physical = prefix + pk, 'shared/%s_v2' % pk
        for m, info in lay.mods.items():
            if m == pk or m.startswith(pk + '.'):
                newp = physical + info['path'][len(logical):]
                files[newp] = files.pop(info['path'])
                info['path'] = newp
        symlinks[logical] = physical
        relink = (physical, logical, pk)
    if variant == 'module_path_link':
        # `kernprof -l -p X -m X` where X is found through PYTHONPATH=lib and lib -> real_lib
        symlinks = {'lib': 'real_lib'}
        pythonpath = ['lib']
        files.pop(script_real)
        if rnd.random() < 0.5:
            module, script_real = 'run_mod', 'real_lib/run_mod.py'
        else:
            module, script_real = 'runpkg.run_mod', 'real_lib/runpkg/run_mod.py'
            files['real_lib/runpkg/__init__.py'] = ''
        files[script_real] = text
        script_run = script_real
        spellings = [module, module, 'lib/' + script_real[len('real_lib/'):], script_real]
    if dead_links and variant is None and rnd.random() < 0.3:
        # dangling symlinks that look like modules (a dead link, an editor lock file) inside a package
        pk = rnd.choice([m for m in sorted(lay.mods) if lay.mods[m]['is_pkg']])
        d = os.path.dirname(lay.mods[pk]['path'])
        symlinks[d + '/dead_link.py'] = d + '/no_such_target.py'
        if rnd.random() < 0.5:
            symlinks[d + '/.#m.py'] = d + '/user@host.1234'
    case = dict(kind='layout', files=files, script=script_run, script_real=script_real, module=module,
                pythonpath=pythonpath, dead_links=sorted(k for k in symlinks if k.endswith('.py') and 'alias_run' not in k),
                with_own=with_own, symlinks=symlinks, variant=variant,
                bindings=[[b.real, b.local, b.kind] for b in bindings],
                mods={d: dict(path=i['path'], is_pkg=i['is_pkg'], ns=i.get('ns', False), funcs=i['funcs'],
                              classes={c: [list(m) for m in ms] for c, ms in i['classes'].items()})
                      for d, i in lay.mods.items()},
                imports=rnd.random() < imports_prob, e2e=e2e, prefix=prefix)
    case['_lay'] = lay
    case['_bindings'] = bindings
    case['_forced'] = forced
    case['_relink'] = relink
    case['_spellings'] = spellings
    return case


def gen_identical_helpers_case(rnd, e2e=True):
    """k >= 3 modules with byte-identical functions on the same line numbers, all imported and ALL selected
    (no unregistered twin anywhere): each copy must have its own entry in the stats"""
    lay = Layout()
    text, funcs, classes = gen_module_text(rnd, wrapped=False)
    names = rnd.sample(['alpha', 'beta', 'gamma', 'delta', 'eps'], rnd.randint(3, 4))
    pkg = rnd.random() < 0.5
    if pkg:
        lay.add_module('hlp', 'hlp/__init__.py', '', [], {}, is_pkg=True)
    for n in names:
        lay.add_module(('hlp.' if pkg else '') + n, ('hlp/' if pkg else '') + n + '.py', text, list(funcs), dict(classes))
    mods = [m for m in sorted(lay.mods) if not lay.mods[m]['is_pkg']]
    lines, bindings = ['_acc = []'], []
    for k, m in enumerate(mods):
        al = 'h%d' % k
        lines.append(rnd.choice(['import %s as %s' % (m, al), 'from %s import %s as %s' % (m.rsplit('.', 1)[0], m.rsplit('.', 1)[1], al)])
                     if '.' in m else 'import %s as %s' % (m, al))
        b = Binding(m, al, 'module', al)
        bindings.append(b)
        lines.append(usage_line(lay, b))
    lines.append('print(len(_acc))')
    files = dict(lay.files)
    files['script.py'] = '\n'.join(lines) + '\n'
    case = dict(kind='layout', files=files, script='script.py', script_real='script.py', module=None, pythonpath=None,
                dead_links=[], with_own=False, symlinks={}, variant='identical_helpers',
                bindings=[[b.real, b.local, b.kind] for b in bindings],
                mods={d: dict(path=i['path'], is_pkg=i['is_pkg'], ns=False, funcs=i['funcs'],
                              classes={c: [list(x) for x in ms] for c, ms in i['classes'].items()})
                      for d, i in lay.mods.items()},
                imports=False, e2e=e2e, prefix='')
    half = len(mods) // 2 + 1
    specs = mods if not pkg or rnd.random() < 0.6 else ['hlp']
    case['prof_mod'] = list(specs)
    case['cli'] = (['-p', ','.join(specs[:half])] + (['-p', ','.join(specs[half:])] if specs[half:] else [])) if e2e else None
    S = list(specs) + ([m for m in mods] if specs == ['hlp'] else [])
    case['S_h'], case['full_h'], case['S_subpkgs'] = S, False, []
    return case


def finish_layout_case(rnd, case, base_abs):
    """selections need the absolute directory the driver will use"""
    lay, bindings = case.pop('_lay'), case.pop('_bindings')
    forced, spellings = case.pop('_forced', []), case.pop('_spellings', None)
    if spellings and not case.get('module'):
        spellings = spellings + [os.path.join(base_abs, spellings[0])]
    specs, cli = gen_selection(rnd, lay, bindings, case['script_real'], base_abs, case['prefix'], forced=forced,
                               symlinks={k: v for k, v in case['symlinks'].items() if not k.endswith('.py')},
                               script_spellings=spellings)
    relink = case.pop('_relink', None)
    if relink:
        physical, logical, pk = relink
        kids = [m for m in sorted(lay.mods) if m.startswith(pk + '.') and not lay.mods[m]['is_pkg']]
        # the linked package (or one of its modules) is selected, by name or by a path through the link
        extra = rnd.choice([pk, logical, logical + '/'] + [rnd.choice(kids), lay.mods[rnd.choice(kids)]['path']] * bool(kids))
        specs.append(extra)

        def through_link(x):
            ab = os.path.isabs(x)
            r = os.path.relpath(x, base_abs) if ab else os.path.normpath(x)
            if r == physical or r.startswith(physical + '/'):
                r = logical + r[len(physical):]
                return os.path.join(base_abs, r) if ab else r
            return x
        specs = [through_link(x) for x in specs]
        cli = ['-p', ','.join(specs)] if rnd.random() < 0.5 else [a for x in specs for a in ('-p', x)]
    if case.get('module') and not any(x in spellings for x in specs):
        specs.append(rnd.choice(spellings))
        cli = ['-p', ','.join(specs)] if rnd.random() < 0.5 else [a for x in specs for a in ('-p', x)]
    if case.get('variant') == 'symlink' and spellings and not any(
            resolve_rel(os.path.relpath(x, base_abs) if os.path.isabs(x) else x, case['symlinks'])
            == os.path.normpath(case['script_real']) for x in specs):
        specs.append(rnd.choice(spellings))      # the point of the variant: the script IS selected
        cli = ['-p', ','.join(specs)] if rnd.random() < 0.5 else [a for x in specs for a in ('-p', x)]
    case['prof_mod'] = specs
    case['cli'] = (cli + (['--prof-imports'] if case['imports'] else [])) if case['e2e'] else None
    live = {k: v for k, v in case['symlinks'].items() if k not in case.get('dead_links', [])}
    S, full, by_descent = harness_selection(lay, specs, case['script_real'], base_abs, live, module=case.get('module'))
    case['S_h'], case['full_h'], case['S_subpkgs'] = S, full, by_descent
    return case


# ---------------------------------------------------------------------------------------
# random program texts (tree-level tie; never executed)
DECOS = ['@deco', '@profile', '@a.b', '@d(1)', '@staticmethod', '@functools.wraps(f)', '@other',
         # look-alikes of the profiler's own decorator: only a bare `@profile` counts as already profiled
         '@cli.profile', '@line_profiler.profile', '@self.app.profile', '@registry.profile()', '@profile()',
         '@profiler', '@x.profile_it']
IMPORTS = [
    'import os', 'import os.path', 'import os.path as osp', 'import a, b.c as d, e',
    'import pkg.mod_a, pkg.mod_b', 'import pkg.mod_a as ma, pkg.mod_b as mb',
    'from pkg import mod_a', 'from pkg import mod_a, mod_b', 'from pkg import mod_a as x, mod_b as y',
    'from pkg.mod_a import f0, K0 as Q', 'from pkgx import mod_a', 'from pk import m',
    'from os import *', 'from pkg.mod_a import *', 'import os, os', 'import pkg.mod_a\nimport pkg.mod_a as again',
    'from pkg import sub', 'from pkg.sub import mod', 'import foo, foobar, foo_bar', 'from foo import bar',
    'from os.path import (join,\n    basename,\n    splitext)', 'from pkg import (mod_a,\n    mod_b as mb3,\n)',
    'import os.path as osp2, \\\n    json as js2', 'from pkg.sub import (\n    mod as deep_mod\n)\nimport foo.bar as fb2',
    'from pkg import mod_a, mod_b\nimport pkg.sub.mod as later', 'import pkg.mod_a, pkg.mod_b as mb2\nfrom pkg import sub as s2',
    'from pkg import mod_a as m1, mod_b as m2, sub as m3\nimport foo.bar\nfrom pk import m',
    'from foobar import bar', 'import foo.bar, foo.barbaz',
]
REL_IMPORTS = ['from . import sib', 'from .sib import thing as t', 'from .. import up', 'from ..up import x, y',
               'from . import a, b']
FUTURE = ['from __future__ import annotations', 'from __future__ import division, print_function',
          'from __future__ import generator_stop as gs']
SIMPLE = ['pass', 'x = 1', 'x += 1', 'f(x)', 'print(x)', 'return_value = g(1, 2)', 'del x', 'assert x',
          '"a string statement"', 'global gg', 'x = [i for i in range(3)]', 'y = lambda q: q',
          'profile.add_imported_function_or_module(user_written)', 'raise ValueError(1)']


def gen_block(rnd, depth, ind, in_func, in_loop, rel_ok, budget, modscope=False):
    """returns list of source lines for a block of statements at indentation `ind`"""
    out = []
    n = rnd.randint(1, 4 if depth < 3 else 2)
    pad = '    ' * ind
    for _ in range(n):
        if budget[0] <= 0:
            break
        budget[0] -= 1
        r = rnd.random()
        if depth >= 5:
            r = r * 0.25   # only imports / simple statements deep down
        if r < 0.18:
            imp = rnd.choice(IMPORTS + (REL_IMPORTS if rel_ok else []))
            if ('*' in imp) and not modscope:
                imp = 'import os'   # `import *` is only allowed at module level
            for l in imp.split('\n'):
                out.append(pad + l)
        elif r < 0.25:
            out.append(pad + rnd.choice(SIMPLE[:-1] if not in_func else SIMPLE))
        elif r < 0.45:
            for d in rnd.sample(DECOS, rnd.choice([0, 0, 1, 1, 2, 3])):
                out.append(pad + d)
            kw = rnd.choice(['def', 'def', 'async def'])
            name = 'fn%d' % rnd.randint(0, 99)
            out.append(pad + '%s %s(%s):' % (kw, name, rnd.choice(['', 'a', 'a, b=1', '*args, **kw', 'self'])))
            if rnd.random() < 0.3:
                out.append(pad + '    """doc"""')
            out += gen_block(rnd, depth + 1, ind + 1, True, False, rel_ok, budget)
            if rnd.random() < 0.3:
                out.append(pad + '    ' + rnd.choice(['return 1', 'yield 1', 'return (yield)']) if kw == 'def'
                           else pad + '    return 2')
        elif r < 0.55:
            if rnd.random() < 0.3:
                out.append(pad + rnd.choice(['@dataclass', '@deco', '@profile']))
            out.append(pad + 'class C%d%s:' % (rnd.randint(0, 9), rnd.choice(['', '(Base)', '(A, metaclass=M)'])))
            out += gen_block(rnd, depth + 1, ind + 1, False, False, rel_ok, budget)
        elif r < 0.63:
            out.append(pad + 'if cond%d:' % rnd.randint(0, 3))
            out += gen_block(rnd, depth + 1, ind + 1, in_func, in_loop, rel_ok, budget, modscope)
            k = rnd.random()
            if k < 0.3:
                out.append(pad + 'elif other:')
                out += gen_block(rnd, depth + 1, ind + 1, in_func, in_loop, rel_ok, budget, modscope)
            if k < 0.6:
                out.append(pad + 'else:')
                out += gen_block(rnd, depth + 1, ind + 1, in_func, in_loop, rel_ok, budget, modscope)
        elif r < 0.70:
            out.append(pad + rnd.choice(['for i in xs:', 'while cond:', 'for a, b in pairs:']))
            out += gen_block(rnd, depth + 1, ind + 1, in_func, True, rel_ok, budget, modscope)
            if rnd.random() < 0.3:
                out.append(pad + 'else:')
                out += gen_block(rnd, depth + 1, ind + 1, in_func, in_loop, rel_ok, budget, modscope)
        elif r < 0.80:
            out.append(pad + 'try:')
            out += gen_block(rnd, depth + 1, ind + 1, in_func, in_loop, rel_ok, budget, modscope)
            k = rnd.random()
            if k < 0.75:
                for h in rnd.sample(['except ImportError:', 'except (A, B) as e:', 'except Exception:'], rnd.randint(1, 2)):
                    out.append(pad + h)
                    out += gen_block(rnd, depth + 1, ind + 1, in_func, in_loop, rel_ok, budget, modscope)
                if rnd.random() < 0.3:
                    out.append(pad + 'else:')
                    out += gen_block(rnd, depth + 1, ind + 1, in_func, in_loop, rel_ok, budget, modscope)
            if k >= 0.75 or rnd.random() < 0.3:
                out.append(pad + 'finally:')
                out += gen_block(rnd, depth + 1, ind + 1, in_func, in_loop, rel_ok, budget, modscope)
        elif r < 0.86:
            out.append(pad + rnd.choice(['with ctx() as c:', 'with a, b as bb:']))
            out += gen_block(rnd, depth + 1, ind + 1, in_func, in_loop, rel_ok, budget, modscope)
        elif r < 0.90:
            out.append(pad + 'match subject:')
            for c in rnd.sample(['case 1:', 'case [a, b]:', 'case {"k": v} if v:', 'case _:'], rnd.randint(1, 3)):
                out.append(pad + '    ' + c)
                out += gen_block(rnd, depth + 2, ind + 2, in_func, in_loop, rel_ok, budget, modscope)
        else:
            out.append(pad + rnd.choice(SIMPLE[:-1] if not in_func else SIMPLE))
    if not out:
        out.append(pad + 'pass')
    return out


def gen_program_text(rnd, rel_ok=False, max_stmts=40):
    """a syntactically valid module text (checked with compile(); never executed)"""
    while True:
        text = _gen_program_text(rnd, rel_ok, max_stmts)
        try:
            compile(text, '<gen>', 'exec')
            return text
        except SyntaxError:
            continue


def _gen_program_text(rnd, rel_ok, max_stmts):
    lines = []
    if rnd.random() < 0.3:
        lines.append('"""module docstring"""')
    if rnd.random() < 0.35:
        for f in rnd.sample(FUTURE, rnd.randint(1, 3)):
            lines.append(f)
    # blank lines / comments so that line numbers are not simply consecutive
    body = gen_block(rnd, 1, 0, False, False, rel_ok, [rnd.randint(3, max_stmts)], True)
    for l in body:
        if rnd.random() < 0.1:
            lines.append('')
        if rnd.random() < 0.05:
            lines.append('# comment')
        if rnd.random() < 0.06:
            # characters that are line boundaries for str.splitlines() but not for the tokenizer
            lines.append(rnd.choice(ODD_LINES))
        lines.append(l)
    return '\n'.join(lines) + '\n'


# not line breaks for Python's tokenizer (inside comments / as blank-line form feed), but for str.splitlines()
ODD_LINES = ['# form feed \x0c inside a comment', '\x0c', '# vertical tab \x0b and separators \x1c \x1d \x1e here',
             '# NEL \x85 / LS \u2028 / PS \u2029 in a comment', '#\x0c\x0c']

FIXED_LAYOUT = {
    'pkg/__init__.py': 'def init_f():\n    return 0\n',
    'pkg/mod_a.py': 'def f0():\n    return 1\nclass K0:\n    def m0(self):\n        return 2\n',
    'pkg/mod_b.py': 'def f0():\n    return 3\n',
    'pkg/sub/__init__.py': '',
    'pkg/sub/mod.py': 'def f0():\n    return 4\n',
    'pkgx/__init__.py': '',
    'pkgx/mod_a.py': 'def f0():\n    return 5\n',
    'pk/__init__.py': '',
    'pk/m.py': 'def f0():\n    return 6\n',
    'foo/__init__.py': '',
    'foo/bar.py': 'def f0():\n    return 7\n',
    'foo/barbaz.py': 'def f0():\n    return 8\n',
    'foobar/__init__.py': '',
    'foobar/bar.py': 'def f0():\n    return 9\n',
    'foo_bar.py': 'def f0():\n    return 10\n',
}
TREE_SELECTIONS = ['pkg', 'pkg.mod_a', 'pkg.mod_b', 'pkg.mod_a.f0', 'pkg.mod_a.K0', 'pkgx', 'pk', 'pk.m', 'foo', 'foobar',
                   'foo.bar', 'foo_bar', 'os', 'os.path', 'a', 'b', 'b.c', 'e', 'pkg/mod_a.py', 'pkg/sub', 'pkg.sub',
                   'nothing', 'pk.', 'fo', 'foo.ba', '__future__', 'pkg.mod', 'pkg/mod_a.pyx', 'missing/path.py']


def gen_tree_case(rnd, module_mode=False):
    files = dict(FIXED_LAYOUT)
    if module_mode:
        # the program is a module inside a package tree, run with -m
        depth = rnd.randint(1, 3)
        comps = rnd.sample(['top', 'mid', 'low', 'pkgm'], depth)
        d = ''
        for c in comps:
            d = d + c + '/'
            files[d + '__init__.py'] = ''
        stem = rnd.choice(['runme', '__main__', 'worker'])
        rel = d + stem + '.py'
        files[rel] = gen_program_text(rnd, rel_ok=True)
        module = '.'.join(comps) if stem == '__main__' else '.'.join(comps + [stem])
        script = rel
        modname_h = '.'.join(comps + [stem])
    else:
        script = rnd.choice(['script.py', 'sdir/script.py'])
        files[script] = gen_program_text(rnd, rel_ok=rnd.random() < 0.1)
        module = None
        modname_h = None
    specs = rnd.sample(TREE_SELECTIONS, rnd.randint(0, 3))
    r = rnd.random()
    if r < 0.5:
        specs.insert(rnd.randint(0, len(specs)), script)
    elif r < 0.6 and module_mode:
        specs.append(module)
    if not specs:
        specs = ['nothing']
    return dict(kind='tree', files=files, script=script, module=module, prof_mod=specs, modname_h=modname_h,
                imports=rnd.random() < 0.4, cli=None, e2e=False)
