"""C11 - saved statistics round-trip; every output channel tells the same story.

Theorem side: Props/C11.v over Report/Channels.v (hand model of the call
sequences in dump_stats/print_stats/load_stats/main, kernprof's finally block,
GlobalProfiler.show; `render` = show_text and pickle stay abstract).
Tie: every channel is really run on one snapshot (in-process sessions over
generated source files with non-ASCII names, synthetic LineStats up to 1e18,
kernprof / viewer / explicit-profiler subprocesses); each text is tokenised by
this file and compared inside Coq with what the model says the channel shows
(`model_ok`), and the property predicate (`obs_sound`, round trip, cross-channel
consistency) is evaluated on the implementation's own output."""
import json
import re
import time
from decimal import Decimal
from fractions import Fraction

from harness import core

PROP = 'C11'
MODULE = 'Props.C11'
THEOREMS = ['C11_roundtrip', 'C11_roundtrip_any_history', 'C11_redump_after_foreign_write', 'C11_channels_same_snapshot', 'C11_history_snapshot_at_call',
            'C11_history_same_snapshot', 'C11_view_equals_viewer', 'C11_channels_agree',
            'C11_options_select_and_order', 'C11_option_mappings', 'C11_nonvacuous']
LEVEL = 'proof'
DRIVER = 'harness.drivers.c11'

ANSI = re.compile(r'\x1b\[[0-9;]*m')
FNAMES_ASCII = ['mod_a.py', 'b_mod.py', 'zeta.py', 'Alpha.py', 'm0.py']
# legal but unusual: characters that mean something to %-formatting, str.format, globbing, shells
FNAMES_ODD = ['cov_100%_done/m.py', 'a%%b.py', 'pct%s_%d.py', 'br{0}ace{x}.py', 'q[1]*.py', 'sp ace;amp&.py', "quo'te.py"]
FNAMES_UNI = ['módulo_é.py', 'модуль.py', '模块.py',
              'naïve file.py', 'αβγ.py']
FUNCS_ASCII = ['f', 'g', 'helper', 'Zed', '_h', 'f2']
FUNCS_UNI = ['функция', 'café', '函数', 'λ_fn']
UNITS_CLI = ['1e-6', '1e-3', '1', '1e-9', '2.5e-07', '0.001', '1e-06', '0.5', '1e-4']
UNITS_SYN = ['1e-09', '1e-06', '1e-07', '1.0', '0.001', '2.5e-07']


# ----------------------------------------------------------------------------
# channel descriptors, the Python mirror of Channels.opts_of, Coq terms
def mk_opts(unit=None, strip=False, details=True, summarize=False, sort=False, rich=False):
    return dict(unit=unit, strip=bool(strip), details=bool(details), summarize=bool(summarize),
                sort=bool(sort), rich=bool(rich))


def sc_to_opts(sc):
    return mk_opts(None, sc['stripzeros'], sc['details'], sc['summarize'], sc['sort'], sc['rich'])


def py_opts_of(ch):
    t = ch['t']
    if t == 'live':
        return dict(ch['opts'])
    if t == 'kview':
        return mk_opts(ch['u'] or '1e-6', ch['z'], True, False, False, ch['r'])
    if t == 'viewer':
        return mk_opts(ch['u'] or '1e-6', ch['z'], True, ch['m'], ch['t_'], ch['r'])
    if t == 'xstdout':
        return sc_to_opts(ch['sc'])
    if t == 'xtext':
        o = sc_to_opts(ch['sc'])
        o['details'] = True
        o['rich'] = False
        return o
    if t == 'lprun':
        return mk_opts(ch['u'], ch['s'], True, False, False, False)
    raise ValueError(t)


class Interner:
    def __init__(self, strings, units):
        self.rank = {s: i for i, s in enumerate(sorted(set(strings)))}
        self.units = {'1e-06': 0}
        for u in units:
            self.units.setdefault('%g' % float(u), len(self.units))

    def s(self, x):
        return self.rank.get(x, -1)

    def key(self, k):
        return '(%s, %s, %s)' % (core.coq_z(self.s(k[0])), core.coq_z(k[1]), core.coq_z(self.s(k[2])))

    def funit(self, u):
        f = Fraction(float(u))
        return '(FUnit %s %s)' % (core.coq_z(self.units['%g' % float(u)]), coq_q(f))

    def ofunit(self, u):
        return 'None' if u is None else '(Some %s)' % self.funit(u)

    def opts(self, o):
        return '(Opts %s %s %s %s %s %s)' % (self.ofunit(o['unit']), core.coq_bool(o['strip']), core.coq_bool(o['details']),
                                            core.coq_bool(o['summarize']), core.coq_bool(o['sort']), core.coq_bool(o['rich']))

    def chan(self, ch):
        t = ch['t']
        b = core.coq_bool
        if t == 'live':
            return '(ChLive %s)' % self.opts(ch['opts'])
        if t == 'kview':
            return '(ChKernprofView %s %s %s)' % (self.ofunit(ch['u']), b(ch['z']), b(ch['r']))
        if t == 'viewer':
            return '(ChViewer %s %s %s %s %s)' % (self.ofunit(ch['u']), b(ch['z']), b(ch['r']), b(ch['t_']), b(ch['m']))
        if t == 'xstdout':
            return '(ChExplicitStdout %s)' % self.opts(sc_to_opts(ch['sc']))
        if t == 'xtext':
            return '(ChExplicitText %s)' % self.opts(sc_to_opts(ch['sc']))
        if t == 'lprun':
            return '(ChLprun %s %s)' % (self.ofunit(ch['u']), b(ch['s']))
        raise ValueError(t)

    def snapshot(self, sj):
        ents = []
        for k, rows in sj['timings']:
            ents.append('(%s, %s)' % (self.key(k), core.coq_list(
                ['(%s, %s, %s)' % (core.coq_z(r[0]), core.coq_z(r[1]), core.coq_z(r[2])) for r in rows])))
        return '(Snap %s %s)' % (core.coq_list(ents), self.funit(float.fromhex(sj['unit'])))

    def observed(self, ob):
        funcs = []
        for f in ob['funcs']:
            rows = ['(PRow %s %s %s %s %s)' % (core.coq_z(r['line']), core.coq_z(r['hits']), core.coq_bool(r['hits_exact']),
                                              coq_q(r['time']), core.coq_bool(r['time_f1'])) for r in f['rows']]
            funcs.append('(PFunc %s %s %s)' % (self.key(f['key']), coq_q(f['total']), core.coq_list(rows)))
        sums = ['(PSum %s %s)' % (self.key(s['key']), coq_q(s['secs'])) for s in ob['sums']]
        return '(Obs %s %s %s %s)' % (core.coq_z(self.units.get(ob['unit_str'], -1)), coq_q(ob['unitq']),
                                      core.coq_list(funcs), core.coq_list(sums))


def coq_q(fr):
    fr = Fraction(fr)
    return '(%d # %d)%%Q' % (fr.numerator, fr.denominator)


# ----------------------------------------------------------------------------
# tokenising a report
def dec(s):
    return Fraction(Decimal(s))


def normalise(text):
    return '\n'.join(l.rstrip() for l in ANSI.sub('', text).splitlines())


def parse_report(text, keys):
    """-> dict(unit_str, unitq, funcs, sums, errors).  `keys`: the snapshot's keys
    (lists [file, line, name]) - used to resolve the fallback block (file name only)
    and the summary lines."""
    lines = ANSI.sub('', text).splitlines()
    lines = [l.rstrip() for l in lines]
    errors = []
    res = dict(unit_str=None, unitq=Fraction(0), funcs=[], sums=[], errors=errors)
    i = 0
    if not lines or not lines[0].startswith('Timer unit: ') or not lines[0].endswith(' s'):
        errors.append('no Timer unit header')
        return res
    res['unit_str'] = lines[0][len('Timer unit: '):-2]
    try:
        res['unitq'] = dec(res['unit_str'])
    except Exception:
        errors.append('unit not a number')
    by_sum = {'%s:%s - %s' % (k[0], k[1], k[2]): k for k in keys}
    by_file = {}
    for k in keys:
        by_file.setdefault(k[0], []).append(k)
    used_fallback = set()
    i = 1
    n = len(lines)
    while i < n:
        l = lines[i]
        if l.startswith('Total time: ') and l.endswith(' s'):
            tot = dec(l[len('Total time: '):-2])
            key = None
            j = i + 1
            if j < n and lines[j].startswith('File: '):
                fn = lines[j][len('File: '):]
                m = re.match(r'^Function: (.*) at line (\d+)$', lines[j + 1]) if j + 1 < n else None
                if not m:
                    errors.append('no Function line after File line')
                    break
                key = [fn, int(m.group(2)), m.group(1)]
                j += 2
            else:
                while j < n and not lines[j].startswith('Could not find file '):
                    if lines[j] != '':
                        break
                    j += 1
                if j < n and lines[j].startswith('Could not find file '):
                    fn = lines[j][len('Could not find file '):]
                    cands = [k for k in by_file.get(fn, []) if tuple(k) not in used_fallback]
                    if len(cands) >= 1:
                        key = cands[0]
                        used_fallback.add(tuple(key))
                    else:
                        key = [fn, -1, '?']
                    j += 4
                else:
                    errors.append('block without File / Could-not-find line')
                    break
            while j < n and not lines[j].startswith('Line #'):
                j += 1
            if j + 1 >= n or not lines[j + 1].startswith('====='):
                errors.append('no table header')
                break
            h = lines[j]
            e1 = h.find('Line #') + 6
            e2 = h.find('Hits', e1) + 4
            e3 = h.find('Time', e2) + 4
            e4 = h.find('Per Hit', e3) + 7
            e5 = h.find('% Time', e4) + 6
            rows = []
            j += 2
            while j < n and lines[j] != '':
                r = lines[j]
                c_line, c_hits, c_time = r[:e1].strip(), r[e1:e2].strip(), r[e2:e3].strip()
                if c_hits != '' or c_time != '':
                    try:
                        hits_exact = bool(re.fullmatch(r'\d+', c_hits))
                        hv = dec(c_hits)
                        if hv.denominator != 1:
                            raise ValueError('hits not integral')
                        c_per, c_pct = r[e3:e4].strip(), r[e4:e5].strip()
                        rows.append(dict(line=int(c_line), hits=int(hv), hits_exact=hits_exact, time=dec(c_time),
                                         time_f1='e' not in c_time.lower(), perhit=dec(c_per), perhit_f1='e' not in c_per.lower(),
                                         percent=(dec(c_pct) if c_pct != '' else None), cells=[c_hits, c_time, c_per, c_pct]))
                    except Exception as ex:  # noqa
                        errors.append('bad row %r: %s' % (r[:e5], ex))
                j += 1
            res['funcs'].append(dict(key=key, total=tot, rows=rows))
            i = j
            continue
        m = re.match(r'^\s*(\d+\.\d\d) seconds - (.*)$', l)
        if m:
            k = by_sum.get(m.group(2))
            res['sums'].append(dict(key=k if k is not None else ['?' + m.group(2), -1, '?'], secs=dec(m.group(1))))
        elif l != '':
            errors.append('unexpected line %r' % l[:80])
        i += 1
    return res


# ----------------------------------------------------------------------------
# Python-side spec predicate (used by the search and as a second opinion)
SLACK = Fraction(1, 2 ** 50)


def close(c, x, tolabs, tolrel):
    return abs(c - x) <= tolabs + abs(x) * tolrel


def obs_sound_py(sj, ob):
    unit = Fraction(float.fromhex(sj['unit']))
    tim = {tuple(k): rows for k, rows in sj['timings']}
    why = []
    for f in ob['funcs']:
        rows = tim.get(tuple(f['key']))
        if rows is None:
            why.append('function %r not in the snapshot' % (f['key'],))
            continue
        T = sum(r[2] for r in rows)
        if not close(f['total'], T * unit, 0, Fraction(1, 200000) + SLACK):
            why.append('Total time of %r: %s vs %s' % (f['key'], f['total'], T * unit))
        byline = {r[0]: r for r in rows}
        if len(f['rows']) != len(rows):
            why.append('%r: %d rows shown, %d in the snapshot' % (f['key'], len(f['rows']), len(rows)))
        for p in f['rows']:
            r = byline.get(p['line'])
            if r is None:
                why.append('%r line %d not in the snapshot' % (f['key'], p['line']))
                continue
            if p['hits_exact']:
                okh = p['hits'] == r[1]
            else:
                okh = r[1] >= 10 ** 9 and abs(p['hits'] - r[1]) * 200000 <= r[1]
            if not okh:
                why.append('%r line %d hits %s vs %s' % (f['key'], p['line'], p['hits'], r[1]))
            x = r[2] * unit / ob['unitq'] if ob['unitq'] else Fraction(0)
            okt = close(p['time'], x, Fraction(1, 20), SLACK) if p['time_f1'] else close(p['time'], x, 0, Fraction(1, 200) + SLACK)
            if not okt:
                why.append('%r line %d time cell %s vs %s' % (f['key'], p['line'], p['time'], float(x)))
            # Per Hit = time * (unit / output_unit) / hits, % Time = 100 * time / total: every column tells the snapshot's story
            if r[1] > 0 and 'perhit' in p:
                y = x / r[1]
                okp = close(p['perhit'], y, Fraction(1, 20), 2 * SLACK) if p['perhit_f1'] else close(p['perhit'], y, 0, Fraction(1, 200) + 2 * SLACK)
                if not okp:
                    why.append('%r line %d Per Hit cell %s vs time*unit/output_unit/hits = %s' % (f['key'], p['line'], float(p['perhit']), float(y)))
            if 'percent' in p:
                if T == 0:
                    if p['percent'] is not None:
                        why.append('%r line %d %% Time cell present although the total is 0' % (f['key'], p['line']))
                elif p['percent'] is None or not close(p['percent'], Fraction(100 * r[2], T), Fraction(1, 20), 2 * SLACK):
                    why.append('%r line %d %% Time cell %s vs %s' % (f['key'], p['line'], p['percent'], float(Fraction(100 * r[2], T))))
    for s in ob['sums']:
        rows = tim.get(tuple(s['key']))
        if rows is None:
            why.append('summary of unknown function %r' % (s['key'],))
            continue
        T = sum(r[2] for r in rows)
        if not close(s['secs'], T * unit, Fraction(1, 200), SLACK):
            why.append('summary seconds of %r: %s vs %s' % (s['key'], s['secs'], float(T * unit)))
    return why


def py_spec(c, o):
    """-> list of reasons the property fails on this case's implementation output."""
    why = []
    if 'error' in o:
        return ['driver error: ' + o['error'][-300:]]
    if 'history' in o:
        return py_spec_history(c, o)
    if 'failed' in o:
        return ['subprocess failed rc=%s: %s %s' % (o.get('rc'), o.get('failed', '')[-200:], o.get('stderr', '')[-300:])]
    sj = o['snapshot']
    if o['snapshot_after'] != sj:
        why.append('harness: the snapshot changed while the channels ran')
    for k, l in enumerate(o['loaded']):
        if l != sj:
            why.append('loaded statistics #%d differ from the live snapshot' % k)
    keys = [k for k, _ in sj['timings']]
    for ch in o['channels']:
        same = (ch['text'] == ch['ref']) if not py_opts_of(ch['chan'])['rich'] else (normalise(ch['text']) == normalise(ch['ref']))
        if not same:
            why.append('channel %s: text differs from show_text(snapshot, %s)' % (json.dumps(ch['chan']), json.dumps(py_opts_of(ch['chan']))))
        ob = ch.get('obs') or parse_report(ch['text'], keys)
        if ob['errors']:
            why.append('channel %s: unparsable: %s' % (json.dumps(ch['chan']), ob['errors'][:2]))
        why += ['channel %s: %s' % (json.dumps(ch['chan']), w) for w in obs_sound_py(sj, ob)[:3]]
    for e, r in zip(c.get('explicit', []), o.get('explicit', [])):
        if r is None:
            continue
        wc = e['wc']
        if r['txt_exists'] != wc['text'] or r['ts_count'] != (1 if wc['timestamped_text'] else 0) or r['lprof_exists'] != wc['lprof']:
            why.append('explicit profiler wrote files %r for write_config %r%s' % (r, wc, ' under LC_ALL=C PYTHONUTF8=0' if c.get('ascii_locale') else ''))
        elif r.get('atexit_stderr'):
            why.append('explicit profiler: error on stderr while writing its outputs: %s' % r['atexit_stderr'][-200:])
        if r.get('raised'):
            why.append('GlobalProfiler.show raised %s' % r['raised'])
        if not wc['stdout'] and not r.get('stdout_silent', True):
            why.append('explicit profiler printed a report although write_config[stdout] is off')
    if c['kind'] == 'kernprof':
        if not o.get('wrote_line', '').startswith('Wrote profile results to '):
            why.append('kernprof did not announce the file')
        kv = [ch for ch in o['channels'] if ch['chan']['t'] == 'kview']
        for a in kv:
            for b in o['channels']:
                cb = b['chan']
                if cb['t'] == 'viewer' and not cb['t_'] and not cb['m'] and (cb['u'], cb['z'], cb['r']) == (a['chan']['u'], a['chan']['z'], a['chan']['r']):
                    if normalise(a['text']).rstrip('\n') != normalise(b['text']).rstrip('\n'):
                        why.append('kernprof -v output differs from python -m line_profiler with the same -u/-z/-r')
    return why


# ----------------------------------------------------------------------------
# case generation
def rand_opts(rnd, allow_rich=True):
    return mk_opts(unit=rnd.choice([None, None] + UNITS_CLI), strip=rnd.random() < 0.4, details=rnd.random() < 0.8,
                   summarize=rnd.random() < 0.4, sort=rnd.random() < 0.4, rich=allow_rich and rnd.random() < 0.12)


def rand_sc(rnd, default=False):
    if default:
        return dict(sort=1, stripzeros=1, rich=1, details=0, summarize=1)
    return dict(sort=rnd.randint(0, 1), stripzeros=rnd.randint(0, 1), rich=int(rnd.random() < 0.15),
                details=rnd.randint(0, 1), summarize=rnd.randint(0, 1))


def wc_of(bits):
    return dict(lprof=bool(bits & 1), text=bool(bits & 2), timestamped_text=bool(bits & 4), stdout=bool(bits & 8))


def mk_live(opts):
    ch = dict(t='live', opts=opts)
    return dict(opts=opts, chan=ch, ref_opts=py_opts_of(ch))


def mk_viewer(rnd, sub=False, fixed=None):
    a = fixed or dict(u=rnd.choice([None, None] + UNITS_CLI), z=rnd.random() < 0.4, r=rnd.random() < 0.12,
                      t=rnd.random() < 0.4, m=rnd.random() < 0.4)
    ch = dict(t='viewer', u=a['u'], z=bool(a['z']), r=bool(a['r']), t_=bool(a['t']), m=bool(a['m']))
    return dict(a, sub=sub, chan=ch, ref_opts=py_opts_of(ch))


def mk_explicit(bits, sc, prefix='out'):
    c1, c2 = dict(t='xstdout', sc=sc), dict(t='xtext', sc=sc)
    return dict(wc=wc_of(bits), sc=sc, prefix=prefix, chan_stdout=c1, chan_text=c2,
                ref_stdout=py_opts_of(c1), ref_text=py_opts_of(c2))


def rand_files(rnd, nfiles, unicode_p, odd_p=0.25):
    files = []
    fn_pool = rnd.sample(FNAMES_ASCII, len(FNAMES_ASCII))
    un_pool = rnd.sample(FNAMES_UNI, len(FNAMES_UNI))
    odd_pool = rnd.sample(FNAMES_ODD, len(FNAMES_ODD))
    k = 0
    for i in range(nfiles):
        x = rnd.random()
        fname = odd_pool.pop() if x < odd_p else (un_pool.pop() if x < odd_p + unicode_p else fn_pool.pop())
        names = rnd.sample(FUNCS_ASCII, len(FUNCS_ASCII))
        unames = rnd.sample(FUNCS_UNI, len(FUNCS_UNI))
        funcs = []
        for j in range(rnd.randint(1, 3)):
            k += 1
            nm = unames.pop() if rnd.random() < unicode_p / 2 else names.pop()
            funcs.append(dict(name=nm, k=k, extra=rnd.choice([None, None, 'café ☃ comment', 'x' * 90]),
                              profiled=rnd.random() < 0.85))
        files.append(dict(fname=fname, funcs=funcs))
    return files


def gen_cases(tier, rnd):
    thorough = tier == 'thorough'
    cases = []
    n_live = 10 if not thorough else 200
    big = [10 ** 5] if not thorough else [10 ** 6, 10 ** 6, 3 * 10 ** 5]
    for i in range(n_live):
        files = rand_files(rnd, rnd.randint(1, 3), 0.5)
        if not any(fn['profiled'] for f in files for fn in f['funcs']):
            files[0]['funcs'][0]['profiled'] = True
        calls = []
        allf = [(k, fn['name']) for k, f in enumerate(files) for fn in f['funcs']]
        for (k, nm) in allf:
            if rnd.random() < 0.75:
                for _ in range(rnd.randint(1, 3)):
                    calls.append((k, nm, rnd.choice([0, 1, 2, 3, 10, 100, 1000])))
        if i < len(big):
            calls.append((allf[0][0], allf[0][1], big[i]))
            files[0]['funcs'][0]['profiled'] = True
        rnd.shuffle(calls)
        live = [mk_live(mk_opts())] + [mk_live(rand_opts(rnd)) for _ in range(3)]
        viewer = [mk_viewer(rnd, sub=(i % 4 == 0 and j == 0)) for j in range(4)]
        viewer.append(mk_viewer(rnd, fixed=dict(u=None, z=False, r=False, t=False, m=False)))
        if i in (1, 2) or (thorough and i % 10 == 0):
            sc = rand_sc(rnd, default=(i == 1))
            expl = [mk_explicit(b, sc, prefix='p%d' % b) for b in range(16)]
        else:
            expl = [mk_explicit(rnd.randint(0, 15), rand_sc(rnd, default=rnd.random() < 0.3), prefix='q%d' % j) for j in range(2)]
        cases.append(dict(kind='live', files=files, calls=calls, live=live, viewer=viewer, explicit=expl,
                          lprof_name=rnd.choice(['out.lprof', 'résultat ☃.lprof'])))
    # synthetic LineStats
    n_syn = 24 if not thorough else 1500
    mags = [0, 1, 2, 999, 999999999, 10 ** 9, 10 ** 9 + 1, 123456789012, 2 ** 53, 2 ** 53 + 1, 10 ** 15, 10 ** 18,
            999999999999999999]
    for i in range(n_syn):
        files = rand_files(rnd, rnd.randint(1, 2), 0.5)
        timings = []
        for f in files:
            for fn in f['funcs']:
                body = 4 + (1 if fn.get('extra') else 0)
                offs = sorted(rnd.sample(range(1, body + 1), rnd.randint(0, body)))
                rows = []
                for off in offs:
                    h = max(1, rnd.choice(mags + [rnd.randint(1, 10 ** rnd.randint(1, 18))]))
                    t = rnd.choice(mags + [rnd.randint(0, 10 ** rnd.randint(1, 18))])
                    if rnd.random() < 0.1:
                        t = 0
                    rows.append((off, h, t))
                timings.append(dict(fname=f['fname'], func=fn['name'], rows=rows))
        # functions in files that do not exist (fallback block shows the file name only)
        for j in range(rnd.randint(0, 2)):
            nrows = rnd.randint(0, 3)
            offs = sorted(rnd.sample(range(0, 6), nrows))
            timings.append(dict(fname='gone_%d_%s' % (j, rnd.choice(['x.py', 'üñî.py', '100%.py', 'a%%b%s.py'])),
                                func=rnd.choice(FUNCS_ASCII + FUNCS_UNI + ['<lambda>', 'fn%s', '100%d%%']),
                                start=rnd.randint(1, 50),
                                rows=[(off, max(1, rnd.choice(mags)), rnd.choice(mags)) for off in offs]))
        rnd.shuffle(timings)
        live = [mk_live(mk_opts())] + [mk_live(rand_opts(rnd)) for _ in range(2)]
        viewer = [mk_viewer(rnd, sub=(i % 8 == 0 and j == 0)) for j in range(3)]
        expl = [mk_explicit(rnd.randint(0, 15), rand_sc(rnd, default=rnd.random() < 0.3), prefix='s%d' % j) for j in range(2)]
        cases.append(dict(kind='synthetic', files=files, timings=timings, unit=rnd.choice(UNITS_SYN), live=live, viewer=viewer,
                          explicit=expl, lprof_name=rnd.choice(['out.lprof', '結果.lprof'])))
    # kernprof subprocess sessions
    n_kp = 4 if not thorough else 60
    for i in range(n_kp):
        files = rand_files(rnd, 1, 0.5)
        for fn in files[0]['funcs']:
            fn['profiled'] = True
        calls = []
        for fn in files[0]['funcs']:
            if rnd.random() < 0.7 or fn is files[0]['funcs'][0]:
                calls.append((0, fn['name'], rnd.choice([0, 1, 5, 100, 2000])))
        k = dict(view=(i % 4 != 3), u=rnd.choice([None, None] + UNITS_CLI), z=rnd.random() < 0.5, r=(i % 4 == 2))
        ch = dict(t='kview', u=k['u'], z=bool(k['z']), r=bool(k['r']))
        k.update(chan=ch, ref_opts=py_opts_of(ch))
        viewer = [mk_viewer(rnd, sub=True, fixed=dict(u=k['u'], z=k['z'], r=k['r'], t=False, m=False)),
                  mk_viewer(rnd, sub=True), mk_viewer(rnd, sub=True, fixed=dict(u=None, z=False, r=False, t=True, m=True))]
        cases.append(dict(kind='kernprof', files=files, calls=calls, kernprof=k, viewer=viewer,
                          live=[mk_live(mk_opts()), mk_live(rand_opts(rnd, allow_rich=False))],
                          lprof_name=rnd.choice(['res.lprof', 'rés ☃.lprof'])))
    # explicit profiler through atexit
    n_ex = 3 if not thorough else 48
    for i in range(n_ex):
        files = rand_files(rnd, 1, 0.5)
        calls = [(0, fn['name'], rnd.choice([0, 1, 7, 300])) for fn in files[0]['funcs'] if rnd.random() < 0.8]
        bits = [15, 10, 5][i] if i < 3 else (i % 16)
        e = mk_explicit(bits, rand_sc(rnd, default=(i % 2 == 0)), prefix='x%d' % i)
        cases.append(dict(kind='explicit', files=files, calls=calls, explicit=[e],
                          viewer=[mk_viewer(rnd, sub=True, fixed=dict(u=None, z=True, r=False, t=True, m=True))]))
    # the same under a non-UTF-8 preferred encoding: ASCII file name (argv must survive the C locale), non-ASCII
    # function names and source text in the report; every write_config subset that writes a text file comes up
    n_loc = 3 if not thorough else 24
    loc_bits = [15, 6, 3, 7, 10, 11, 14, 2, 4, 5, 12, 13]
    for i in range(n_loc):
        names = rnd.sample(FUNCS_UNI, 2)
        files = [dict(fname=rnd.choice(FNAMES_ASCII), funcs=[
            dict(name=names[0], k=1, extra='caf\u00e9 \u2603 comment', profiled=True),
            dict(name=rnd.choice([names[1]] + FUNCS_ASCII), k=2, extra=rnd.choice([None, '\u03b1\u03b2\u03b3']), profiled=True)])]
        calls = [(0, files[0]['funcs'][0]['name'], rnd.choice([1, 7, 300]))]
        if rnd.random() < 0.6:
            calls.append((0, files[0]['funcs'][1]['name'], rnd.choice([0, 2, 50])))
        sc = rand_sc(rnd, default=(i % 2 == 0))
        sc['rich'] = 0
        e = mk_explicit(loc_bits[i % len(loc_bits)], sc, prefix='loc%d' % i)
        cases.append(dict(kind='explicit', ascii_locale=True, files=files, calls=calls, explicit=[e],
                          viewer=[mk_viewer(rnd, sub=True, fixed=dict(u=None, z=True, r=False, t=True, m=True))]))
    # the empty session: profiling requested, nothing registered - every channel still has to work
    allwc = [mk_explicit(b, rand_sc(rnd, default=(b % 2 == 0)), prefix='e%d' % b) for b in (15, 8, 6, 1, 0)]
    cases.append(dict(kind='live', files=[dict(fname='idle.py', funcs=[dict(name='f', k=1, profiled=False)])], calls=[(0, 'f', 2)],
                      live=[mk_live(mk_opts()), mk_live(mk_opts(summarize=True, sort=True, strip=True)), mk_live(mk_opts(details=False, summarize=True))],
                      viewer=[mk_viewer(rnd, fixed=dict(u=None, z=False, r=False, t=False, m=False)),
                              mk_viewer(rnd, sub=True, fixed=dict(u='1e-3', z=True, r=False, t=True, m=True))],
                      explicit=allwc, lprof_name='empty.lprof'))
    cases.append(dict(kind='synthetic', files=[], timings=[], unit='1e-09', live=[mk_live(mk_opts(summarize=True))],
                      viewer=[mk_viewer(rnd, fixed=dict(u=None, z=True, r=False, t=True, m=True))],
                      explicit=[mk_explicit(15, rand_sc(rnd, default=True), prefix='se')], lprof_name='empty.lprof'))
    kch = dict(t='kview', u=None, z=False, r=False)
    cases.append(dict(kind='kernprof', decorate=False, files=[dict(fname='idle_script.py', funcs=[dict(name='f', k=1)])], calls=[(0, 'f', 3)],
                      kernprof=dict(view=True, u=None, z=False, r=False, chan=kch, ref_opts=py_opts_of(kch)),
                      viewer=[mk_viewer(rnd, sub=True, fixed=dict(u=None, z=False, r=False, t=True, m=True))],
                      live=[mk_live(mk_opts(summarize=True))], lprof_name='res.lprof'))
    cases.append(dict(kind='explicit', decorate=False, files=[dict(fname='idle_explicit.py', funcs=[dict(name='f', k=1)])], calls=[(0, 'f', 3)],
                      explicit=[mk_explicit(15, rand_sc(rnd, default=True), prefix='xe')],
                      viewer=[mk_viewer(rnd, sub=True, fixed=dict(u=None, z=True, r=False, t=True, m=True))]))
    # histories of dumps: two profiler objects, two paths, foreign writers, deletions
    n_hist = 10 if not thorough else 300
    for i in range(n_hist):
        files = rand_files(rnd, 2, 0.3, odd_p=0.2)
        for f in files:
            for fn in f['funcs']:
                fn['profiled'] = True
        regs = [[(0, fn['name']) for fn in files[0]['funcs']], [(1, fn['name']) for fn in files[1]['funcs']]]
        if rnd.random() < 0.3:          # both profilers watch the same functions
            regs[1] = list(regs[0])

        def run_step(p):
            return ['run', p, [(k, nm, rnd.choice([0, 1, 2, 5])) for (k, nm) in regs[p] if rnd.random() < 0.8] or
                    [(regs[p][0][0], regs[p][0][1], 1)]]

        def foreign(fi, op='foreign'):
            ents = [dict(fname='elsewhere_%d.py' % j, start=rnd.randint(1, 30), func=rnd.choice(FUNCS_ASCII),
                         rows=[(40 + r, rnd.randint(1, 50), rnd.randint(0, 10 ** 6)) for r in range(rnd.randint(0, 3))])
                    for j in range(rnd.randint(0, 2))]
            return [op, fi, ents, rnd.choice(UNITS_SYN)]
        core = [
            [run_step(0), run_step(1), ['dump', 0, 0], ['dump', 1, 0], ['dump', 0, 0], ['load', 0]],
            [run_step(0), ['dump', 0, 0], foreign(0), ['dump', 0, 0], ['load', 0]],
            [run_step(0), ['dump', 0, 1], foreign(1, 'replace'), ['dump', 0, 1], ['delete', 1], ['dump', 0, 1]],
            [run_step(1), ['dump', 1, 0], ['dump', 1, 0], run_step(1), ['dump', 1, 0], ['dump', 0, 0], ['dump', 1, 0]],
        ]
        if i < len(core):
            steps = core[i]
        else:
            steps = [run_step(0), run_step(1)]
            for _ in range(rnd.randint(4, 10)):
                x = rnd.random()
                fi = rnd.randint(0, 1)
                if x < 0.5:
                    steps.append(['dump', rnd.randint(0, 1), fi])
                elif x < 0.62:
                    steps.append(run_step(rnd.randint(0, 1)))
                elif x < 0.78:
                    steps.append(foreign(fi, rnd.choice(['foreign', 'replace'])))
                elif x < 0.86:
                    steps.append(['delete', fi])
                else:
                    steps.append(['load', fi])
        cases.append(dict(kind='history', files=files, profilers=regs, steps=steps,
                          paths=[rnd.choice(['shared.lprof', 'out%d.lprof', 'sub dir.lprof']), 'other_\u00e9.lprof']))
    return cases


# ----------------------------------------------------------------------------
def history_snaps(o):
    res = []
    for st in o['history']:
        for k in ('live', 'live_after', 'loaded', 'snap'):
            if st.get(k) is not None:
                res.append(st[k])
    return res


def coq_history(o):
    snaps = history_snaps(o)
    it = Interner([x for sj in snaps for k, _ in sj['timings'] for x in (k[0], k[2])],
                  [float.fromhex(sj['unit']) or 1.0 for sj in snaps])

    def osnap(sj):
        return 'None' if sj is None else '(Some %s)' % snap(sj)

    def snap(sj):
        if float.fromhex(sj['unit']) == 0:          # unloadable file: a snapshot equal to nothing real
            return '(Snap [] (FUnit (-7)%Z (0 # 1)%Q))'
        return it.snapshot(sj)
    items = []
    for st in o['history']:
        if st['op'] == 'dump':
            items.append('(HDump %s %s %s)' % (core.coq_z(st['file']), snap(st['live']), osnap(st['loaded'])))
        elif st['op'] == 'foreign':
            items.append('(HForeign %s %s)' % (core.coq_z(st['file']), snap(st['snap'])))
        elif st['op'] == 'delete':
            items.append('(HDelete %s)' % core.coq_z(st['file']))
        elif st['op'] == 'load':
            items.append('(HLoad %s %s)' % (core.coq_z(st['file']), osnap(st['loaded'])))
    return '(hist_ok %s)' % core.coq_list(items)


def py_spec_history(c, o):
    why = []
    for i, st in enumerate(o['history']):
        if st['op'] != 'dump':
            continue
        if st['err']:
            why.append('step %d: dump_stats raised %s' % (i, st['err']))
        if st['live'] != st['live_after']:
            why.append('harness: snapshot moved during dump_stats (step %d)' % i)
        if st['loaded'] != st['live']:
            why.append('step %d: profiler %d dumped to path %d, but the file loads to %s statistics than its live get_stats() '
                       '(history: %s)' % (i, st['prof'], st['file'], 'no' if st['loaded'] is None else 'other',
                                         ' '.join('%s%s' % (x[0], x[1] if x[0] != 'run' else '') for x in c['steps'][:i + 1])))
    return why


def case_strings(o):
    ss = []
    for sj in [o['snapshot']] + o['loaded']:
        for k, _ in sj['timings']:
            ss += [k[0], k[2]]
    for ch in o['channels']:
        for f in ch['obs']['funcs']:
            ss += [f['key'][0], f['key'][2]]
        for s in ch['obs']['sums']:
            ss += [s['key'][0], s['key'][2]]
    return ss


def case_units(o):
    us = [float.fromhex(o['snapshot']['unit'])] + [float.fromhex(l['unit']) for l in o['loaded']]
    for ch in o['channels']:
        u = py_opts_of(ch['chan'])['unit']
        if u is not None:
            us.append(float(u))
        c = ch['chan']
        if c.get('u') is not None:
            us.append(float(c['u']))
    return us


def coq_case(o):
    it = Interner(case_strings(o), case_units(o))
    obs = ['(%s, %s)' % (it.chan(ch['chan']), it.observed(ch['obs'])) for ch in o['channels']]
    return '(case_ok %s %s %s)' % (it.snapshot(o['snapshot']), core.coq_list([it.snapshot(l) for l in o['loaded']]),
                                   core.coq_list(obs))


def attach_obs(o):
    if 'snapshot' not in o:
        return
    keys = [k for k, _ in o['snapshot']['timings']]
    for ch in o['channels']:
        ch['obs'] = parse_report(ch['text'], keys)


def slim(o):
    """an output without the bulky texts, for evidence / replay files"""
    if 'history' in o:
        return dict(history=[dict(op=st['op'], file=st.get('file'), prof=st.get('prof'),
                                  loaded_equals_live=(st['loaded'] == st['live']) if st['op'] == 'dump' else None,
                                  loaded_is_none=(st.get('loaded') is None) if st['op'] in ('dump', 'load') else None)
                             for st in o['history']])
    if 'channels' not in o:
        return o
    return dict(snapshot=o['snapshot'], loaded_equal=[l == o['snapshot'] for l in o['loaded']],
                channels=[dict(chan=ch['chan'], text_equals_ref=ch['text'] == ch['ref'],
                               funcs=[(f['key'], [r['cells'] for r in f['rows']]) for f in ch['obs']['funcs']][:3],
                               sums=[(s['key'], str(s['secs'])) for s in ch['obs']['sums']][:3]) for ch in o['channels'][:6]],
                explicit=o.get('explicit'))


def count_redumps(c):
    """dumps by a profiler to a path it dumped to before, with another writer in between and nothing new recorded"""
    n = 0
    last = {}       # path -> (last writer, set of profilers that recorded nothing since their own last dump there)
    clean = {}      # (prof, path) -> True if prof dumped there and has not run since
    for st in c['steps']:
        if st[0] == 'run':
            for k in list(clean):
                if k[0] == st[1]:
                    clean[k] = False
        elif st[0] == 'dump':
            k = (st[1], st[2])
            if clean.get(k) and last.get(st[2]) not in (None, st[1]):
                n += 1
            clean[k] = True
            last[st[2]] = st[1]
        elif st[0] in ('foreign', 'replace'):
            last[st[1]] = 'foreign'
    return n


def nontrivial(o):
    if 'history' in o:
        return sum(1 for st in o['history'] if st['op'] == 'dump') >= 2
    if 'snapshot' not in o:
        return False
    return any(rows for _, rows in o['snapshot']['timings']) and len(o['channels']) >= 2


def run(tier, seed):
    rnd = core.rng(seed, PROP)
    res = core.Result(PROP)
    res.obl = core.check_obligations(PROP, MODULE, THEOREMS, extra_vo=['theories/Report/ChannelsCheck.vo'])
    impl = core.build_impl()
    tmp = core.SCRATCH_ROOT / 'tmp'
    tmp.mkdir(parents=True, exist_ok=True)
    cases = gen_cases(tier, rnd)
    outs = run_cases(impl, cases, tmp)

    def search(budget):
        c2 = gen_cases('quick', core.rng(seed + 1, PROP)) + gen_cases('quick', core.rng(seed + 2, PROP))
        o2 = run_cases(impl, c2, tmp)
        for c, o in zip(c2, o2):
            attach_obs(o)
            why = py_spec(c, o)
            if why:
                return dict(case=c, impl=slim(o), why='; '.join(why[:4]) + ' (search)', finding=None)
        return None
    res.search = search

    model_ok = not any('build of' in f for f in res.obl['failures'])
    for o in outs:
        attach_obs(o)
    usable = [i for i, o in enumerate(outs) if 'snapshot' in o or 'history' in o]
    n_obs = 0
    hist = {}
    for i in usable:
        for ch in outs[i].get('channels', []):
            n_obs += 1
            hist[ch['chan']['t']] = hist.get(ch['chan']['t'], 0) + 1
    flagged = set()
    if model_ok:
        bodies, index = [], []
        cur, cur_idx, size = [], [], 0
        for i in usable:
            row = coq_history(outs[i]) if 'history' in outs[i] else coq_case(outs[i])
            if cur and (size + len(row) > 150000 or len(cur) >= 60):
                bodies.append(cur)
                index.append(cur_idx)
                cur, cur_idx, size = [], [], 0
            cur.append(row)
            cur_idx.append(i)
            size += len(row)
        if cur:
            bodies.append(cur)
            index.append(cur_idx)
        texts = []
        for rows in bodies:
            b = 'Definition rows : list (bool * bool) := [\n' + ';\n'.join(rows) + '].\n'
            b += 'Eval vm_compute in (false_indices (map fst rows)).\nEval vm_compute in (false_indices (map snd rows)).\n'
            texts.append(b)
        shards = core.run_shards('c11', 'From Coq Require Import QArith.\nFrom LP Require Import Prelude.Py Report.Channels Report.ChannelsCheck.', texts)
        for k, sres in enumerate(shards):
            if sres[0] != 'ok' or len(sres[1]) != 2:
                res.infra_errors.append('shard %d failed: %s' % (k, str(sres[1])[-600:]))
                continue
            mism, sfail = sres[1]
            for j in mism:
                i = index[k][j]
                res.mismatches.append(dict(case=cases[i], impl=slim(outs[i]),
                                           model='data_of snapshot (opts_of channel) differs from the tokenised text of some channel'))
            for j in sfail:
                i = index[k][j]
                flagged.add(i)
                why = py_spec(cases[i], outs[i])
                res.spec_fails.append(dict(case=cases[i], impl=slim(outs[i]),
                                           why='Coq-side spec (round trip at every dump / numbers belong to the snapshot / channels consistent) fails; python view: ' + '; '.join(why[:3]),
                                           finding=None))
    for i, (c, o) in enumerate(zip(cases, outs)):
        why = py_spec(c, o)
        if why and i not in flagged:
            if 'error' in o:
                res.infra_errors.append('case %d (%s): %s' % (i, c['kind'], o['error'][-400:]))
            else:
                res.spec_fails.append(dict(case=c, impl=slim(o), why='; '.join(why[:4]), finding=None))
    kinds = {}
    for c in cases:
        kinds[c['kind']] = kinds.get(c['kind'], 0) + 1
    wc_seen = sorted({tuple(sorted(e['wc'].items())) for c in cases for e in c.get('explicit', [])})
    maxhits = max([r[1] for o in outs if 'snapshot' in o for _, rows in o['snapshot']['timings'] for r in rows] or [0])
    maxtime = max([r[2] for o in outs if 'snapshot' in o for _, rows in o['snapshot']['timings'] for r in rows] or [0])
    nonascii = sum(1 for o in outs if 'snapshot' in o and any(any(ord(ch) > 127 for ch in k[0] + k[2]) for k, _ in o['snapshot']['timings']))
    samples = []
    for kind in ('live', 'synthetic', 'kernprof', 'explicit'):
        for c, o in zip(cases, outs):
            if c['kind'] == kind and 'snapshot' in o:
                s = slim(o)
                s['channels'] = s['channels'][:2]
                samples.append(dict(kind=kind, impl=s))
                break
    for c, o in zip(cases, outs):
        if c['kind'] == 'history' and 'history' in o:
            samples.append(dict(kind='history', steps=[[x[0]] + [y for y in x[1:] if isinstance(y, int)] for x in c['steps']], impl=slim(o)))
            break
    res.coverage = dict(
        evaluations=len(cases), channel_observations=n_obs,
        distinct_nontrivial=len({json.dumps(o.get('snapshot') or o.get('history'), sort_keys=True) for o in outs if nontrivial(o)}),
        rule='a case = one snapshot pushed through all its channels; non-trivial = the snapshot has at least one line with data and '
             'at least two channels rendered it; distinct by snapshot content',
        case_kinds=kinds, channel_kinds=hist, write_config_subsets_seen=len(wc_seen),
        exhaustive='all 16 write_config subsets in at least two sessions per run',
        max_hits=maxhits, max_time=maxtime, cases_with_non_ascii_names=nonascii,
        empty_statistics_sessions=sum(1 for o in outs if 'snapshot' in o and not o['snapshot']['timings']),
        explicit_sessions_under_ascii_locale=sum(1 for c in cases if c.get('ascii_locale')),
        roundtrips_checked=sum(len(o.get('loaded', [])) for o in outs) + sum(1 for o in outs for st in o.get('history', []) if st['op'] == 'dump'),
        history_steps={k: sum(1 for o in outs for st in o.get('history', []) if st['op'] == k) for k in ('run', 'dump', 'foreign', 'delete', 'load')},
        redumps_after_someone_else_wrote=sum(count_redumps(c) for c in cases if c['kind'] == 'history'),
        hypothesis_load_dump_measured_on=sum(len(o.get('loaded', [])) for o in outs),
        hypothesis_parse_render_measured_on=n_obs,
        samples=samples,
        trusted_base_extra=[
            'hand model of the channel call sequences (Report/Channels.v), tied by correspondence only: opts_of and data_of are '
            'compared inside Coq with the tokenised text of every channel of every case',
            'pickle: Section hypothesis load (dump s) = Some s, measured on every dump of every case (loaded == live, exact)',
            'show_text cell formatting and row<->source zip: abstract `render` (C10 models it); hypothesis parse (render s o) = data_of s o '
            'measured by model_ok on every observation',
            'snapshot purity (get_stats is a function of the state): C12; measured here as snapshot_after == snapshot',
            'the tokeniser in harness/props/c11.py (columns located from the header line)',
            'environment: COLUMNS=1000 for rich channels (at 80 columns rich wraps the table; that layout question is C10\'s)'])
    res.assumptions = ['no profiled execution between the output requests of one case (the theorem\'s no-Exec hypothesis)',
                       'snapshot keys are unique and row hits >= 1 (C12_wellformed)',
                       'units have at most six significant digits so that the "Timer unit" header identifies them']
    return res


def run_cases(impl, cases, tmp):
    outs = []
    # subprocess-heavy kinds are slow: run the driver in a few parallel batches
    from concurrent.futures import ThreadPoolExecutor
    nb = max(1, min(core.NCPU, 8, len(cases) // 6 or 1))
    batches = [cases[i::nb] for i in range(nb)]

    def one(b):
        if not b:
            return []
        return core.run_impl(impl, DRIVER, dict(cases=b, tmp=str(tmp)), timeout=3000)['cases']
    with ThreadPoolExecutor(max_workers=nb) as ex:
        rs = list(ex.map(one, batches))
    outs = [None] * len(cases)
    for bi, r in enumerate(rs):
        for j, o in enumerate(r):
            outs[bi + j * nb] = o
    return outs


def replay(path):
    data = json.load(open(path))
    impl = core.build_impl()
    tmp = core.SCRATCH_ROOT / 'tmp'
    tmp.mkdir(parents=True, exist_ok=True)
    c = data['case']
    o = core.run_impl(impl, DRIVER, dict(cases=[c], tmp=str(tmp)))['cases'][0]
    attach_obs(o)
    why = py_spec(c, o)
    print(json.dumps(dict(case_kind=c['kind'], impl=slim(o), why=why, holds=not why), indent=1, default=str)[:6000])
    return 0 if not why else 1
