"""C02 - line time accounting is exact, inclusive of callees, conserved.  Theorems: Props/C02.v.
Tie: two-phase oracle under the LD_PRELOAD virtual clock (ticks 0, 1, 7): reported total_time compared
as exact integers with the Concrete model (inside Coq) and with the per-activation specification."""
from harness import core, e1common

PROP = 'C02'
MODULE = 'Props.C02'
THEOREMS = ['C02_time_exact', 'C02_time_exact_nonvacuous', 'C02_nonneg', 'C02_time_is_abstract', 'C02_unit', 'C02_conserved', 'C02_conserved_nonvacuous', 'C02_enabled_within_elapsed', 'C02_disable_must_clear_pending', 'C02_recursion_refuted', 'C02_model_is_generated_core']
LEVEL = 'proof'
FEATURES = [{'gen'}, {'rec'}, {'gen', 'rec'}, {'co'}, set(), {'gen', 'co'}, {'mutual', 'rec'}, {'gen', 'co', 'rec', 'mutual'}, {'selfdisable'}, {'selfdisable', 'gen'}, {'gen', 'straddle'}, {'delegators'}]


def run(tier, seed):
    res = e1common.run_property(PROP, MODULE, THEOREMS, tier, seed, 160, 30000, FEATURES, 'time', ticks=(0, 1, 7), extra_cases=[e1common.FIXED_RECURSION])
    # threads sharing one profiler: times depend on the schedule, so only the hit counts are judged here
    res2 = e1common.run_property(PROP, MODULE, THEOREMS, tier, seed + 1, 40, 3000, [{'gen'}, set(), {'rec'}], 'hits', threads=True, ticks=(0,))
    e1common.merge_results(res, res2, 'threaded_part')
    # single executions of a line lasting longer than 2**31 / 2**32 timer units (the counters are 64-bit), every reading
    # method, plain enable()/disable() windows
    res3 = e1common.run_property(PROP, MODULE, THEOREMS, tier, seed + 2, 48, 4000,
                                 [{'bigtime'}, {'bigtime', 'gen'}, {'bigtime', 'snapmodes'}, {'bare', 'snapmodes'}], 'time', ticks=(0, 1, 7))
    e1common.merge_results(res, res3, 'long_lines_part')
    res.assumptions.append('CLOCK_MONOTONIC is replaced by the shim: the real clock is not exercised (partial)')
    return res


def replay(path):
    return e1common.replay(PROP, path, 'time')
