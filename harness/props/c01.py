"""C01 - per-line hit counts are exact.  Theorems: Props/C01.v (Concrete -> Abstract -> counting).
Tie: two-phase oracle + Concrete model vs implementation inside Coq (harness/e1common.py)."""
import json
from harness import core, e1common

PROP = 'C01'
MODULE = 'Props.C01'
THEOREMS = ['C01_hits_exact', 'C01_hits_exact_quiescent', 'C01_hits_le_executed', 'C01_nonvacuous', 'C01_selfdisable_drops_line', 'C01_report_shows_reported', 'C01_model_is_generated_core']
LEVEL = 'proof'
FEATURES = [{'rec'}, {'gen'}, {'gen', 'rec'}, {'co'}, {'gen', 'co', 'rec', 'mutual'}, set(), {'mutual', 'rec'}, {'gen', 'co'}, {'gen', 'straddle'}, {'selfdisable'}, {'selfdisable', 'gen', 'rec'}]


GLUE = [{'oneline'}, {'oneline', 'regmodes'}, {'bare', 'snapmodes'}, {'snapinside', 'snapmodes'}, {'regmodes', 'gen'},
        {'snapinside', 'snapmodes', 'gen', 'rec'}, {'bare', 'gen'}, {'snapmodes', 'co'}, {'regmodes', 'rec'}, {'co', 'cotasks'}, {'co', 'cotasks', 'gen'}]


def run(tier, seed):
    res = e1common.run_property(PROP, MODULE, THEOREMS, tier, seed, 160, 30000, FEATURES, 'hits')
    # the same property with the programs spread over real threads (shared profiler): hits only
    res2 = e1common.run_property(PROP, MODULE, THEOREMS, tier, seed + 1, 40, 3000, [{'gen'}, set(), {'rec'}], 'hits', threads=True, ticks=(0,))
    res = e1common.merge_results(res, res2, 'threaded_part')
    # the glue around the tracer: every registration entry point, every reading method (also from inside running
    # code), plain enable()/disable() windows, one-line functions and lambdas; a monitoring thread that reads mid-run
    res3 = e1common.run_property(PROP, MODULE, THEOREMS, tier, seed + 2, 88, 7000, GLUE, 'hits', extra_cases=[e1common.FIXED_COTASKS])
    res = e1common.merge_results(res, res3, 'glue_part')
    res4 = e1common.run_property(PROP, MODULE, THEOREMS, tier, seed + 3, 24, 2000, [{'monitor'}, {'monitor', 'gen'}], 'hits', threads=True, ticks=(0,))
    return e1common.merge_results(res, res4, 'monitor_part')


def replay(path):
    return e1common.replay(PROP, path, 'hits')
