"""C20 - %lprun profiles exactly the named functions for exactly one statement.

Theorem side: Props/C20.v over Report/Lprun.v (hand model of
LineProfilerMagics.lprun + runctx, reusing the channel model of C11).
Tie: sequences of 1-3 real %lprun invocations inside an in-process IPython
(driver harness/drivers/c20.py), over option combinations (-f several, -m incl. dotted sub-module names, -r,
-s, -u good/bad, -D, -T, bad names), statement outcomes (return, SystemExit,
KeyboardInterrupt, ValueError), calls to unnamed functions, with and without a
pre-existing builtins.profile.  Each invocation's observation is compared inside
Coq with the model's run of the same sequence (`model_ok1`) and the property
predicate is evaluated on the implementation's own output (`spec_other1`,
`leak_sig`)."""
import json
from fractions import Fraction

from harness import core

PROP = 'C20'
MODULE = 'Props.C20'
THEOREMS = ['C20_only_named', 'C20_outputs_agree', 'C20_output_on_exit_or_interrupt', 'C20_other_exception',
            'C20_errors_touch_nothing', 'C20_namespace_as_found', 'C20_builtins_restored',
            'C20_builtins_restored_when_had', 'C20_builtins_witness', 'C20_nonvacuous']
LEVEL = 'proof'
DRIVER = 'harness.drivers.c20'
FINDING = 'C20-builtins-profile-left-behind'   # status 'fixed' (350dbfa): the signature now only labels a regression

# the function universe of the driver (ids, how to name / call them, shape)
FUN = {
    0: dict(expr='c0', call='c0(%d)', shape=('Loop', 0)),
    1: dict(expr='c1', call='c1(%d)', shape=('Loop', 1)),
    2: dict(expr='c2', call='c2(%d)', shape=('Loop', 2)),
    3: dict(expr='w0', call='w0(%d)', shape=('Wrap', 0)),
    4: dict(expr='x_exit', call='x_exit()', shape=('Raiser', None)),
    5: dict(expr='x_kbd', call='x_kbd()', shape=('Raiser', None)),
    6: dict(expr='x_err', call='x_err()', shape=('Raiser', None)),
    # body on the header line: a one-line def and a lambda (cell), the same in a module
    7: dict(expr='sq', call='sq(%d)', shape=('OneLine', None)),
    8: dict(expr='lam', call='lam(%d)', shape=('OneLine', None)),
    13: dict(expr='c20m_a.one', call='c20m_a.one(%d)', shape=('OneLine', None)),
    14: dict(expr='c20m_a.lam2', call='c20m_a.lam2(%d)', shape=('OneLine', None)),
    # value-equal twins: two vendored copies of one file (same name, line, body; different co_filename),
    # both bound in module c20m_w.  Only ever named through -m c20m_w and only called when it is named:
    # an UNNAMED byte-identical twin at the same lines is C04's known finding, not C20's business.
    40: dict(expr='c20m_w.norm_a', call='c20m_w.norm_a(%d)', shape=('Loop', 11)),
    41: dict(expr='c20m_w.norm_b', call='c20m_w.norm_b(%d)', shape=('Loop', 11)),
    # made by exec() under pseudo file names without a linecache entry
    50: dict(expr='ex0', call='ex0(%d)', shape=('Loop', 12)),
    51: dict(expr='ex1', call='ex1(%d)', shape=('Loop', 13)),
    # a method inherited by a class of module c20m_d from a base class of ANOTHER module, and the class's own method
    60: dict(expr='c20base.Base.describe', call='c20m_d.KD().describe(%d)', shape=('Loop', 14)),
    61: dict(expr='c20m_d.KD.own', call='c20m_d.KD().own(%d)', shape=('Loop', 15)),
    # three byte-identical functions on the same line numbers of three files.  Only ever named all together and
    # only called when named (an unnamed byte-identical twin is C04's finding).
    70: dict(expr='c20t_1.trip', call='c20t_1.trip(%d)', shape=('Loop', 16)),
    71: dict(expr='c20t_2.trip', call='c20t_2.trip(%d)', shape=('Loop', 16)),
    72: dict(expr='c20t_3.trip', call='c20t_3.trip(%d)', shape=('Loop', 16)),
    10: dict(expr='c20m_a.a0', call='c20m_a.a0(%d)', shape=('Loop', 3)),
    11: dict(expr='c20m_a.a1', call='c20m_a.a1(%d)', shape=('Loop', 4)),
    12: dict(expr='c20m_a.KA.am', call='c20m_a.KA().am(%d)', shape=('Loop', 5)),
    20: dict(expr='c20m_b.b0', call='c20m_b.b0(%d)', shape=('Loop', 6)),
    21: dict(expr='c20m_b.wb', call='c20m_b.wb(%d)', shape=('Wrap', 20)),
    22: dict(expr='c20m_b.KB.bm', call='c20m_b.KB().bm(%d)', shape=('Loop', 7)),
    # a package: functions of __init__ (30, 31) and of its sub-module (32, 33)
    30: dict(expr='c20pkg.pinit', call='c20pkg.pinit(%d)', shape=('Loop', 8)),
    31: dict(expr='c20pkg.pw', call='c20pkg.pw(%d)', shape=('Wrap', 30)),
    32: dict(expr='c20pkg.sub.ps0', call='c20pkg.sub.ps0(%d)', shape=('Loop', 9)),
    33: dict(expr='c20pkg.sub.KS.pm', call='c20pkg.sub.KS().pm(%d)', shape=('Loop', 10)),
}
# what add_module registers for each name -m can take; a dotted name means the sub-module, not its parent package
MODS = {'c20m_a': [10, 11, 12, 13, 14], 'c20m_b': [20, 21, 22], 'c20pkg': [30, 31], 'c20pkg.sub': [32, 33],
        'c20m_w': [40, 41], 'c20m_d': [61]}     # -m c20m_d: KD.own only; the inherited Base.describe belongs to c20base
CALLABLE = [0, 1, 2, 3, 7, 8, 10, 11, 12, 13, 14, 20, 21, 22, 30, 31, 32, 33, 50, 51, 60, 61]
TRIPLET = [70, 71, 72]
TWINS = [40, 41]
RAISER = {'SysExit': 4, 'KbdInt': 5, 'ExcOther': 6}
# coarser than the timer's 1e-9 s, equal to it, and finer (every cell then needs the wide-number formats)
UNITS = ['1e-3', '1e-6', '1', '2.5e-07', '1e-9', '1e-10', '1e-12', '1e-15']
_counter = [0]


def expected_hits(shape, ns):
    c = len(ns)
    if shape[0] == 'Loop':
        return [c, sum(n + 1 for n in ns), sum(ns)] + [c] * shape[1] + [c]
    if shape[0] == 'Wrap':
        return [c, c]
    return [c]          # Raiser, OneLine


def flatten(top):
    calls = []
    for fid, n in top:
        calls.append((fid, n))
        sh = FUN[fid]['shape']
        if sh[0] == 'Wrap':
            calls.append((sh[1], n))
    return calls


def mk_inv(f=(), m=(), u=None, r=False, s=False, D=False, T=False, top=((0, 2),), outcome='Return', bind=False,
           bad_f=False, bad_m=False, syntax=False):
    """f: function ids named by -f; m: module names; u: None | 'abc' (bad) | value"""
    _counter[0] += 1
    i = _counter[0]
    a_f = [fid for fid in f]
    fexprs = [FUN[fid]['expr'] for fid in f]
    if bad_f:
        pos = i % (len(fexprs) + 1)
        fexprs.insert(pos, 'no_such_fn_%d' % i)
        a_f.insert(pos, None)
    a_m = [list(MODS[x]) for x in m]
    mnames = list(m)
    if bad_m:
        mnames.append('no_such_mod_%d' % i)
        a_m.append(None)
    top = list(top)
    stmts = []
    binds = []
    for j, (fid, n) in enumerate(top):
        txt = FUN[fid]['call'] % n if '%d' in FUN[fid]['call'] else FUN[fid]['call']
        if bind and j == 0:
            name = 'zz_%d' % i
            binds.append(name)
            txt = '%s = %s' % (name, txt)
        stmts.append(txt)
    calls = flatten(top)
    if syntax:
        # the statement does not compile: exec raises SyntaxError before anything runs.  For the model this is a
        # statement that makes no calls and ends in an exception other than SystemExit / KeyboardInterrupt.
        outcome, calls, binds = 'ExcOther', [], []
        stmts = [stmts[0].rstrip(')')] if stmts and stmts[0].endswith(')') else ['c0(1']
    elif outcome != 'Return':
        stmts.append(FUN[RAISER[outcome]]['call'])
        calls.append((RAISER[outcome], 0))
    parts = []
    for e in fexprs:
        parts.append('-f %s' % e)
    for x in mnames:
        parts.append('-m %s' % x)
    if u is not None:
        parts.append('-u %s' % u)
    if r:
        parts.append('-r')
    if s:
        parts.append('-s')
    dn = 'd_%d.lprof' % i if D else None
    tn = 't_%d.txt' % i if T else None
    if D:
        parts.append('-D @D@')
    if T:
        parts.append('-T @T@')
    line = ' '.join(parts) + (' ' if syntax else ' _c20_grab(); ') + '; '.join(stmts)
    reaches = (None not in a_f) and (None not in a_m) and u != 'abc'
    named = ([x for x in a_f] + [y for l in a_m for y in l]) if reaches else []
    post = sorted({x for x in named if FUN[x]['shape'][0] != 'Raiser'})
    return dict(line=line.strip(), a_f=a_f, a_m=a_m, u=u, u_ok=(u if u not in (None, 'abc') else None), r=bool(r), s=bool(s),
                D=dn, T=tn, calls=calls, outcome=outcome, binds=binds, reaches=reaches, named=named, post=post, idx=i,
                runs=not syntax)


def rand_inv(rnd):
    f = rnd.sample(CALLABLE + [4, 5, 6], rnd.choice([0, 1, 1, 2, 3]))
    m = rnd.sample(sorted(MODS), rnd.choice([0, 0, 1, 1, 1, 2]))
    if not f and not m and rnd.random() < 0.8:
        f = [rnd.choice(CALLABLE)]
    top = [(rnd.choice(CALLABLE), rnd.choice([0, 1, 2, 3, 5, 17])) for _ in range(rnd.randint(1, 4))]
    # make sure named functions are usually exercised
    for fid in f:
        if fid in CALLABLE and rnd.random() < 0.6:
            top.insert(rnd.randint(0, len(top)), (fid, rnd.choice([0, 1, 2, 4])))
    if rnd.random() < 0.12:   # the byte-identical triplet: all three named, each run a different number of times
        order = rnd.sample(TRIPLET, 3)
        f = [x for x in f if x not in TRIPLET] + order
        for fid, k in zip(TRIPLET, (1, 2, 3)):
            for _ in range(k):
                top.insert(rnd.randint(0, len(top)), (fid, rnd.choice([0, 1, 2])))
    if 'c20m_d' in m and rnd.random() < 0.8:   # the inherited method runs too
        top.insert(rnd.randint(0, len(top)), (60, rnd.choice([1, 2])))
        top.insert(rnd.randint(0, len(top)), (61, rnd.choice([1, 3])))
    if 'c20m_w' in m:   # both twins run, different numbers of times
        for fid, k in ((40, rnd.randint(1, 2)), (41, rnd.randint(1, 3))):
            for _ in range(k):
                top.insert(rnd.randint(0, len(top)), (fid, rnd.choice([0, 1, 3])))
    outcome = rnd.choice(['Return'] * 5 + ['SysExit', 'SysExit', 'KbdInt', 'KbdInt', 'ExcOther', 'ExcOther'])
    u = rnd.choice([None, None, None] + UNITS + (['abc'] if rnd.random() < 0.25 else []))
    return mk_inv(f=f, m=m, u=u, r=rnd.random() < 0.6, s=rnd.random() < 0.4, D=rnd.random() < 0.4, T=rnd.random() < 0.4,
                  top=top, outcome=outcome, bind=rnd.random() < 0.12, bad_f=rnd.random() < 0.07, bad_m=rnd.random() < 0.07,
                  syntax=rnd.random() < 0.08)


def gen_cases(tier, rnd):
    cases = []
    # deterministic core: every outcome x had_profile x (all outputs on / off) x (-f | -m)
    for pre in (False, True):
        for outcome in ('Return', 'SysExit', 'KbdInt', 'ExcOther'):
            for full in (False, True):
                for sel in ('f', 'm', 'fm'):
                    f = [0, 10] if 'f' in sel else []
                    m = ['c20m_b'] if 'm' in sel else []
                    cases.append(dict(pre_profile=pre, invs=[mk_inv(
                        f=f, m=m, u=('1e-3' if full else None), r=full, s=full, D=full, T=full,
                        top=[(0, 3), (1, 2), (21, 2), (10, 1)], outcome=outcome)]))
        # dotted module names: the sub-module, the package, both; the statement calls functions of both
        for m in (['c20pkg.sub'], ['c20pkg'], ['c20pkg.sub', 'c20pkg'], ['c20m_a', 'c20pkg.sub']):
            cases.append(dict(pre_profile=pre, invs=[mk_inv(m=m, r=True, T=True, top=[(32, 3), (33, 2), (31, 2), (30, 1), (10, 1)])]))
        # one-line defs and lambdas among the -f functions; value-equal twins through -m
        cases.append(dict(pre_profile=pre, invs=[mk_inv(f=[7, 8, 0], r=True, D=True, T=True, top=[(7, 3), (8, 2), (7, 1), (0, 2), (13, 1)]),
                                                 mk_inv(f=[8], top=[(8, 4), (14, 1)], outcome='SysExit')]))
        cases.append(dict(pre_profile=pre, invs=[mk_inv(f=[14], m=['c20m_a'], r=True, top=[(13, 2), (14, 3), (10, 1)])]))
        cases.append(dict(pre_profile=pre, invs=[mk_inv(m=['c20m_w'], r=True, D=True, top=[(40, 2), (41, 1), (41, 3), (41, 0), (0, 1)]),
                                                 mk_inv(m=['c20m_w', 'c20m_b'], r=True, top=[(41, 2), (40, 1), (20, 1)])]))
        # three byte-identical functions named together; inherited method of a foreign base class under -m
        cases.append(dict(pre_profile=pre, invs=[mk_inv(f=[70, 71, 72], r=True, D=True, top=[(70, 1), (71, 2), (71, 0), (72, 3), (72, 1), (72, 1), (0, 1)]),
                                                 mk_inv(f=[72, 70, 71, 0], top=[(72, 1), (70, 2), (70, 2), (71, 1), (71, 1), (71, 1)], outcome='SysExit')]))
        cases.append(dict(pre_profile=pre, invs=[mk_inv(m=['c20m_d'], r=True, T=True, top=[(60, 2), (61, 1), (60, 1), (0, 1)]),
                                                 mk_inv(f=[60], m=['c20m_d'], r=True, top=[(60, 1), (61, 2)])]))
        # a statement that does not compile, then ordinary ones in the same session
        cases.append(dict(pre_profile=pre, invs=[mk_inv(f=[0], r=True, top=[(0, 10)], syntax=True), mk_inv(f=[0], r=True, top=[(0, 2)]),
                                                 mk_inv(m=['c20m_b'], D=True, top=[(20, 1)], syntax=True), mk_inv(f=[1], top=[(1, 1)], outcome='KbdInt')]))
        # functions made by exec under pseudo file names
        cases.append(dict(pre_profile=pre, invs=[mk_inv(f=[50, 51, 0], r=True, T=True, D=True, top=[(50, 3), (51, 2), (0, 1), (50, 0)]),
                                                 mk_inv(f=[51], s=True, u='1e-6', top=[(51, 4)], outcome='SysExit')]))
        # units finer / coarser than the timer: wide-number formats in every column
        for u in ('1e-12', '1e-15', '1e-10', '1e-3'):
            cases.append(dict(pre_profile=pre, invs=[mk_inv(f=[0, 10, 7], u=u, r=True, T=True, s=(u == '1e-10'),
                                                            top=[(0, 3), (10, 40), (7, 2), (0, 1)])]))
        # errors before anything is touched, then a good one
        cases.append(dict(pre_profile=pre, invs=[mk_inv(f=[0], bad_f=True), mk_inv(f=[0], bad_m=True), mk_inv(f=[0], u='abc'),
                                                 mk_inv(f=[0], r=True)]))
    n = 40 if tier == 'quick' else 2500
    for _ in range(n):
        cases.append(dict(pre_profile=rnd.random() < 0.5, invs=[rand_inv(rnd) for _ in range(rnd.choice([1, 2, 2, 3]))]))
    return cases


# ----------------------------------------------------------------------------
# Python-side spec (the search's oracle; mirrors LprunCheck.spec_other1 / leak_sig)
def py_spec(c, o):
    why, leak = [], []
    for k, (iv, ob) in enumerate(zip(c['invs'], o['invs'])):
        tag = 'invocation %d (%s): ' % (k, iv['line'][:70])
        restored = ob['b_before'] == ob['b_after']
        if not restored:
            if ob['b_before'] is None and ob['b_after'] == 100 + k:
                leak.append(tag + 'no builtins.profile existed before the %lprun invocation; afterwards builtins.profile is its profiler')
            else:
                why.append(tag + 'builtins.profile %r before, %r after' % (ob['b_before'], ob['b_after']))
        if not ob['builtins_other_same'] and ob.get('interp_same', True):
            why.append(tag + 'other builtins changed')
        if not iv['reaches']:
            if ob['kind'] not in (1, 2) or ob['pages'] or ob['T'] is not None or ob['D'] is not None or ob['ns_added'] or ob['ns_removed']:
                why.append(tag + 'bad option did not stop the magic cleanly: %r' % (ob['exc'],))
            continue
        if ob['stats'] is None:
            why.append(tag + 'the statement never saw a profiler in builtins (%r)' % (ob['exc'],))
            continue
        got = {fid: vec for fid, vec in ob['stats']}
        named = iv['named']
        for fid in named:
            exp = expected_hits(FUN[fid]['shape'], [n for (g, n) in iv['calls'] if g == fid])
            if got.get(fid) != exp:
                why.append(tag + 'function %s: hits %r, expected %r' % (FUN[fid]['expr'], got.get(fid), exp))
        for fid in got:
            if fid not in named:
                why.append(tag + 'statistics for %r which was not named' % (FUN.get(fid, {}).get('expr', fid),))
        runs = iv.get('runs', True)
        if not ob.get('interp_same', True):
            why.append(tag + 'tracing / monitoring state of the interpreter differs after the invocation')
        if (runs and ob['count_during'] != 1) or ob['count_after'] != 0 or not ob['stable']:
            why.append(tag + 'profiler not enabled for exactly the statement (count during %s, after %s, stable %s)'
                       % (ob['count_during'], ob['count_after'], ob['stable']))
        if runs and ob['b_during'] != 100 + k:
            why.append(tag + 'builtins.profile during the statement is not a fresh profiler')
        if iv['outcome'] == 'ExcOther':
            if ob['kind'] != 3:
                why.append(tag + 'ValueError in the statement did not propagate')
        else:
            if ob['kind'] != 0:
                why.append(tag + 'no normal return on outcome %s: %r' % (iv['outcome'], ob['exc']))
            if ob['ret'] != iv['r']:
                why.append(tag + '-r: profiler returned=%s' % ob['ret'])
            if len(ob['pages']) != 1:
                why.append(tag + '%d texts paged' % len(ob['pages']))
            else:
                why += [tag + 'paged text: ' + w for w in columns_vs_statistics(ob, iv)[:3]]
                if ob['live'] != ob['pages'][0]:
                    why.append(tag + 'paged text differs from what the profiler prints with the same -u/-s')
                if iv['T'] and ob['T'] != ob['pages'][0]:
                    why.append(tag + '-T file differs from the paged text')
            if iv['D'] and ob['D'] is not True:
                why.append(tag + '-D file does not load to the profiler\'s statistics')
            if ob['msg'] != {'Return': 0, 'SysExit': 1, 'KbdInt': 2}[iv['outcome']]:
                why.append(tag + 'message %s on outcome %s' % (ob['msg'], iv['outcome']))
        if ob['ns_added'] != iv['binds'] or ob['ns_removed']:
            why.append(tag + 'user namespace: added %r removed %r' % (ob['ns_added'], ob['ns_removed']))
    return why, leak


def columns_vs_statistics(ob, iv):
    """Every column of what was paged (= the -T text, checked separately) against the statistics of the
    profiler itself (what -r returns and -D pickles), honouring -u: header unit, Hits, Time, Per Hit,
    % Time, Total time - by exact rational arithmetic within the precision of each format."""
    from harness.props import c11
    sj = ob.get('snapshot')
    if sj is None:
        return []
    rep = c11.parse_report(ob['pages'][0], [k for k, _ in sj['timings']])
    why = list(rep['errors'][:2])
    want = '%g' % (float(iv['u_ok']) if iv['u_ok'] is not None else float.fromhex(sj['unit']))
    if rep['unit_str'] != want:
        why.append('header says Timer unit %r, expected %r' % (rep['unit_str'], want))
    why += c11.obs_sound_py(sj, rep)
    shown = {tuple(f['key']) for f in rep['funcs']}
    for k, rows in sj['timings']:
        if tuple(k) not in shown and (rows or not iv['s']):
            why.append('function %r has statistics but no block in the text' % (k,))
    return why


# ----------------------------------------------------------------------------
# Coq terms
def cz(n):
    return core.coq_z(n)


def coq_oz(x):
    return 'None' if x is None else '(Some %s)' % cz(x)


def coq_unit(u):
    fr = Fraction(float(u))
    return '(FUnit %s (%d # %d)%%Q)' % (cz(1 + UNITS.index(u)), fr.numerator, fr.denominator)


def coq_args(iv):
    u = iv['u']
    cu = 'UNone' if u is None else ('UBad' if u == 'abc' else '(UOk %s)' % coq_unit(u))
    return '(Args %s %s %s %s %s %s %s)' % (
        core.coq_list([coq_oz(x) for x in iv['a_f']]),
        core.coq_list(['None' if l is None else '(Some %s)' % core.coq_list([cz(x) for x in l]) for l in iv['a_m']]),
        cu, core.coq_bool(iv['r']), core.coq_bool(iv['s']),
        coq_oz(1000 + 2 * iv['idx'] if iv['D'] else None), coq_oz(1001 + 2 * iv['idx'] if iv['T'] else None))


def name_id(nm):
    if nm.startswith('zz_') and nm[3:].isdigit():
        return int(nm[3:])
    return -1 - (sum(ord(ch) for ch in nm) % 1000)


def coq_stmt(iv):
    return '(Stmt %s %s %s)' % (core.coq_list(['(%s, %s)' % (cz(f), cz(n)) for f, n in iv['calls']]), iv['outcome'],
                                core.coq_list([cz(name_id(x)) for x in iv['binds']]))


def coq_obs(ob, texts):
    def tid(t):
        return None if t is None else texts.setdefault(t, len(texts))
    stats = 'None' if ob['stats'] is None else '(Some %s)' % core.coq_list(
        ['(%s, %s)' % (cz(fid), core.coq_list([cz(h) for h in vec])) for fid, vec in ob['stats']])
    d = 'None' if ob['D'] is None else '(Some %s)' % core.coq_bool(ob['D'])
    return '(LObs %s %s %s %s %s %s %s %s %s %s %s %s %s %s %s %s %s %s %s)' % (
        cz(ob['kind']), core.coq_bool(ob['ret']), coq_oz(ob['b_before']), coq_oz(ob['b_during']), coq_oz(ob['b_after']),
        core.coq_bool(ob['builtins_other_same']),
        core.coq_list([cz(name_id(x)) for x in ob['ns_added']]), core.coq_list([cz(name_id(x)) for x in ob['ns_removed']]),
        stats, cz(ob['count_during']), cz(ob['count_after']), core.coq_bool(ob['stable']),
        core.coq_list([cz(tid(t)) for t in ob['pages']]), coq_oz(tid(ob['T'])), coq_oz(tid(ob['live'])), d,
        cz(ob['msg']), core.coq_bool(ob['msg_D']), core.coq_bool(ob['msg_T']))


def coq_case(c, o):
    texts = {}
    invs = ['(Inv %s %s %s %s)' % (coq_args(iv), coq_stmt(iv), core.coq_bool(iv.get('runs', True)), coq_obs(ob, texts))
            for iv, ob in zip(c['invs'], o['invs'])]
    return '(case_ok %s shapes %s)' % (coq_oz(1 if c['pre_profile'] else None), core.coq_list(invs))


def shapes_def():
    items = []
    for fid, d in sorted(FUN.items()):
        sh = d['shape']
        items.append('(%s, %s)' % (cz(fid), '(Loop %s)' % cz(sh[1]) if sh[0] == 'Loop' else sh[0]))
    return 'Definition shapes : list (Z * shape) := %s.\n' % core.coq_list(items)


def slim(o):
    res = []
    for ob in o['invs']:
        d = {k: ob.get(k) for k in ('line', 'kind', 'exc', 'ret', 'b_before', 'b_during', 'b_after', 'builtins_other_same',
                                'ns_added', 'ns_removed', 'stats', 'count_during', 'count_after', 'stable', 'msg', 'D')}
        d['pages'] = [p[:160] for p in ob['pages']]
        d['T_equals_page'] = (ob['T'] == ob['pages'][0]) if ob['T'] is not None and ob['pages'] else None
        d['live_equals_page'] = (ob['live'] == ob['pages'][0]) if ob['live'] is not None and ob['pages'] else None
        res.append(d)
    return res


def run_cases(impl, cases, tmp):
    from concurrent.futures import ThreadPoolExecutor
    nb = max(1, min(core.NCPU, 8, len(cases) // 40 or 1))
    batches = [cases[i::nb] for i in range(nb)]

    def one(b):
        return core.run_impl(impl, DRIVER, dict(cases=b, tmp=str(tmp)), timeout=3000)
    with ThreadPoolExecutor(max_workers=nb) as ex:
        rs = list(ex.map(one, batches))
    outs = [None] * len(cases)
    for bi, r in enumerate(rs):
        for j, o in enumerate(r['cases']):
            outs[bi + j * nb] = o
    return outs, rs[0].get('probes', {})


def run(tier, seed):
    rnd = core.rng(seed, PROP)
    res = core.Result(PROP)
    res.obl = core.check_obligations(PROP, MODULE, THEOREMS, extra_vo=['theories/Report/LprunCheck.vo'])
    impl = core.build_impl()
    tmp = core.SCRATCH_ROOT / 'tmp'
    tmp.mkdir(parents=True, exist_ok=True)
    cases = gen_cases(tier, rnd)
    outs, probes = run_cases(impl, cases, tmp)

    def search(budget):
        c2 = gen_cases('quick', core.rng(seed + 1, PROP)) + gen_cases('quick', core.rng(seed + 2, PROP))
        o2, _ = run_cases(impl, c2, tmp)
        leak_case = None
        for c, o in zip(c2, o2):
            why, leak = py_spec(c, o)
            if why:
                return dict(case=c, impl=slim(o), why='; '.join(why[:4]) + ' (search)', finding=None)
            if leak and leak_case is None:
                leak_case = dict(case=c, impl=slim(o), why=leak[0] + ' (search)', finding=FINDING)
        return leak_case
    res.search = search

    model_ok = not any('build of' in f for f in res.obl['failures'])
    flagged_other, flagged_leak = set(), set()
    if model_ok:
        per = 120
        bodies = []
        for chunk in core.chunks(list(zip(cases, outs)), per):
            rows = [coq_case(c, o) for c, o in chunk]
            b = shapes_def() + 'Definition rows : list (bool * bool * bool) := [\n' + ';\n'.join(rows) + '].\n'
            b += ('Eval vm_compute in (false_indices (map (fun r => fst (fst r)) rows)).\n'
                  'Eval vm_compute in (false_indices (map (fun r => snd (fst r)) rows)).\n'
                  'Eval vm_compute in (false_indices (map snd rows)).\n')
            bodies.append(b)
        shards = core.run_shards('c20', 'From Coq Require Import QArith.\nFrom LP Require Import Prelude.Py Report.Channels Report.Lprun Report.LprunCheck.', bodies)
        for k, sres in enumerate(shards):
            if sres[0] != 'ok' or len(sres[1]) != 3:
                res.infra_errors.append('shard %d failed: %s' % (k, str(sres[1])[-600:]))
                continue
            mism, other, leak = sres[1]
            for j in mism:
                i = k * per + j
                res.mismatches.append(dict(case=cases[i], impl=slim(outs[i]), model='Lprun.lprun run on the same sequence predicts something else'))
            flagged_other.update(k * per + j for j in other)
            flagged_leak.update(k * per + j for j in leak)
    n_inv = 0
    hist = dict(outcome={}, kind={}, pre_profile={True: 0, False: 0}, options={})
    leak_first = None
    for i, (c, o) in enumerate(zip(cases, outs)):
        why, leak = py_spec(c, o)
        hist['pre_profile'][bool(c['pre_profile'])] += 1
        for iv, ob in zip(c['invs'], o['invs']):
            n_inv += 1
            hist['outcome'][iv['outcome']] = hist['outcome'].get(iv['outcome'], 0) + 1
            hist['kind'][str(ob['kind'])] = hist['kind'].get(str(ob['kind']), 0) + 1
            for opt in ('r', 's', 'D', 'T'):
                if iv[opt]:
                    hist['options'][opt] = hist['options'].get(opt, 0) + 1
            if iv['u'] is not None:
                hist['options']['u'] = hist['options'].get('u', 0) + 1
            if not iv.get('runs', True):
                hist['options']['stmt_syntax_error'] = hist['options'].get('stmt_syntax_error', 0) + 1
            if iv['a_m']:
                hist['options']['m'] = hist['options'].get('m', 0) + 1
            if ' -m c20pkg.sub' in ' ' + iv['line']:
                hist['options']['m_dotted'] = hist['options'].get('m_dotted', 0) + 1
            if len(iv['a_f']) > 1:
                hist['options']['f_several'] = hist['options'].get('f_several', 0) + 1
        if why or i in flagged_other:
            res.spec_fails.append(dict(case=c, impl=slim(o), why='; '.join(why[:4]) or 'Coq-side spec fails (see LprunCheck.spec_other1)', finding=None))
        elif leak or i in flagged_leak:
            sf = dict(case=c, impl=slim(o), why=(leak or ['Coq-side leak signature'])[0], finding=FINDING)
            if leak_first is None:
                leak_first = sf
            res.spec_fails.append(sf)
        if bool(why) != (i in flagged_other) and model_ok:
            res.notes.append('case %d: python spec and Coq spec disagree (python %r, coq %s)' % (i, why[:2], i in flagged_other))
            if not why:
                pass
        if bool(leak) != (i in flagged_leak) and model_ok:
            res.notes.append('case %d: python and Coq leak signature disagree' % i)
    distinct = {json.dumps([[iv['a_f'], iv['a_m'], iv['u'], iv['r'], iv['s'], bool(iv['D']), bool(iv['T']), iv['calls'], iv['outcome']]
                            for iv in c['invs']] + [c['pre_profile']]) for c in cases
                if any(iv['reaches'] and any(f in iv['named'] for f, _ in iv['calls']) for iv in c['invs'])}
    res.coverage = dict(
        evaluations=len(cases), invocations=n_inv, distinct_nontrivial=len(distinct),
        rule='a case = one IPython session state (with/without builtins.profile) + a sequence of 1-3 %lprun lines; non-trivial = some '
             'invocation gets past option handling and its statement calls a named function; distinct by (options, calls, outcome, pre-state)',
        exhaustive='deterministic core: 4 outcomes x had_profile x outputs on/off x {-f, -m, -f -m} + the three error paths',
        histograms=hist, sequences_by_length={str(n): sum(1 for c in cases if len(c['invs']) == n) for n in (1, 2, 3, 4)},
        hypothesis_reaches_true_on=sum(1 for c in cases for iv in c['invs'] if iv['reaches']),
        hypothesis_had_profile_on=hist['pre_profile'][True],
        leak_cases=sum(1 for sf in res.spec_fails if sf['finding'] == FINDING),
        probes=probes,
        samples=[dict(case=dict(pre_profile=cases[i]['pre_profile'], lines=[iv['line'] for iv in cases[i]['invs']]),
                      impl=slim(outs[i])[:1]) for i in (0, len(cases) // 2, len(cases) - 1)],
        trusted_base_extra=[
            'hand model Report/Lprun.v of LineProfilerMagics.lprun / runctx, tied by correspondence only (model_ok1 inside Coq on every invocation)',
            'IPython option parser, eval of -f expressions, __import__ of -m modules, float(-u): environment, entering the model as '
            'args (None / UBad on failure); exercised with bad names and a bad unit on every run',
            'IPython pager: replaced by a recorder in the driver; the statement\'s view of builtins is taken by an unprofiled helper call',
            'show_text / pickle abstract as in C11 (render, dump); paged text, -T file and the profiler\'s own print_stats are compared as strings',
            'per-line hit exactness of the tracer is C01\'s theorem; here it is measured on loop/wrapper/raiser functions with distinct bytecode '
            '(so C04\'s byte-identical-twin finding does not interfere)'])
    res.assumptions = ['statements are sequences of calls of the generated functions (optionally one assignment) ending in return / '
                       'SystemExit / KeyboardInterrupt / ValueError',
                       '-f never names the same function twice in one invocation (re-registration is C12\'s finding)']
    if leak_first is not None:
        res.notes.append('REGRESSION of the fixed finding %s on %d case(s); first: %s' % (FINDING, res.coverage['leak_cases'], leak_first['why']))
    return res


def replay(path):
    data = json.load(open(path))
    impl = core.build_impl()
    tmp = core.SCRATCH_ROOT / 'tmp'
    tmp.mkdir(parents=True, exist_ok=True)
    c = data['case']
    for iv in c['invs']:
        iv['calls'] = [tuple(x) for x in iv['calls']]
    outs, _ = run_cases(impl, [c], tmp)
    why, leak = py_spec(c, outs[0])
    print(json.dumps(dict(lines=[iv['line'] for iv in c['invs']], pre_profile=c['pre_profile'], impl=slim(outs[0]),
                          why=why, leak=leak, holds=not (why or leak)), indent=1, default=str)[:6000])
    return 0 if not (why or leak) else 1
