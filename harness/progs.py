"""Random structured program generator for the tracer engine (C01 C02 C04 C12 C13).

A program is a dict(files=[(filename, text)...], main=<name of the entry function in file 0>).
Every function has the signature f(x, d): x an int, d a depth budget (recursion and call
depth are bounded by d, loops by small constants, so every program terminates).  The entry
function `main(P)` drives registration / enable windows / calls / snapshots through the
harness object P (see harness/drivers/e1.py)."""
import random

PRELUDE = '''
class CM:
    def __init__(self, swallow):
        self.swallow = swallow
    def __enter__(self):
        A(1)
        return self
    def __exit__(self, et, ev, tb):
        A(2)
        return self.swallow and et is ValueError

class Susp:
    def __await__(self):
        r = yield
        return r
'''


BIG_ADVANCES = [2**31 - 1, 2**31, 2**31 + 5, 3 * 2**30 + 1, 2**32 - 1, 2**32, 2**32 + 7, 5 * 2**31 + 3, 2**40 + 3, 2**52 + 1]


class Gen:
    def __init__(self, rnd, nfuncs, features):
        self.r = rnd
        self.n = nfuncs
        self.feat = features
        self.kinds = {}

    def expr(self):
        r = self.r
        return r.choice(['x + %d' % r.randrange(1, 5), 'x * 2 + 1', 'x - 1', '(x + 3) % 7', 'x'])

    def adv(self):
        if 'bigtime' in self.feat and self.r.random() < 0.35:
            # one execution of a line lasting longer than 2**31 / 2**32 timer units (the counters are 64-bit)
            return 'A(%d)' % self.r.choice(BIG_ADVANCES)
        return 'A(%d)' % self.r.choice([1, 3, 10, 50, 200, 1000])

    def callee(self, i):
        """a call expression to another function (or a recursive one), respecting kinds"""
        r = self.r
        cands = [j for j in range(self.n) if j > i and self.kinds[j] == 'fn']
        if r.random() < 0.25 and self.kinds[i] == 'fn' and 'rec' in self.feat:
            cands.append(i)
        if i > 0 and r.random() < 0.15 and 'mutual' in self.feat:
            cands += [j for j in range(self.n) if j < i and self.kinds[j] == 'fn']
        if not cands:
            return None
        j = r.choice(cands)
        return 'f%d(%s, d - 1)' % (j, self.expr())

    def gens(self, i):
        return [j for j in range(self.n) if j != i and self.kinds[j] == 'gen']

    def stmts(self, i, depth, ind, in_loop=False, kind='fn'):
        r = self.r
        out = []
        n = r.randrange(1, 4)
        for _ in range(n):
            out += self.stmt(i, depth, ind, in_loop, kind)
        return out

    def stmt(self, i, depth, ind, in_loop, kind):
        r = self.r
        p = ' ' * ind
        choices = ['assign', 'assign', 'adv', 'adv']
        if depth > 0:
            choices += ['if', 'if', 'for', 'while', 'try', 'with', 'call', 'call', 'multi', 'comp', 'ret', 'raise',
                        'lambda', 'usegen', 'usegen2', 'driveco']
        if 'selfdisable' in self.feat and depth > 0:
            choices += ['selfwith', 'selfwith', 'selfdis']
        if 'snapinside' in self.feat:
            choices += ['snapin', 'snapin']
        if in_loop:
            choices += ['break', 'continue']
        if kind in ('gen', 'agen'):
            choices += ['yield', 'yield', 'yield']
        if kind == 'gen' and depth > 0:
            choices += ['yieldfrom']
        if kind in ('co', 'agen'):
            choices += ['await']
        c = r.choice(choices)
        if c == 'assign':
            return [p + 'x = ' + self.expr()]
        if c == 'adv':
            return [p + self.adv()]
        if c == 'if':
            out = [p + 'if x %% %d == %d:' % (r.choice([2, 3]), r.randrange(2))]
            out += self.stmts(i, depth - 1, ind + 4, in_loop, kind)
            if r.random() < 0.6:
                out += [p + 'else:'] + self.stmts(i, depth - 1, ind + 4, in_loop, kind)
            return out
        if c == 'for':
            out = [p + 'for i%d in range(%d):' % (depth, r.randrange(0, 4))]
            out += self.stmts(i, depth - 1, ind + 4, True, kind)
            if r.random() < 0.3:
                out += [p + 'else:'] + self.stmts(i, depth - 1, ind + 4, in_loop, kind)
            return out
        if c == 'while':
            v = 'w%d' % depth
            out = [p + '%s = %d' % (v, r.randrange(0, 4)), p + 'while %s > 0:' % v, p + '    %s -= 1' % v]
            out += self.stmts(i, depth - 1, ind + 4, True, kind)
            return out
        if c == 'try':
            out = [p + 'try:'] + self.stmts(i, depth - 1, ind + 4, in_loop, kind)
            if r.random() < 0.6:
                out += [p + '    if x %% 2 == %d:' % r.randrange(2), p + '        raise ValueError(x)']
            form = r.randrange(3)
            if form in (0, 2):
                out += [p + 'except ValueError:'] + self.stmts(i, depth - 1, ind + 4, in_loop, kind)
                if r.random() < 0.3:
                    out += [p + 'else:'] + self.stmts(i, depth - 1, ind + 4, in_loop, kind)
            if form in (1, 2):
                out += [p + 'finally:'] + self.stmts(i, depth - 1, ind + 4, False, kind)
            return out
        if c == 'with':
            out = [p + 'with CM(%s):' % r.choice(['True', 'False'])] + self.stmts(i, depth - 1, ind + 4, in_loop, kind)
            if r.random() < 0.4:
                out += [p + '    if x %% 3 == %d:' % r.randrange(3), p + '        raise ValueError(x)']
            return out
        if c == 'call':
            ce = self.callee(i)
            if ce is None:
                return [p + 'x = ' + self.expr()]
            return [p + 'if d > 0:', p + '    x = (x + %s) %% 1000' % ce]
        if c == 'multi':
            ce = self.callee(i)
            if ce and r.random() < 0.5:
                return [p + 'if d > 0:', p + '    x = (x +', p + '         %s +' % ce, p + '         1) % 1000']
            return [p + 'x = (x +', p + '     %d +' % r.randrange(9), p + '     %d)' % r.randrange(9)]
        if c == 'comp':
            return [p + 'x = sum([j * 2 for j in range(x %% 4)]) + %d' % r.randrange(5)]
        if c == 'ret':
            if kind == 'agen':
                return [p + 'if x %% 5 == %d:' % r.randrange(5), p + '    return']
            return [p + 'if x %% 5 == %d:' % r.randrange(5), p + '    return x']
        if c == 'raise':
            return [p + 'if x %% 7 == %d:' % r.randrange(7), p + '    raise ValueError(x)']
        if c == 'snapin':
            # statistics are read while this function is executing (a pure read, whatever the reading method)
            return [p + 'SNAP(%d)' % r.randrange(3)]
        if c == 'selfwith':
            return [p + 'with PROF:'] + self.stmts(i, depth - 1, ind + 4, in_loop, kind)
        if c == 'selfdis':
            return [p + 'PROF.disable_by_count()'] + self.stmts(i, depth - 1, ind, in_loop, kind) + [p + 'PROF.enable_by_count()']
        if c == 'lambda':
            return [p + 'h = lambda v: v + %d' % r.randrange(5), p + 'x = h(x)']
        if c == 'break':
            return [p + 'if x %% 3 == %d:' % r.randrange(3), p + '    break']
        if c == 'continue':
            return [p + 'if x %% 3 == %d:' % r.randrange(3), p + '    continue']
        if c == 'yield':
            if r.random() < 0.5:
                return [p + 'x = ((yield x) or 0) + x']
            return [p + 'yield x']
        if c == 'yieldfrom':
            gs = [j for j in self.gens(i) if j > i]
            if not gs:
                return [p + 'yield x']
            return [p + 'if d > 0:', p + '    x = ((yield from f%d(x, d - 1)) or 0) + x' % r.choice(gs)]
        if c == 'await':
            return [p + 'x = ((await Susp()) or 0) + x']
        if c == 'usegen':
            gs = self.gens(i)
            if not gs or 'gen' not in self.feat:
                return [p + 'x = ' + self.expr()]
            return [p + 'if d > 0:', p + '    for v in f%d(x, d - 1):' % r.choice(gs), p + '        x = (x + v) % 1000',
                    p + '        ' + self.adv()]
        if c == 'usegen2':
            gs = self.gens(i)
            if not gs or 'gen' not in self.feat:
                return [p + 'x = ' + self.expr()]
            g = r.choice(gs)
            out = [p + 'if d > 0:', p + '    g = f%d(x, d - 1)' % g, p + '    try:', p + '        x = (x + next(g)) % 1000']
            for _ in range(r.randrange(0, 3)):
                k = r.randrange(4)
                if k == 0:
                    out += [p + '        x = (x + g.send(%d)) %% 1000' % r.randrange(5)]
                elif k == 1:
                    out += [p + '        x = (x + next(g)) % 1000']
                elif k == 2:
                    out += [p + '        ' + self.adv()]
                else:
                    out += [p + '        g.throw(ValueError(1))']
            out += [p + '    except (StopIteration, ValueError):', p + '        x += 1']
            end = r.randrange(3)
            if end == 0:
                out += [p + '    g.close()']
            elif end == 1:
                out += [p + '    del g']
            return out
        if c == 'driveco':
            cs = [j for j in range(self.n) if j != i and self.kinds[j] == 'co']
            if not cs or 'co' not in self.feat:
                return [p + 'x = ' + self.expr()]
            out = [p + 'if d > 0:', p + '    c = f%d(x, d - 1)' % r.choice(cs), p + '    try:', p + '        c.send(None)']
            for _ in range(r.randrange(0, 3)):
                out += [p + '        ' + self.adv(), p + '        c.send(%d)' % r.randrange(5)]
            out += [p + '    except (StopIteration, ValueError):', p + '        x += 2', p + '    c.close()']
            return out
        raise AssertionError(c)

    def function(self, i, firstline_pad=0):
        kind = self.kinds[i]
        head = {'fn': 'def f%d(x, d):', 'gen': 'def f%d(x, d):', 'co': 'async def f%d(x, d):', 'agen': 'async def f%d(x, d):'}[kind] % i
        body = self.stmts(i, self.r.choice([1, 2, 2, 3]), 4, False, kind)
        if kind == 'gen':
            body = ['    yield x'] + body + ['    return x']
        elif kind == 'agen':
            # every step after the first suspends at least once inside the step (an inner await) before it yields
            body = ['    yield x', '    x = ((await Susp()) or 0) + x'] + body + ['    x = ((await Susp()) or 0) + x', '    yield x']
        elif kind == 'co':
            body = body + ['    return x']
        else:
            body = body + ['    return x']
        return [head] + body


def make_program(rnd, features, threads=False):
    """features: subset of {'rec','mutual','gen','co','twins','twinfile','rereg','selfdisable','lambda'}"""
    n = rnd.randrange(2, 6)
    g = Gen(rnd, n, features)
    for i in range(n):
        k = 'fn'
        q = rnd.random()
        if 'gen' in features and q < 0.25:
            k = 'gen'
        elif 'co' in features and q < (0.8 if 'cotasks' in features else 0.35):
            k = 'co'
        if 'agen' in features and rnd.random() < 0.6:
            k = 'agen'
        g.kinds[i] = k
    g.kinds[0] = 'fn'
    oneline = set()
    if 'oneline' in features:
        # functions whose whole body sits on the def line (and lambdas): one line entry only
        for i in range(1, n):
            if g.kinds[i] == 'fn' and rnd.random() < 0.6:
                oneline.add(i)
    lines = ['# generated'] + PRELUDE.strip('\n').split('\n') + ['']
    funcs = {}
    for i in range(n):
        fl = g.function(i)
        if i in oneline:
            fl = [rnd.choice(['def f%d(x, d): return x * 2 + %d' % (i, rnd.randrange(5)),
                              'f%d = lambda x, d: x + %d' % (i, rnd.randrange(5)),
                              'def f%d(x, d): A(%d); return x' % (i, rnd.choice([1, 10, 200]))])]
        funcs[i] = fl
        lines += fl + ['']
    names = ['f%d' % i for i in range(n)]
    kinds = {('f%d' % i): g.kinds[i] for i in range(n)}
    files = []
    twin_of = {}
    # byte-identical twins: same body, other name, placed further down (different lines) ...
    if 'twins' in features:
        for _ in range(rnd.randrange(1, 3)):
            i = rnd.randrange(n)
            nm = 't%d_%d' % (i, len(twin_of))
            fl = list(funcs[i])
            fl[0] = fl[0].replace('f%d(' % i, nm + '(', 1)
            # recursive references keep pointing at f<i>: replace to keep bytecode identical is impossible
            # (names differ) unless the body does not call itself
            if ('f%d(' % i) in '\n'.join(fl[1:]):
                continue
            lines += fl + ['']
            names.append(nm)
            kinds[nm] = g.kinds[i]
            twin_of[nm] = 'f%d' % i
    # thin delegating wrappers: three or four functions whose bytecode is byte-identical (only co_names differ), each
    # calling the next - several duplicates of ONE bytecode registered together and active at the same time
    delegs = []
    if 'delegators' in features:
        nd = rnd.randrange(3, 5)
        adv = rnd.choice([1, 3, 10, 50])
        for j in range(nd):
            nxt = 'w%d' % (j + 1) if j + 1 < nd else 'f0'
            lines += ['def w%d(x, d):' % j, '    A(%d)' % adv, '    return %s(x + 1, d)' % nxt, '']
            names.append('w%d' % j)
            kinds['w%d' % j] = 'fn'
            delegs.append('w%d' % j)
    main_file = 'main.py'
    # ... or in another file at the very same line numbers
    if 'twinfile' in features:
        i = rnd.randrange(n)
        if ('f%d(' % i) not in '\n'.join(funcs[i][1:]):
            start = None
            for k, l in enumerate(lines):
                if l == funcs[i][0]:
                    start = k
            nm = 'u%d' % i
            fl = list(funcs[i])
            # the twin keeps the NAME f<i> in its own file (value-equal code object up to the file name);
            # the driver executes that file in its own namespace and binds it as u<i> for main()
            shift = 0 if 'twindeco' in features else rnd.choice([0, 0, 1, 3])
            pre = ['# twin file'] + PRELUDE.strip('\n').split('\n')
            other = pre + [''] * (start - len(pre) + shift) + fl + ['']
            files.append(('twin.py', '\n'.join(other) + '\n'))
            names.append(nm)
            kinds[nm] = g.kinds[i]
            twin_of[nm] = 'f%d' % i
    # ---- the driver function ---------------------------------------------------
    m = ['def main(P):', '    prof = P.prof']
    callable_names = list(names)
    registered = []
    decorated = []

    def call_stmt(nm, ind='    '):
        k = kinds[nm]
        a = '%d, %d' % (rnd.randrange(0, 12), rnd.randrange(0, 4))
        tgt = 'P.fn(%r)' % nm
        if k == 'fn':
            return [ind + 'try:', ind + '    %s(%s)' % (tgt, a), ind + 'except ValueError:', ind + '    pass']
        if k == 'gen':
            form = rnd.randrange(3)
            if form == 0:
                return [ind + 'try:', ind + '    for v in %s(%s):' % (tgt, a), ind + '        A(4)', ind + 'except ValueError:', ind + '    pass']
            if form == 1:
                return [ind + 'try:', ind + '    g = %s(%s)' % (tgt, a), ind + '    next(g)', ind + '    g.send(2)', ind + '    del g',
                        ind + 'except (ValueError, StopIteration):', ind + '    pass']
            return [ind + 'try:', ind + '    g1 = %s(%s)' % (tgt, a), ind + '    g2 = %s(%s)' % (tgt, a), ind + '    next(g1)', ind + '    next(g2)',
                    ind + '    next(g1)', ind + '    next(g2)', ind + '    g1.close()', ind + 'except (ValueError, StopIteration):', ind + '    pass']
        if k == 'agen':
            # two async generators alive at once on one thread, their steps (asend) driven by hand like two tasks: a step
            # may suspend in an inner await, and the step that started first may finish first while the other is still
            # suspended mid-step (non-LIFO)
            ags = [x for x in names if kinds[x] == 'agen']
            nm2 = rnd.choice(ags)
            b = '%d, %d' % (rnd.randrange(0, 12), rnd.randrange(0, 4))
            order = rnd.choice(['(0, 1)', '(1, 0)', '(0, 1, 0)', '(0, 0, 1)'])
            return [ind + 'ags = [%s(%s), P.fn(%r)(%s)]' % (tgt, a, nm2, b), ind + 'steps = [None, None]',
                    ind + 'for rnd_ in range(%d):' % rnd.randrange(2, 8), ind + '    for i_ in %s:' % order,
                    ind + '        if ags[i_] is None:', ind + '            continue', ind + '        try:',
                    ind + '            if steps[i_] is None:', ind + '                steps[i_] = ags[i_].asend(None if rnd_ == 0 else rnd_)',
                    ind + '                steps[i_].send(None)', ind + '            else:', ind + '                steps[i_].send(rnd_)',
                    ind + '            A(%d)' % rnd.choice([1, 5, 30]), ind + '        except StopIteration:', ind + '            steps[i_] = None',
                    ind + '        except (StopAsyncIteration, ValueError):', ind + '            ags[i_] = None', ind + '            steps[i_] = None',
                    ind + 'for i_ in (0, 1):', ind + '    try:', ind + '        for _k in range(60):', ind + '            if steps[i_] is None:',
                    ind + '                break', ind + '            steps[i_].send(None)',
                    ind + '    except (StopIteration, StopAsyncIteration, ValueError, RuntimeError):', ind + '        pass',
                    ind + '    if ags[i_] is not None:', ind + '        try:', ind + '            c_ = ags[i_].aclose()', ind + '            for _k in range(60):',
                    ind + '                c_.send(None)', ind + '        except (StopIteration, StopAsyncIteration, ValueError, RuntimeError):', ind + '            pass',
                    ind + 'del ags, steps']
        if k == 'co' and 'asyncio' in features and rnd.random() < 0.6:
            # the same coroutines as tasks of a real event loop: every task runs in its own copy of the context
            cos = [x for x in names if kinds[x] == 'co']
            calls = ['P.fn(%r)(%d, %d)' % (rnd.choice(cos), rnd.randrange(0, 12), rnd.randrange(0, 4)) for _ in range(rnd.randrange(2, 4))]
            calls[0] = '%s(%s)' % (tgt, a)
            return [ind + 'import asyncio', ind + 'async def _grp():',
                    ind + '    return await asyncio.gather(%s, return_exceptions=True)' % ', '.join(calls),
                    ind + 'asyncio.run(_grp())']
        if k == 'co' and 'cotasks' in features and rnd.random() < 0.6:
            # two coroutines alive at once on one thread, stepped like tasks of an event loop: the one started first
            # may finish first while the other is still suspended
            cos = [x for x in names if kinds[x] == 'co']
            nm2 = rnd.choice(cos)
            b = '%d, %d' % (rnd.randrange(0, 12), rnd.randrange(0, 4))
            out = [ind + 'c1 = %s(%s)' % (tgt, a), ind + 'c2 = P.fn(%r)(%s)' % (nm2, b), ind + 'live = [c1, c2]',
                   ind + 'for rnd_ in range(%d):' % rnd.randrange(2, 7), ind + '    for c in list(live):', ind + '        try:',
                   ind + '            c.send(None if rnd_ == 0 else rnd_)', ind + '            A(%d)' % rnd.choice([1, 5, 30]),
                   ind + '        except (ValueError, StopIteration):', ind + '            live.remove(c)',
                   ind + 'for c in live:', ind + '    c.close()']
            return out
        if k == 'co':
            return [ind + 'try:', ind + '    c = %s(%s)' % (tgt, a), ind + '    c.send(None)', ind + '    A(30)', ind + '    c.send(1)', ind + '    c.send(2)',
                    ind + 'except (ValueError, StopIteration):', ind + '    pass', ind + 'c.close()']
        raise AssertionError(k)

    nreg = rnd.randrange(1, len(names) + 1)
    regnames = rnd.sample(names, nreg)
    regnames += [x for x in delegs if x not in regnames]
    if 'twindeco' in features:
        # a same-name, same-line copy in another file and its original, both registered through the decorator
        regnames += [x for pair in twin_of.items() for x in pair if x not in regnames]
    regnames += [x for x in names if kinds[x] == 'agen' and x not in regnames]
    if 'addmod' in features:
        # register through add_module: the functions of each file as one module object
        main_names = [x for x in regnames if not x.startswith('u')]
        twin_names = [x for x in names if x.startswith('u')]
        if main_names:
            m.append('    P.addmod(%r)' % (main_names,))
        if twin_names:
            m.append('    P.addmod(%r)' % (twin_names,))
        registered += main_names + twin_names
        regnames = []
    if 'regmodes' in features:
        # every registration entry point: add_function, the decorator, add_module (functions and classes, one
        # module holding functions of several files), and the auto-profiling hook (functions and classes)
        pool = list(dict.fromkeys(regnames + [x for x in names if x.startswith('u')]))
        rnd.shuffle(pool)
        while pool:
            k = rnd.randrange(1, min(3, len(pool)) + 1)
            grp, pool = pool[:k], pool[k:]
            how = rnd.choice(['reg', 'addmod', 'addcls', 'regimp', 'regimp', 'regimpcls'])
            if how == 'reg':
                m += ['    P.reg(%r)' % x for x in grp]
            elif how == 'addmod':
                m.append('    P.addmod(%r)' % (grp,))
            elif how == 'addcls':
                m.append('    P.addcls(%r)' % (grp,))
            elif how == 'regimp':
                m.append('    P.regimp(%r)' % (grp,))
            else:
                m.append('    P.regimp(%r, True)' % (grp,))
            registered += grp
        regnames = []
    for nm in regnames:
        if (rnd.random() < 0.5 or 'bare' in features) and not ('cotasks' in features and kinds[nm] == 'co') \
                and not (kinds[nm] == 'agen' and rnd.random() < 0.8) \
                and not ('twindeco' in features and (nm in twin_of or nm in twin_of.values())):
            m.append('    P.reg(%r)' % nm)
            registered.append(nm)
        else:
            m.append('    P.deco(%r)' % nm)
            decorated.append(nm)
    snapcall = (lambda: 'P.snap(%d)' % rnd.randrange(3)) if 'snapmodes' in features else (lambda: 'P.snap()')
    phases = rnd.randrange(1, 4)
    for ph in range(phases):
        style = rnd.choice([2, 2, 0, 1]) if 'agen' in features else rnd.randrange(3)
        body = []
        if 'agen' in features and ph == 0:
            body += call_stmt(rnd.choice([x for x in names if kinds[x] == 'agen'] or names), '        ' if style == 0 else '    ')
        if delegs and ph == 0:
            body += call_stmt(delegs[0], '        ' if style == 0 else '    ')
        for _ in range(rnd.randrange(1, 4)):
            body += call_stmt(rnd.choice(names), '        ' if style == 0 else '    ')
            if rnd.random() < 0.3:
                body.append(('        ' if style == 0 else '    ') + snapcall())
        if 'bare' in features and style == 2:
            # a window opened with the plain enable()/disable() pair (no counting)
            m += ['    P.bare_on()'] + body + ['    ' + snapcall(), '    P.bare_off()']
        elif style == 0:
            m += ['    with prof:'] + body
        elif style == 1:
            m += ['    prof.enable_by_count()'] + body + ['    prof.disable_by_count()']
        else:
            m += body            # only decorated functions are profiled here
        m.append('    ' + snapcall())
        gens_ = [x for x in names if kinds[x] == 'gen']
        if 'straddle' in features and gens_:
            nm = rnd.choice(gens_)
            a = '%d, %d' % (rnd.randrange(0, 12), rnd.randrange(0, 4))
            m += ['    with prof:', '        sg = P.fn(%r)(%s)' % (nm, a), '        try:', '            next(sg)',
                  '        except (StopIteration, ValueError):', '            pass',
                  '    try:', '        next(sg)', '        sg.send(1)', '    except (StopIteration, ValueError):', '        pass',
                  '    with prof:', '        try:', '            next(sg)', '        except (StopIteration, ValueError):', '            pass',
                  '    try:', '        next(sg)', '    except (StopIteration, ValueError):', '        pass', '    del sg', '    P.snap()']
        if 'rereg' in features and rnd.random() < 0.6:
            nm = rnd.choice(names)
            m.append('    P.reg(%r)' % nm if rnd.random() < 0.5 else '    P.deco(%r)' % nm)
            if rnd.random() < 0.5:
                m += ['    with prof:'] + call_stmt(rnd.choice(names), '        ')
            m.append('    P.snap()')
    if 'regmodes' in features:
        m += ['    P.unwind()', '    P.snap()']
    if threads:
        m = ['def main(P):', '    prof = P.prof']
        for nm in rnd.sample(names, rnd.randrange(1, len(names) + 1)):
            m.append('    P.reg(%r)' % nm)
        nthreads = rnd.randrange(2, 5)
        m.append('    def work(k):')
        m.append('        if k != 0:')
        m.append('            prof.enable_by_count()')
        for _ in range(rnd.randrange(1, 4)):
            m += call_stmt(rnd.choice([x for x in names if kinds[x] in ('fn', 'gen')]), '        ')
            m.append('        P.yield_()')
            if 'monitor' in features:
                m.append('        if k == 0:')
                m.append('            P.peek(%d)' % rnd.randrange(2))
        m.append('        if k != 0:')
        m.append('            prof.disable_by_count()')
        m.append('        P.note_count(k)')
        m.append('    P.run_threads(work, %d)' % nthreads)
        m.append('    P.snap()')
    lines += m + ['']
    files.insert(0, (main_file, '\n'.join(lines) + '\n'))
    out = dict(files=files, names=names, kinds=kinds, twin_of=twin_of, threads=threads, features=sorted(features))
    if threads and 'baton' in features:
        out['sched'] = rnd.randrange(1 << 30)
    return out


FEATURE_SETS = [
    {'gen', 'straddle'}, {'selfdisable'}, {'selfdisable', 'gen'}, {'twinfile', 'addmod'},
    {'rec'}, {'gen'}, {'gen', 'rec'}, {'co'}, {'gen', 'co', 'rec', 'mutual'}, {'twins'}, {'twinfile'}, {'twins', 'twinfile', 'gen'},
    {'rereg'}, {'rereg', 'twins'}, set(), {'mutual', 'rec'},
]
# round 2: the glue around the tracer (registration entry points, reading methods, reads from inside running code,
# plain enable/disable windows, long-running lines, one-line functions)
FEATURE_SETS_GLUE = [
    {'twinfile', 'regmodes'}, {'regmodes', 'gen'}, {'twinfile', 'regmodes', 'twins'}, {'snapinside', 'snapmodes'},
    {'snapinside', 'snapmodes', 'gen', 'rec'}, {'bare', 'snapmodes'}, {'bare', 'gen'}, {'bigtime'}, {'bigtime', 'gen'},
    {'oneline'}, {'oneline', 'regmodes'}, {'snapmodes', 'co'},
]
