"""Implementation side of C10: write the generated source files, call the REAL
line_profiler.line_profiler.show_text for every option combination, and report what the
environment (os.path.exists + linecache + inspect.getblock) delivers for every stats key.

Cases are run in payload order in ONE process; consecutive cases may share `dir` and rewrite the
same paths with different contents (multi-step histories: report, edit the file, report again) -
a rewritten file gets a strictly larger mtime, as an edit by a person would.

payload: {tmp, cases: [{dir, files: {abs path: text}, cells: {ipython cell name: text}, stats: [[fn, lineno, name, [[l, h, t], ...]], ...]
                        (dict insertion order), unit, output_unit, combos: [[strip, sort, summarize, details], ...]}]}
"""
import inspect
import io
import linecache
import os
import shutil
import sys

from harness.drivers.common import read_payload, emit


def register_cells(cells):
    """Exactly what IPython's CachingCompiler.cache does for the source of a cell."""
    for name, text in cells.items():
        if text is None:        # a cell name whose source is not (no longer) cached: e.g. statistics loaded in another process
            linecache.cache.pop(name, None)
            continue
        linecache.cache[name] = (len(text), None, [line + '\n' for line in text.splitlines()], name)


def observe_env(fn, start, cells):
    """What show_func's source lookup sees (the model takes this as its `env` input)."""
    if fn in cells:
        from line_profiler.line_profiler import is_ipython_kernel_cell
        register_cells(cells)
        try:
            sub = inspect.getblock(linecache.getlines(fn)[start - 1:])
        except Exception as e:  # noqa
            return dict(found=True, kind='cell', sub=None, err=type(e).__name__)
        return dict(found=True, kind='cell', sub=list(sub), is_cell=bool(is_ipython_kernel_cell(fn)),
                    exists=os.path.exists(fn))
    if not os.path.exists(fn):
        return dict(found=False, sub=None)
    linecache.clearcache()
    all_lines = linecache.getlines(fn)
    try:
        sub = inspect.getblock(all_lines[start - 1:])
    except Exception as e:  # noqa
        return dict(found=True, sub=None, err=type(e).__name__)
    return dict(found=True, sub=list(sub))


_WRITES = {}
_FIRST = {}


def write_file(path, text):
    """Rewrites of one path within the process alternate between a clearly later modification time and EXACTLY the
    modification time of the first version (cp -p, rsync -t, a coarse file-system clock): what a report shows must
    follow the content of the file, whatever its time stamp says."""
    with open(path, 'w', encoding='utf-8', newline='') as f:
        f.write(text)
    n = _WRITES.get(path, 0)
    _WRITES[path] = n + 1
    st = os.stat(path)
    if not n:
        _FIRST[path] = st.st_mtime_ns
    elif n % 2:
        os.utime(path, ns=(st.st_atime_ns, _FIRST[path]))
    else:
        os.utime(path, ns=(st.st_atime_ns, st.st_mtime_ns + n * 5_000_000_000))


def report(entry, stats, unit, output_unit, combo, stream, d):
    """One report through one of the entry points that print statistics held in memory / in a file:
    show_text(timings, unit, ...); LineProfiler.print_stats() of a profiler whose get_stats() returns
    LineStats(timings, unit) (a subclass serving merged / rescaled / loaded statistics); the viewer
    main() (`python -m line_profiler -u U [-z] [-t] [-m] FILE`) on the pickled LineStats."""
    import contextlib
    import pickle
    from line_profiler import line_profiler as LP
    from line_profiler._line_profiler import LineStats
    strip, sort, summ, det = combo
    if entry == 'show_text':
        LP.show_text(stats, unit, output_unit=output_unit, stream=stream,
                     stripzeros=strip, sort=sort, summarize=summ, details=det)
    elif entry == 'print_stats':
        class StatsServingProfiler(LP.LineProfiler):
            def get_stats(self):
                return LineStats(dict(stats), unit)
        StatsServingProfiler().print_stats(stream=stream, output_unit=output_unit, stripzeros=strip,
                                           details=det, summarize=summ, sort=sort)
    elif entry == 'viewer':
        assert det and output_unit is not None
        path = os.path.join(d, 'synthetic.lprof')
        with open(path, 'wb') as f:
            pickle.dump(LineStats(dict(stats), unit), f, pickle.HIGHEST_PROTOCOL)
        argv = ['line_profiler', '-u', repr(float(output_unit))] + [a for a, on in (('-z', strip), ('-t', sort), ('-m', summ)) if on] + [path]
        old = sys.argv
        sys.argv = argv
        try:
            with contextlib.redirect_stdout(stream):
                LP.main()
        finally:
            sys.argv = old
    else:
        raise ValueError(entry)


def main():
    payload = read_payload()
    from line_profiler.line_profiler import show_text  # noqa
    tmp = os.path.realpath(payload['tmp'])
    out = []
    for case in payload['cases']:
        d = os.path.realpath(case['dir'])
        assert d.startswith(tmp + os.sep), d
        os.makedirs(d, exist_ok=True)
        try:
            for path, text in case['files'].items():
                assert os.path.realpath(path).startswith(d + os.sep), path
                write_file(path, text)
            stats = {}
            for fn, lineno, name, tm in case['stats']:
                stats[(fn, lineno, name)] = [tuple(t) for t in tm]
            cells = case.get('cells') or {}
            envs = [observe_env(fn, lineno, cells) for fn, lineno, name, tm in case['stats']]
            texts = []
            enc = case.get('encoding')
            for strip, sort, summ, det in case['combos']:
                # the stream: io.StringIO, or a text stream with a strict encoding that may not be able
                # to encode every source line
                buf = io.BytesIO()
                stream = io.TextIOWrapper(buf, encoding=enc, newline='') if enc else io.StringIO()
                value = (lambda: (stream.flush(), buf.getvalue().decode(enc))[1]) if enc else stream.getvalue
                linecache.clearcache()
                register_cells(cells)       # every report starts with the cells' sources cached
                try:
                    report(case.get('entry') or 'show_text', stats, case['unit'], case['output_unit'],
                           (strip, sort, summ, det), stream, d)
                    texts.append(dict(text=value(), err=None))
                except (Exception, SystemExit) as e:  # noqa
                    try:
                        partial = value()
                    except Exception:  # noqa
                        partial = ''
                    texts.append(dict(text=partial, err=type(e).__name__))
            out.append(dict(env=envs, texts=texts))
        finally:
            shutil.rmtree(d, ignore_errors=True)
            linecache.clearcache()
    emit(dict(cases=out))


if __name__ == '__main__':
    main()
