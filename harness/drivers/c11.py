"""Implementation side of C11: produce every output channel's text from ONE
snapshot and hand the raw texts back (parsing happens in the harness).

Case kinds
  live       in-process profiling session over generated source files (non-ASCII
             names allowed): live print_stats, dump_stats/load_stats, the viewer
             CLI (line_profiler.main in-process and `python -m line_profiler`
             subprocess), GlobalProfiler.show for any write_config/show_config
  synthetic  the same channels over a profiler whose get_stats() returns a given
             LineStats (magnitudes up to 1e18), plus pickle.dump -> load_stats
  kernprof   a real `python -m kernprof -l [-v] [-u U] [-z] [-r]` subprocess whose
             script records the live snapshot as its last statement; then viewer
             subprocesses on the file it wrote
  explicit   a real script using `from line_profiler import profile` with the
             atexit path of GlobalProfiler.show, in a subprocess; with
             `ascii_locale` the child runs under LC_ALL=C, PYTHONUTF8=0,
             PYTHONCOERCECLOCALE=0 (non-UTF-8 preferred encoding)
  history    several LineProfiler objects and foreign writers share output paths;
             after every dump_stats the file is loaded back
`ref` texts are show_text applied directly to the snapshot with the options the
MODEL says the channel passes (computed by the harness, sent in the payload)."""
import contextlib
import glob
import importlib.util
import io
import json
import os
import pickle
import shutil
import subprocess
import sys
import tempfile

from harness.drivers.common import read_payload, emit

PY = sys.executable


def snap_json(ls):
    return dict(timings=[[list(k), [list(r) for r in v]] for k, v in ls.timings.items()],
                unit=float(ls.unit).hex())


def kw_of(o):
    """model opts dict -> show_text / print_stats keyword arguments"""
    kw = dict(stripzeros=o['strip'], details=o['details'], summarize=o['summarize'], sort=o['sort'], rich=o['rich'])
    kw['output_unit'] = None if o['unit'] is None else float(o['unit'])
    return kw


def ref_text(ls, o):
    from line_profiler.line_profiler import show_text
    st = io.StringIO()
    show_text(ls.timings, ls.unit, stream=st, **kw_of(o))
    return st.getvalue()


def write_sources(d, files):
    """files: [{fname, funcs:[{name, body_lines}]}] -> {fname: (path, {func: first line})}"""
    info = {}
    for f in files:
        path = os.path.join(d, f['fname'])
        os.makedirs(os.path.dirname(path), exist_ok=True)
        lines = []
        starts = {}
        for fn in f['funcs']:
            starts[fn['name']] = len(lines) + 1
            lines.append('def %s(n):' % fn['name'])
            lines.append('    s = 0')
            lines.append('    for i in range(n):')
            lines.append('        s += i * %d' % fn.get('k', 1))
            if fn.get('extra'):
                lines.append('    s = s + %d  # %s' % (fn.get('k', 1), fn['extra']))
            lines.append('    return s + %d' % fn.get('k', 1))
            lines.append('')
        with open(path, 'w', encoding='utf-8') as fh:
            fh.write('\n'.join(lines) + '\n')
        info[f['fname']] = (path, starts)
    return info


def load_module(path, name):
    spec = importlib.util.spec_from_file_location(name, path)
    mod = importlib.util.module_from_spec(spec)
    spec.loader.exec_module(mod)
    return mod


def viewer_argv(a, fname):
    argv = []
    if a['u'] is not None:
        argv += ['-u', a['u']]
    for flag, k in (('-z', 'z'), ('-r', 'r'), ('-t', 't'), ('-m', 'm')):
        if a[k]:
            argv.append(flag)
    return argv + [fname]


def run_viewer_inproc(a, fname):
    from line_profiler import line_profiler as LP
    old = sys.argv
    sys.argv = ['line_profiler'] + viewer_argv(a, fname)
    buf = io.StringIO()
    try:
        with contextlib.redirect_stdout(buf):
            LP.main()
    finally:
        sys.argv = old
    return buf.getvalue()


def run_viewer_sub(a, fname, cwd):
    p = subprocess.run([PY, '-m', 'line_profiler'] + viewer_argv(a, fname), cwd=cwd, env=os.environ.copy(),
                       stdout=subprocess.PIPE, stderr=subprocess.PIPE, timeout=300)
    return p.stdout.decode('utf-8', 'replace'), p.returncode, p.stderr.decode('utf-8', 'replace')[-500:]


def channels_of_profiler(prof, c, d, out):
    """All in-process channels of one profiler object.  `out` collects
    dict(chan=<descriptor>, text=..., ref_opts=...)."""
    from line_profiler.line_profiler import load_stats
    from line_profiler.explicit_profiler import GlobalProfiler
    loaded = []
    # live print_stats
    for o in c.get('live', []):
        st = io.StringIO()
        try:
            prof.print_stats(stream=st, **{k: v for k, v in kw_of(o['opts']).items()})
            text = st.getvalue()
        except Exception as e:  # noqa
            text = 'CHANNEL-RAISED %s: %s\n%s' % (type(e).__name__, e, st.getvalue())
        out.append(dict(chan=o['chan'], text=text, ref_opts=o['ref_opts']))
    # dump_stats -> load_stats
    lprof = os.path.join(d, c.get('lprof_name', 'out.lprof'))
    prof.dump_stats(lprof)
    loaded.append(snap_json(load_stats(lprof)))
    # viewer CLI on that file
    for a in c.get('viewer', []):
        if a.get('sub'):
            text, rc, err = run_viewer_sub(a, lprof, d)
            if rc != 0:
                text = 'VIEWER-FAILED rc=%s %s' % (rc, err)
        else:
            try:
                text = run_viewer_inproc(a, lprof)
            except Exception as e:  # noqa
                text = 'CHANNEL-RAISED %s: %s' % (type(e).__name__, e)
        out.append(dict(chan=a['chan'], text=text, ref_opts=a['ref_opts']))
    # explicit profiler: GlobalProfiler.show over this very profiler
    for k, e in enumerate(c.get('explicit', [])):
        gp = GlobalProfiler()
        gp._profile = prof
        gp.enabled = True
        prefix = os.path.join(d, 'expl%d_%s' % (k, e.get('prefix', 'out')))
        gp.output_prefix = prefix
        gp.write_config = dict(e['wc'])
        gp.show_config = dict(e['sc'])
        buf = io.StringIO()
        raised = None
        try:
            with contextlib.redirect_stdout(buf):
                gp.show()
        except Exception as ex:  # noqa
            raised = '%s: %s' % (type(ex).__name__, ex)
        so = buf.getvalue()
        # stdout = [print_stats text] + 'Wrote profile results to ...' lines etc.
        msgs = [l for l in so.splitlines() if l.startswith(('Wrote profile results to ', 'To view details run:'))
                or ' -m line_profiler -rtmz ' in l]
        res = dict(wc=e['wc'], msgs=len(msgs), raised=raised)
        if e['wc']['stdout']:
            cut = so.find('Wrote profile results to ')
            out.append(dict(chan=e['chan_stdout'], text=so if cut < 0 else so[:cut], ref_opts=e['ref_stdout'],
                            explicit=k))
        else:
            res['stdout_silent'] = not any(l.startswith('Timer unit') for l in so.splitlines())
        txt = prefix + '.txt'
        ts = sorted(set(glob.glob(glob.escape(prefix) + '_*.txt')))
        res['txt_exists'] = os.path.exists(txt)
        res['ts_count'] = len(ts)
        res['lprof_exists'] = os.path.exists(prefix + '.lprof')
        if os.path.exists(txt):
            out.append(dict(chan=e['chan_text'], text=open(txt, encoding='utf-8').read(), ref_opts=e['ref_text'],
                            explicit=k, which='text'))
        for t in ts:
            out.append(dict(chan=e['chan_text'], text=open(t, encoding='utf-8').read(), ref_opts=e['ref_text'],
                            explicit=k, which='ts'))
        if os.path.exists(prefix + '.lprof'):
            loaded.append(snap_json(load_stats(prefix + '.lprof')))
        e['_res'] = res
    return loaded


def finish_refs(ls, out):
    for o in out:
        try:
            o['ref'] = ref_text(ls, o.pop('ref_opts'))
        except Exception as e:  # noqa
            o['ref'] = 'REF-FAILED %r' % (e,)


def case_live(c, root):
    from line_profiler import LineProfiler
    d = tempfile.mkdtemp(prefix='live_', dir=root)
    info = write_sources(d, c['files'])
    prof = LineProfiler()
    funcs = {}
    for k, f in enumerate(c['files']):
        if f.get('pseudo'):
            # no file at all: the source is compiled under a pseudo name ('<string>', '<frozen x>', ...)
            ns = {}
            exec(compile(open(info[f['fname']][0], encoding='utf-8').read(), f['pseudo'], 'exec'), ns)
            os.unlink(info[f['fname']][0])
            get = ns.__getitem__
        else:
            mod = load_module(info[f['fname']][0], 'c11mod_%d' % k)
            get = lambda nm, mod=mod: getattr(mod, nm)   # noqa
        for fn in f['funcs']:
            fobj = get(fn['name'])
            funcs[(k, fn['name'])] = fobj
            if fn.get('profiled', True):
                prof.add_function(fobj)
    prof.enable_by_count()
    try:
        for (k, name, n) in c['calls']:
            funcs[(k, name)](n)
    finally:
        prof.disable_by_count()
    ls = prof.get_stats()
    out = []
    loaded = channels_of_profiler(prof, c, d, out)
    after = prof.get_stats()
    finish_refs(ls, out)
    res = dict(snapshot=snap_json(ls), snapshot_after=snap_json(after), loaded=loaded, channels=out,
               explicit=[e.get('_res') for e in c.get('explicit', [])],
               starts={f: v[1] for f, v in info.items()}, paths={f: v[0] for f, v in info.items()})
    shutil.rmtree(d, ignore_errors=True)
    return res


def case_synthetic(c, root):
    from line_profiler import LineProfiler
    from line_profiler._line_profiler import LineStats
    from line_profiler.line_profiler import load_stats
    d = tempfile.mkdtemp(prefix='syn_', dir=root)
    info = write_sources(d, c['files'])
    timings = {}
    for e in c['timings']:
        fname = e['fname']
        if fname in info:
            path = info[fname][0]
            start = info[fname][1][e['func']]
        else:
            # does not exist: 'Could not find file' fallback; `raw` names ('<string>', ...) are used as they are
            path = fname if e.get('raw') else os.path.join(d, fname)
            start = e['start']
        timings[(path, start, e['func'])] = [(start + off, h, t) for (off, h, t) in e['rows']]
    unit = float(c['unit'])
    ls = LineStats(timings, unit)

    class FakeProfiler(LineProfiler):
        def get_stats(self):
            return LineStats(dict(timings), unit)

    prof = FakeProfiler()
    out = []
    loaded = channels_of_profiler(prof, c, d, out)
    # plain pickle.dump -> load_stats
    pk = os.path.join(d, 'plain.lprof')
    with open(pk, 'wb') as fh:
        pickle.dump(ls, fh, pickle.HIGHEST_PROTOCOL)
    loaded.append(snap_json(load_stats(pk)))
    finish_refs(ls, out)
    res = dict(snapshot=snap_json(ls), snapshot_after=snap_json(prof.get_stats()), loaded=loaded, channels=out,
               explicit=[e.get('_res') for e in c.get('explicit', [])])
    shutil.rmtree(d, ignore_errors=True)
    return res


SCRIPT_TAIL = r'''
import json as _json, io as _io
_p = %(prof_expr)s
_s = _p.get_stats()
with open(%(live)r, 'w') as _f:
    _json.dump(dict(timings=[[list(k), [list(r) for r in v]] for k, v in _s.timings.items()], unit=float(_s.unit).hex()), _f)
for _i, _kw in enumerate(%(live_kw)r):
    _st = _io.StringIO()
    _p.print_stats(stream=_st, **_kw)
    with open(%(live_txt)r %% _i, 'w', encoding='utf-8') as _f:
        _f.write(_st.getvalue())
'''


def read_live(path):
    from line_profiler._line_profiler import LineStats
    j = json.load(open(path))
    tim = {tuple(k): [tuple(r) for r in v] for k, v in j['timings']}
    return LineStats(tim, float.fromhex(j['unit'])), j


def case_kernprof(c, root):
    from line_profiler.line_profiler import load_stats
    d = tempfile.mkdtemp(prefix='kp_', dir=root)
    info = write_sources(d, c['files'])
    # the script: imports nothing of ours; the functions live in the script file itself
    f0 = c['files'][0]
    path = info[f0['fname']][0]
    src = open(path, encoding='utf-8').read()
    if c.get('decorate', True):
        src = src.replace('def ', '@profile\ndef ')
    calls = '\n'.join('%s(%d)' % (name, n) for (_k, name, n) in c['calls'])
    live = os.path.join(d, 'live.json')
    live_txt = os.path.join(d, 'live_%d.txt')
    tail = SCRIPT_TAIL % dict(prof_expr='profile', live=live, live_kw=[kw_of(o['opts']) for o in c.get('live', [])],
                              live_txt=live_txt)
    k = c['kernprof']
    head = ''
    if k.get('stdout_left'):
        # the program rebinds sys.stdout and ends without restoring it: 'tee' = an object of a helper module
        # (auto-profiled through -p, so its methods are registered) that forwards to the real stdout,
        # 'swallow' = a StringIO
        with open(os.path.join(d, 'c11teemod.py'), 'w') as fh:
            fh.write('import sys\nclass Tee:\n    def __init__(self):\n        self.n = 0\n    def write(self, s):\n'
                     '        self.n += 1\n        return sys.__stdout__.write(s)\n    def flush(self):\n        sys.__stdout__.flush()\n'
                     'def make():\n    t = Tee()\n    t.write("")\n    return t\n')
        head = 'import sys, io\nimport c11teemod\n_tee = c11teemod.make()\n'
        tail += ('\nsys.stdout = _tee\n' if k['stdout_left'] == 'tee' else '\nsys.stdout = io.StringIO()\n')
    with open(path, 'w', encoding='utf-8') as fh:
        fh.write(head + src + '\n' + calls + '\n' + tail)
    outfile = os.path.join(d, c.get('lprof_name', 'res.lprof'))
    argv = [PY, '-m', 'kernprof', '-l', '-o', outfile]
    if k.get('stdout_left'):
        argv += ['-p', 'c11teemod']
    if k['view']:
        argv.append('-v')
    if k['u'] is not None:
        argv += ['-u', k['u']]
    if k['z']:
        argv.append('-z')
    if k['r']:
        argv.append('-r')
    argv.append(path)
    p = subprocess.run(argv, cwd=d, env=os.environ.copy(), stdout=subprocess.PIPE, stderr=subprocess.PIPE, timeout=600)
    so = p.stdout.decode('utf-8', 'replace')
    res = dict(rc=p.returncode, stderr=p.stderr.decode('utf-8', 'replace')[-800:])
    if p.returncode != 0 or not os.path.exists(live):
        res['failed'] = so[-800:]
        shutil.rmtree(d, ignore_errors=True)
        return res
    ls, j = read_live(live)
    out = []
    first, _, rest = so.partition('\n')
    res['wrote_line'] = first
    if not first.startswith('Wrote profile results to '):
        rest = so                      # the announcement went to whatever the program left as sys.stdout
    if k['view']:
        out.append(dict(chan=k['chan'], text=rest, ref_opts=k['ref_opts']))
    else:
        res['noview_rest'] = rest
    for i, o in enumerate(c.get('live', [])):
        out.append(dict(chan=o['chan'], text=open(live_txt % i, encoding='utf-8').read(), ref_opts=o['ref_opts']))
    loaded = [snap_json(load_stats(outfile))]
    for a in c.get('viewer', []):
        text, rc, err = run_viewer_sub(a, outfile, d)
        if rc != 0:
            text = 'VIEWER-FAILED rc=%s %s' % (rc, err)
        out.append(dict(chan=a['chan'], text=text, ref_opts=a['ref_opts']))
    finish_refs(ls, out)
    res.update(snapshot=j, snapshot_after=j, loaded=loaded, channels=out, explicit=[])
    shutil.rmtree(d, ignore_errors=True)
    return res


def case_explicit(c, root):
    """`from line_profiler import profile` script, output through atexit."""
    from line_profiler.line_profiler import load_stats
    d = tempfile.mkdtemp(prefix='ex_', dir=root)
    info = write_sources(d, c['files'])
    f0 = c['files'][0]
    path = info[f0['fname']][0]
    e = c['explicit'][0]
    prefix = os.path.join(d, 'expl_' + e.get('prefix', 'out'))
    head = ('from line_profiler import profile\nprofile.enable(output_prefix=%r)\n'
            'profile.write_config.update(%r)\nprofile.show_config.update(%r)\n' % (prefix, e['wc'], e['sc']))
    nhead = head.count('\n')
    src = open(path, encoding='utf-8').read()
    if c.get('decorate', True):
        src = src.replace('def ', '@profile\ndef ')
    calls = '\n'.join('%s(%d)' % (name, n) for (_k, name, n) in c['calls'])
    live = os.path.join(d, 'live.json')
    tail = SCRIPT_TAIL % dict(prof_expr='profile._profile', live=live, live_kw=[], live_txt=os.path.join(d, 'l_%d.txt'))
    with open(path, 'w', encoding='utf-8') as fh:
        fh.write(head + src + '\n' + calls + '\n' + tail)
    env = os.environ.copy()
    env.pop('LINE_PROFILE', None)
    if c.get('ascii_locale'):
        # preferred encoding (what open() / Path.write_text use by default) is ASCII;
        # stdout stays UTF-8 so that the stdout channel is not the problem
        env.update(LC_ALL='C', LANG='C', PYTHONUTF8='0', PYTHONCOERCECLOCALE='0', PYTHONIOENCODING='utf-8')
    p = subprocess.run([PY, path], cwd=d, env=env, stdout=subprocess.PIPE, stderr=subprocess.PIPE, timeout=600)
    so = p.stdout.decode('utf-8', 'replace')
    res = dict(rc=p.returncode, stderr=p.stderr.decode('utf-8', 'replace')[-800:], nhead=nhead)
    if p.returncode != 0 or not os.path.exists(live):
        res['failed'] = so[-800:]
        shutil.rmtree(d, ignore_errors=True)
        return res
    ls, j = read_live(live)
    out = []
    loaded = []
    if e['wc']['stdout']:
        cut = so.find('Wrote profile results to ')
        out.append(dict(chan=e['chan_stdout'], text=so if cut < 0 else so[:cut], ref_opts=e['ref_stdout'], explicit=0))
    r = dict(wc=e['wc'], atexit_stderr=res['stderr'][-300:] if 'Error' in res['stderr'] else '')
    if not e['wc']['stdout']:
        r['stdout_silent'] = not any(l.startswith('Timer unit') for l in so.splitlines())
    txt = prefix + '.txt'
    ts = sorted(set(glob.glob(glob.escape(prefix) + '_*.txt')))
    r['txt_exists'] = os.path.exists(txt)
    r['ts_count'] = len(ts)
    r['lprof_exists'] = os.path.exists(prefix + '.lprof')
    if os.path.exists(txt):
        out.append(dict(chan=e['chan_text'], text=open(txt, encoding='utf-8').read(), ref_opts=e['ref_text'], explicit=0, which='text'))
    for t in ts:
        out.append(dict(chan=e['chan_text'], text=open(t, encoding='utf-8').read(), ref_opts=e['ref_text'], explicit=0, which='ts'))
    if os.path.exists(prefix + '.lprof'):
        loaded.append(snap_json(load_stats(prefix + '.lprof')))
        for a in c.get('viewer', []):
            text, rc, err = run_viewer_sub(a, prefix + '.lprof', d)
            if rc != 0:
                text = 'VIEWER-FAILED rc=%s %s' % (rc, err)
            out.append(dict(chan=a['chan'], text=text, ref_opts=a['ref_opts']))
    finish_refs(ls, out)
    res.update(snapshot=j, snapshot_after=j, loaded=loaded, channels=out, explicit=[r])
    shutil.rmtree(d, ignore_errors=True)
    return res


def case_history(c, root):
    """several profiler objects and foreign writers sharing output paths: after every
    dump_stats the file is loaded back and compared with that profiler's live get_stats()."""
    from line_profiler import LineProfiler
    from line_profiler._line_profiler import LineStats
    from line_profiler.line_profiler import load_stats
    d = tempfile.mkdtemp(prefix='hist_', dir=root)
    info = write_sources(d, c['files'])
    funcs = {}
    for k, f in enumerate(c['files']):
        mod = load_module(info[f['fname']][0], 'c11hist_%d' % k)
        for fn in f['funcs']:
            funcs[(k, fn['name'])] = getattr(mod, fn['name'])
    profs = []
    for reg in c['profilers']:
        p = LineProfiler()
        for (k, name) in reg:
            p.add_function(funcs[(k, name)])
        profs.append(p)
    cwd = os.getcwd()
    os.chdir(d)
    steps = []
    try:
        def path_of(i):
            return c['paths'][i]          # relative names resolve against d (the cwd)

        def try_load(pth):
            if not os.path.exists(pth):
                return None
            try:
                return snap_json(load_stats(pth))
            except Exception as e:  # noqa
                return dict(timings=[], unit=float(0).hex(), unloadable=repr(e))
        for st in c['steps']:
            op = st[0]
            if op == 'run':
                p = profs[st[1]]
                p.enable_by_count()
                try:
                    for (k, name, n) in st[2]:
                        funcs[(k, name)](n)
                finally:
                    p.disable_by_count()
                steps.append(dict(op='run'))
            elif op == 'dump':
                p = profs[st[1]]
                live = snap_json(p.get_stats())
                err = None
                try:
                    p.dump_stats(path_of(st[2]))
                except Exception as e:  # noqa
                    err = repr(e)
                steps.append(dict(op='dump', prof=st[1], file=st[2], live=live, live_after=snap_json(p.get_stats()),
                                  loaded=try_load(path_of(st[2])), err=err))
            elif op == 'sdump':
                # a profiler whose get_stats() returns the given statistics dumps through the real dump_stats
                tim = {(os.path.join(d, e['fname']), e['start'], e['func']): [tuple(r) for r in e['rows']] for e in st[2]}
                unit = float(st[3])

                class _Fixed(LineProfiler):
                    def get_stats(self, tim=tim, unit=unit):
                        return LineStats(dict(tim), unit)
                p = _Fixed()
                live = snap_json(p.get_stats())
                err = None
                try:
                    p.dump_stats(path_of(st[1]))
                except Exception as e:  # noqa
                    err = repr(e)
                pth = path_of(st[1])
                steps.append(dict(op='dump', prof=-1, file=st[1], live=live, live_after=live, loaded=try_load(pth), err=err,
                                  size=os.path.getsize(pth) if os.path.exists(pth) else -1))
            elif op in ('foreign', 'replace'):
                tim = {(os.path.join(d, e['fname']), e['start'], e['func']): [tuple(r) for r in e['rows']] for e in st[2]}
                ls = LineStats(tim, float(st[3]))
                target = path_of(st[1])
                tmpname = target + '.part' if op == 'replace' else target
                with open(tmpname, 'wb') as fh:
                    pickle.dump(ls, fh, pickle.HIGHEST_PROTOCOL)
                if op == 'replace':
                    os.replace(tmpname, target)
                steps.append(dict(op='foreign', file=st[1], snap=snap_json(ls)))
            elif op == 'delete':
                with contextlib.suppress(FileNotFoundError):
                    os.unlink(path_of(st[1]))
                steps.append(dict(op='delete', file=st[1]))
            elif op == 'load':
                steps.append(dict(op='load', file=st[1], loaded=try_load(path_of(st[1]))))
    finally:
        os.chdir(cwd)
        shutil.rmtree(d, ignore_errors=True)
    return dict(history=steps)


def main():
    payload = read_payload()
    root = tempfile.mkdtemp(prefix='c11_', dir=payload['tmp'])
    os.environ['COLUMNS'] = '1000'          # rich renders tables at terminal width; keep rows unwrapped
    res = []
    try:
        for c in payload['cases']:
            try:
                fn = dict(live=case_live, synthetic=case_synthetic, kernprof=case_kernprof, explicit=case_explicit,
                          history=case_history)[c['kind']]
                res.append(fn(c, root))
            except Exception as e:  # noqa
                import traceback
                res.append(dict(error=traceback.format_exc()[-1500:]))
    finally:
        shutil.rmtree(root, ignore_errors=True)
    emit(dict(cases=res))


if __name__ == '__main__':
    main()
