"""Implementation side of C08's behavioural tie: every generated program is run once with
plain `python` and once per configuration under `python -m kernprof -l -p ...` (both in
subprocesses that import the rebuilt implementation); stdout, exit status and the type of
the uncaught exception are returned for comparison."""
import os
import re
import shutil
import subprocess
import sys
from concurrent.futures import ThreadPoolExecutor

from harness.drivers.common import read_payload, emit

TRAILER = re.compile(r'^(Wrote profile results to .*|Inspect results with:|.* -m line_profiler -rmt ".*")$')
EXC = re.compile(r'^([A-Za-z_][\w.]*)(: .*)?$')


def exc_type(stderr):
    lines = [l for l in stderr.strip().splitlines() if l.strip()]
    # the last line of a traceback: `Type: message` or `Type`
    for l in reversed(lines[-3:]):
        m = EXC.match(l.strip())
        if m and not l.startswith(' '):
            return m.group(1).split('.')[-1]
    return None


def run(cmd, cwd):
    try:
        p = subprocess.run(cmd, cwd=cwd, env=dict(os.environ), stdout=subprocess.PIPE, stderr=subprocess.PIPE,
                           text=True, timeout=120)
    except subprocess.TimeoutExpired:
        return dict(rc=-999, out=[], exc='Timeout', err='timeout')
    out = p.stdout.splitlines()
    return dict(rc=p.returncode, out=out, exc=exc_type(p.stderr) if p.returncode != 0 else None,
                err=p.stderr[-500:])


def strip_trailer(lines):
    lines = list(lines)
    while lines and TRAILER.match(lines[-1]):
        lines.pop()
    return lines


def one(job):
    case, base = job
    res = {}
    if case.get('module'):
        tail = ['-m', case['module']]
    else:
        tail = [case['script']]
    res['plain'] = run([sys.executable] + tail, base)
    res['kern'] = []
    for cfg in case['configs']:
        r = run([sys.executable, '-m', 'kernprof', '-l', '-o', 'out.lprof'] + list(cfg) + tail, base)
        r['out'] = strip_trailer(r['out'])
        res['kern'].append(r)
    return res


def main():
    payload = read_payload()
    bases = []
    try:
        for case in payload['cases']:
            base = case['base']
            os.makedirs(base)
            bases.append(base)
            for rel, text in case['files'].items():
                p = os.path.join(base, rel)
                os.makedirs(os.path.dirname(p), exist_ok=True)
                with open(p, 'w', encoding='utf-8', newline='') as f:
                    f.write(text)
            for link, target in (case.get('symlinks') or {}).items():
                lp = os.path.join(base, link)
                os.makedirs(os.path.dirname(lp), exist_ok=True)
                os.symlink(os.path.relpath(os.path.join(base, target), os.path.dirname(lp)), lp)
        with ThreadPoolExecutor(max_workers=int(payload.get('workers', 8))) as ex:
            results = list(ex.map(one, zip(payload['cases'], bases)))
    finally:
        for b in bases:
            shutil.rmtree(b, ignore_errors=True)
    emit(dict(results=results))


if __name__ == '__main__':
    main()
