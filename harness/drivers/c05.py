"""Implementation side of C05: run by-count histories on the real LineProfiler /
kernprof.ContextualProfile, from the main thread and lock-stepped worker threads, and
record after every operation (and inside decorated bodies)
    [profiler.enable_count, sys.gettrace() code, sys.monitoring PROFILER_ID code].

History = list of [thread, cop]; cop (mirrors Wrap/CountInterp.v):
  ["p", "en"|"dis"]      enable_by_count() / disable_by_count()
  ["ctx", "en"|"dis"]    __enter__() / __exit__(None, None, None) called directly
  ["obs"]                observation from the executing thread
  ["raise"]              raise Boom
  ["seq", a, b]
  ["call", body]         decorated plain function whose body runs `body`
  ["with", body]         with profiler: body
  ["catch", body]        try: body except (Boom, SyntaxError): pass
  ["run", via, form, body]  via run|runctx|runcall; form str|code|empty|bad (bad: text that does not compile)
  ["foreign", "acquire"|"release"]  another party takes / frees sys.monitoring PROFILER_ID
  ["obj", name, slot, n] (gnew/gnewr: generator yielding n times then returning/raising) operations on wrapped generator / coroutine / async generator objects
"""
import queue
import sys
import threading

from harness.drivers.common import read_payload, emit

mon = sys.monitoring


class Boom(BaseException):   # not an Exception: `except Exception` must not be enough
    pass


class Suspend:
    def __await__(self):
        yield 'susp'


class Rig:
    """One profiler instance with its decorated callables."""

    def __init__(self, kind):
        self.kind = kind
        if kind == 'LP':
            from line_profiler import LineProfiler
            self.prof = LineProfiler()
            self.toolname = 'line_profiler'
        else:
            import kernprof
            self.prof = kernprof.ContextualProfile()
            self.toolname = 'cProfile'
        self.out = None
        self.slots = {}
        self.pending = []
        rig = self

        def call_body(body):
            rig.interp(body)

        # every body observes once per resume and once in its clean-up code (reached when
        # close() / throw() / the finalisation of a dropped object is forwarded into it)
        def gen_body(n, raises):
            try:
                for i in range(n):
                    rig.observe()
                    yield i
            except BaseException:
                rig.observe()
                if raises:
                    raise Boom()        # the clean-up code itself fails (close() / throw() / finalisation then raise it)
                raise
            rig.observe()
            if raises:
                raise Boom()

        async def co_body():
            rig.observe()
            try:
                await Suspend()
            except BaseException:
                rig.observe()
                raise
            rig.observe()

        async def ag_body():
            rig.observe()
            try:
                await Suspend()
                rig.observe()
                yield 1
            except BaseException:
                rig.observe()
                raise
            rig.observe()

        self.call_fn = self.prof(call_body)
        self.gen_fn = self.prof(gen_body)
        self.co_fn = self.prof(co_body)
        self.ag_fn = self.prof(ag_body)

    def observe(self):
        p = self.prof
        tr = sys.gettrace()
        tl = mon.get_tool(mon.PROFILER_ID)
        self.out.append(int(p.enable_count))
        self.out.append(0 if tr is None else (1 if tr is p else 2))
        self.out.append(0 if tl is None else (1 if tl == self.toolname else 2))

    def interp(self, c):
        k = c[0]
        p = self.prof
        if k == 'p':
            p.enable_by_count() if c[1] == 'en' else p.disable_by_count()
        elif k == 'ctx':
            p.__enter__() if c[1] == 'en' else p.__exit__(None, None, None)
        elif k == 'obs':
            self.observe()
        elif k == 'raise':
            raise Boom()
        elif k == 'seq':
            self.interp(c[1])
            self.interp(c[2])
        elif k == 'call':
            self.call_fn(c[1])
        elif k == 'with':
            with p:
                self.interp(c[1])
        elif k == 'catch':
            try:
                self.interp(c[1])
            except (Boom, SyntaxError):
                pass
        elif k == 'run':
            self.run_stmt(c[1], c[2], c[3])
        elif k == 'obj':
            self.obj(c[1], c[2], c[3] if len(c) > 3 else 0)
        elif k == 'foreign':
            # somebody else claims / gives back sys.monitoring's PROFILER_ID
            if c[1] == 'acquire':
                mon.use_tool_id(mon.PROFILER_ID, 'other')
            elif mon.get_tool(mon.PROFILER_ID) == 'other':
                mon.free_tool_id(mon.PROFILER_ID)
        else:
            raise RuntimeError('bad cop %r' % (c,))

    def run_stmt(self, via, form, body):
        """profiler.run(stmt) / .runctx(stmt, g, l) / .runcall(f, ...): the statement is a str or a
        code object that executes `body`, the empty statement, or text that does not compile."""
        import __main__
        p = self.prof
        if via == 'runcall':
            # keyword arguments named like parameters used inside the profiler must reach the callee
            def target(b, **kw):
                assert set(kw) == {'self', 'args', 'kw', 'kwds', 'cmd'}, kw
                self.interp(b)
            p.runcall(target, body, self=1, args=2, kw=3, kwds=4, cmd=5)
            return
        self.pending.append(body)
        text = {'str': '_c05_rig.interp(_c05_rig.pending.pop())', 'code': '_c05_rig.interp(_c05_rig.pending.pop())',
                'empty': '', 'bad': '_c05_rig.interp(_c05_rig.pending.pop()'}[form]
        cmd = compile(text, '<c05-statement>', 'exec') if form == 'code' else text
        try:
            if via == 'run':
                __main__.__dict__['_c05_rig'] = self
                p.run(cmd)
            else:
                p.runctx(cmd, {'_c05_rig': self}, {})
        finally:
            __main__.__dict__.pop('_c05_rig', None)
            if form in ('empty', 'bad') and self.pending:
                self.pending.pop()

    def obj(self, name, s, n):
        cur = self.slots.get(s)
        st = cur[0] if cur else None
        if name in ('gnew', 'gnewr'):
            if st is None:
                self.slots[s] = ['gen', self.gen_fn(n, name == 'gnewr'), n + 1]
        elif name == 'gnext':
            if st == 'gen':
                try:
                    next(cur[1])
                except (StopIteration, Boom):
                    pass
                cur[2] -= 1
                if cur[2] <= 0:
                    del self.slots[s]
        elif name in ('gclose', 'gthrow', 'gdrop'):
            if st == 'gen':
                g = cur[1]
                del self.slots[s]
                cur[1] = None
                if name == 'gclose':
                    try:
                        g.close()
                    except Boom:
                        pass
                elif name == 'gthrow':
                    try:
                        g.throw(Boom())
                    except Boom:
                        pass
                del g
        elif name == 'costart':
            if st is None:
                co = self.co_fn()
                r = co.send(None)
                assert r == 'susp'
                self.slots[s] = ['co', co]
        elif name == 'coresume':
            if st == 'co':
                del self.slots[s]
                try:
                    cur[1].send(None)
                except StopIteration:
                    pass
        elif name in ('coclose', 'cothrow', 'codrop'):
            if st == 'co':
                co = cur[1]
                del self.slots[s]
                cur[1] = None
                if name == 'coclose':
                    co.close()
                elif name == 'cothrow':
                    try:
                        co.throw(Boom())
                    except Boom:
                        pass
                del co
        elif name == 'agstart':
            if st is None:
                ag = self.ag_fn()
                x = ag.asend(None)
                r = x.send(None)
                assert r == 'susp'
                self.slots[s] = ['agmid', ag, x]
        elif name == 'agresume':
            if st == 'agmid':
                try:
                    cur[2].send(None)
                    raise RuntimeError('async generator step did not finish')
                except StopIteration as e:
                    assert e.value == 1
                self.slots[s] = ['agyield', cur[1]]
            elif st == 'agyield':
                del self.slots[s]
                x = cur[1].asend(None)
                try:
                    x.send(None)
                    raise RuntimeError('async generator did not end')
                except StopAsyncIteration:
                    pass
        elif name == 'agclose':
            if st == 'agmid':
                del self.slots[s]
                try:
                    cur[2].throw(Boom())
                except Boom:
                    pass
            elif st == 'agyield':
                del self.slots[s]
                x = cur[1].aclose()
                try:
                    x.send(None)
                except StopIteration:
                    pass
        else:
            raise RuntimeError('bad object op %r' % name)

    def top(self, c):
        """one top-level operation: an exception leaving it is caught by the caller"""
        try:
            self.interp(c)
        except (Boom, SyntaxError):
            pass
        except ValueError:
            self.out.append(-3)     # the tool id is taken: the operation raised


class Worker(threading.Thread):
    def __init__(self):
        super().__init__(daemon=True)
        self.q = queue.SimpleQueue()
        self.done = queue.SimpleQueue()

    def run(self):
        while True:
            fn = self.q.get()
            if fn is None:
                return
            try:
                fn()
                self.done.put(None)
            except BaseException as e:  # noqa
                self.done.put('%s: %s' % (type(e).__name__, e))

    def call(self, fn):
        self.q.put(fn)
        err = self.done.get(timeout=60)
        if err is not None:
            raise RuntimeError('worker: ' + err)


def force_clean(rig, workers):
    """Leave no profiler state behind, whatever the implementation did."""
    def drain():
        for _ in range(64):
            if rig.prof.enable_count <= 0:
                break
            rig.prof.disable_by_count()
        sys.settrace(None)
    for w in workers:
        try:
            w.call(drain)
        except Exception:
            pass
    drain()
    try:
        rig.prof.disable()
    except Exception:
        pass
    if mon.get_tool(mon.PROFILER_ID) is not None:
        mon.free_tool_id(mon.PROFILER_ID)


def run_case(rigs, case):
    kind, n, hist = case['kind'], case['n'], case['hist']
    rig = rigs.get(kind)
    if rig is None:
        rig = rigs[kind] = Rig(kind)
    rig.out = out = []
    rig.slots = {}
    workers = [Worker() for _ in range(n - 1)]
    for w in workers:
        w.start()
    err = None

    def on(t, fn):
        if t == 0:
            fn()
        else:
            workers[t - 1].call(fn)
    try:
        for t, c in hist:
            on(t, lambda c=c: rig.top(c))
            for u in range(n):
                on(u, rig.observe)
    except BaseException as e:  # noqa: an unexpected exception is an observation too
        out.append(-1)
        err = '%s: %s' % (type(e).__name__, e)
    rig.out = []      # clean-up code of leftover objects observes too: not part of the trace
    # cleanup: close what is still suspended (in the thread that owns it is not needed for
    # the check: the trace is complete), then verify nothing is left behind
    owners = case.get('owners', {})
    for s, cur in list(rig.slots.items()):
        t = int(owners.get(str(s), 0))
        def close(cur=cur):
            try:
                if cur[0] == 'agmid':
                    try:
                        cur[2].throw(Boom())
                    except Boom:
                        pass
                elif cur[0] == 'co':
                    cur[1].close()
                elif cur[0] == 'gen':
                    cur[1].close()
            except (Exception, Boom):
                pass
        try:
            on(t if t < n else 0, close)
        except (Exception, Boom):
            pass
    rig.slots = {}
    clean = True
    def chk():
        nonlocal clean
        if rig.prof.enable_count != 0 or sys.gettrace() is not None:
            clean = False
    try:
        for u in range(n):
            on(u, chk)
    except Exception:
        clean = False
    if mon.get_tool(mon.PROFILER_ID) is not None:
        clean = False
    if not clean or err:
        force_clean(rig, workers)
        rigs.pop(kind, None)
    for w in workers:
        w.q.put(None)
    for w in workers:
        w.join(timeout=10)
    return dict(out=out, err=err, clean=clean)


def main():
    payload = read_payload()
    rigs = {}
    res = []
    for case in payload['cases']:
        res.append(run_case(rigs, case))
    # compact: outputs as lists of ints
    emit(dict(outs=[r['out'] for r in res], errs=[r['err'] for r in res], clean=[r['clean'] for r in res]))


if __name__ == '__main__':
    main()
