"""Implementation side of C10, end-to-end sessions: the report as the two command lines print it.

For every session: write the script(s), run `python -m kernprof -l -v [-z] [-u U] -o out.lprof SCRIPT`
in the script's directory (report printed by the kernprof process itself), load the .lprof it wrote
(the recorded data both reports must agree with), then run the viewer `python -m line_profiler
[-u U] [-z] [-t] [-m] /abs/out.lprof` from ANOTHER working directory.  For either report the
environment (os.path.exists + linecache + inspect.getblock, relative names resolved against that
report's cwd) is observed here, in a fresh state, and handed to the model.

payload: {tmp, sessions: [{dir, view_cwd, files: {abs path: text}, script: name relative to dir,
                           kernprof_args: [...], viewer_args: [...]}]}
"""
import inspect
import linecache
import os
import shutil
import subprocess
import sys
from concurrent.futures import ThreadPoolExecutor

from harness.drivers.common import read_payload, emit


def observe_env(fn, start, cwd):
    path = fn if os.path.isabs(fn) else os.path.join(cwd, fn)
    if not os.path.exists(path):
        return dict(found=False, sub=None)
    linecache.clearcache()
    all_lines = linecache.getlines(path)
    try:
        sub = inspect.getblock(all_lines[start - 1:])
    except Exception as e:  # noqa
        return dict(found=True, sub=None, err=type(e).__name__)
    return dict(found=True, sub=list(sub))


def run(cmd, cwd, enc=None):
    """enc: the (strict) encoding of the command's stdout, as PYTHONIOENCODING sets it"""
    env = dict(os.environ)
    env['PYTHONIOENCODING'] = enc or 'utf-8'
    env.pop('COLUMNS', None)
    p = subprocess.run([sys.executable] + cmd, cwd=cwd, env=env, stdout=subprocess.PIPE, stderr=subprocess.PIPE, timeout=120)
    return dict(rc=p.returncode, out=p.stdout.decode(enc or 'utf-8', 'replace'), err=p.stderr.decode(enc or 'utf-8', 'replace')[-1500:])


def phase1(sess, tmp):
    """Write the files, run kernprof and the viewer (subprocesses; sessions overlap)."""
    from line_profiler import load_stats
    d = os.path.realpath(sess['dir'])
    v = os.path.realpath(sess['view_cwd'])
    assert d.startswith(tmp + os.sep) and v.startswith(tmp + os.sep), (d, v)
    os.makedirs(d, exist_ok=True)
    os.makedirs(v, exist_ok=True)
    for path, text in sess['files'].items():
        assert os.path.realpath(path).startswith(d + os.sep), path
        with open(path, 'w', encoding='utf-8', newline='') as f:
            f.write(text)
    lprof = os.path.join(d, 'out.lprof')
    k = run(['-m', 'kernprof', '-l', '-v'] + sess['kernprof_args'] + ['-o', 'out.lprof', sess['script']], d, sess.get('encoding'))
    res = dict(kernprof=k, stats=None, unit=None, viewer=None)
    if not os.path.exists(lprof):
        return res
    ls = load_stats(lprof)
    res['unit'] = ls.unit
    res['stats'] = [[fn, ln, name, [list(t) for t in tm]] for (fn, ln, name), tm in ls.timings.items()]
    res['types_ok'] = all(type(x) is int for _, _, _, tm in res['stats'] for t in tm for x in t)
    res['viewer'] = run(['-m', 'line_profiler'] + sess['viewer_args'] + [lprof], v, sess.get('encoding'))
    return res


def phase2(sess, res):
    """Observe the environment of either report (process-wide linecache: one session at a time)."""
    d = os.path.realpath(sess['dir'])
    v = os.path.realpath(sess['view_cwd'])
    try:
        if res['stats'] is not None:
            res['env_kernprof'] = [observe_env(fn, ln, d) for fn, ln, name, tm in res['stats']]
            res['env_viewer'] = [observe_env(fn, ln, v) for fn, ln, name, tm in res['stats']]
    finally:
        shutil.rmtree(d, ignore_errors=True)
        shutil.rmtree(v, ignore_errors=True)
    return res


def main():
    payload = read_payload()
    import kernprof
    tmp = os.path.realpath(payload['tmp'])
    with ThreadPoolExecutor(max_workers=6) as ex:
        firsts = list(ex.map(lambda s: phase1(s, tmp), payload['sessions']))
    out = [phase2(s, r) for s, r in zip(payload['sessions'], firsts)]
    emit(dict(sessions=out, kernprof_file=kernprof.__file__))


if __name__ == '__main__':
    main()
