"""Implementation side of C18: write generated directory trees to disk and run the
real util_static helpers, kernprof.find_module_script, importlib's PathFinder and
a real import on them.  Paths are reported relative to the scenario's base
directory as component lists."""
import importlib
import importlib.machinery
import io
import os
import shutil
import sys
import tempfile
import types

from harness.drivers.common import read_payload, emit


import contextlib


@contextlib.contextmanager
def native_neighbour(U, p):
    """A default listing is taken (a) next to a compiled extension module lying in the package and (b) right after a
    listing of the same package that asked for compiled modules too (with_libs=True): neither the file nor the earlier
    call may show in what the default listing yields (answers depend on the current tree and the arguments only)."""
    extra = None
    try:
        if os.path.isdir(p):
            extra = os.path.join(p, 'zz_native' + U._platform_pylib_exts()[0])
            with open(extra, 'w'):
                pass
            try:
                list(U.package_modpaths(p, with_libs=True))
            except Exception:  # noqa
                pass
        yield
    finally:
        if extra and os.path.exists(extra):
            os.unlink(extra)


def main():
    payload = read_payload()
    from line_profiler.autoprofile import util_static as U
    import kernprof
    tmp = payload['tmp']
    os.makedirs(tmp, exist_ok=True)
    top = tempfile.mkdtemp(prefix='c18_', dir=tmp)
    results = []
    cwd0 = os.getcwd()
    try:
        # an empty working directory: os.path.exists(<dotted name>) in the extractor is relative to it
        os.makedirs(os.path.join(top, 'cwd'))
        os.chdir(os.path.join(top, 'cwd'))
        base = None
        for k, sc in enumerate(payload['scenarios']):
            if sc.get('continues') and base is not None:
                # a later moment of the same history: the SAME directory, changed in place
                sync_tree(base, sc, wipe=bool(sc.get('wipe')))
            else:
                base = os.path.join(top, 's%d' % k)
                os.makedirs(base)
                sync_tree(base, sc, wipe=False)
            importlib.invalidate_caches()
            results.append(run_scenario(U, kernprof, base, sc))
    finally:
        os.chdir(cwd0)
        shutil.rmtree(top, ignore_errors=True)
    emit(dict(results=results, U_file=U.__file__, kernprof_file=kernprof.__file__, base_has_dot='.' in top))


def sync_tree(base, sc, wipe):
    """make the directory tree below base equal to the scenario's (files are empty)"""
    if wipe:
        shutil.rmtree(base)
        os.makedirs(base)
    want_dirs = {tuple(d) for d in sc['dirs']}
    want_files = {tuple(f) for f in sc['files']}
    for f in want_files:
        for i in range(1, len(f)):
            want_dirs.add(f[:i])
    # remove what is no longer there (deepest first)
    have = []
    for dpath, dnames, fnames in os.walk(base):
        r = tuple(os.path.relpath(dpath, base).split(os.sep)) if dpath != base else ()
        have += [(r + (d,), True) for d in dnames] + [(r + (f,), False) for f in fnames]
    for p, isdir in sorted(have, key=lambda x: -len(x[0])):
        full = os.path.join(base, *p)
        if isdir and p not in want_dirs:
            if os.path.isdir(full):
                shutil.rmtree(full)
        elif not isdir and p not in want_files:
            if os.path.exists(full):
                os.remove(full)
    for d in sorted(want_dirs, key=len):
        os.makedirs(os.path.join(base, *d), exist_ok=True)
    for f in want_files:
        full = os.path.join(base, *f)
        if not os.path.exists(full):
            open(full, 'a').close()


def rel(base, p):
    """absolute path string -> component list below base (None stays None)"""
    if p is None:
        return None
    p = os.fspath(p)
    if p == base:
        return []
    if not p.startswith(base + '/'):
        return ['<outside>', p]
    return p[len(base) + 1:].split('/')


def pf_chain(base, name, roots):
    """PathFinder walked parent-first, the way importlib._bootstrap._find_and_load does."""
    comps = name.split('.')
    path = list(roots)
    PF = importlib.machinery.PathFinder
    stubs = []
    try:
        for i in range(len(comps)):
            full = '.'.join(comps[:i + 1])
            try:
                spec = PF.find_spec(full, path)
            except Exception as e:  # noqa
                return ['exc', type(e).__name__]
            if spec is None:
                return ['none']
            if spec.loader is None:
                return ['ns']
            if i == len(comps) - 1:
                is_pkg = spec.submodule_search_locations is not None
                o = rel(base, spec.origin)
                return ['found', o[:-1] if is_pkg else o, is_pkg]
            if spec.submodule_search_locations is None:
                return ['none']
            path = list(spec.submodule_search_locations)
            # the import system has the parent package in sys.modules while it looks for the
            # child (a namespace result consults sys.modules[parent].__path__): a stub stands in
            if full not in sys.modules:
                stub = types.ModuleType(full)
                stub.__path__ = path
                sys.modules[full] = stub
                stubs.append(full)
        return ['none']
    finally:
        for s in stubs:
            sys.modules.pop(s, None)


def real_import(base, name, roots):
    """import the name for real with sys.path = roots + the interpreter's own path"""
    top = name.split('.')[0]
    if top in sys.modules or not name or any(not c for c in name.split('.')):
        return ['skipped']
    before = set(sys.modules)
    old_path = list(sys.path)
    sys.path[:] = list(roots) + old_path
    importlib.invalidate_caches()
    try:
        try:
            mod = importlib.import_module(name)
        except ImportError:
            return ['none']
        except Exception as e:  # noqa
            return ['exc', type(e).__name__]
        f = getattr(mod, '__file__', None)
        if f is None:
            # a namespace package made only of directories outside the scenario (e.g. a __pycache__
            # somewhere on the interpreter's own path) says nothing about the scenario's roots
            if not any(str(x).startswith(base + '/') for x in list(getattr(mod, '__path__', []))):
                return ['skipped']
            return ['ns']
        o = rel(base, f)
        if o and o[0] == '<outside>':
            return ['skipped']
        is_pkg = hasattr(mod, '__path__')
        # a chain through a namespace package is reported as such
        parts = name.split('.')
        for i in range(1, len(parts)):
            parent = sys.modules.get('.'.join(parts[:i]))
            if parent is not None and getattr(parent, '__file__', None) is None:
                return ['ns']
        return ['found', o[:-1] if is_pkg else o, is_pkg]
    finally:
        sys.path[:] = old_path
        for m in set(sys.modules) - before:
            del sys.modules[m]
        importlib.invalidate_caches()


def call(f, *a, **kw):
    try:
        return f(*a, **kw), None
    except ValueError:
        return None, 'ValueError'
    except Exception as e:  # noqa
        return None, type(e).__name__


def run_scenario(U, kernprof, base, sc):
    roots = [os.path.join(base, *r) + sc.get('root_suffix', '') for r in sc['roots']]
    out = []
    for q in sc['queries']:
        kind = q['kind']
        if kind == 'lookup':
            name, hi, hm = q['name'], q['hi'], q['hm']
            got, err = call(U.modname_to_modpath, name, hide_init=hi, hide_main=hm, sys_path=list(roots))
            raw, err2 = call(U._syspath_modname_to_modpath, name, sys_path=list(roots))
            back, berr = (None, None)
            if got is not None:
                back, berr = call(U.modpath_to_modname, got, hide_init=hi, hide_main=hm)
            r = dict(out=rel(base, got), raw=rel(base, raw), err=err or err2,
                     back=back, back_err=berr, back_called=got is not None,
                     pf=pf_chain(base, name, roots))
            if q.get('real'):
                r['real'] = real_import(base, name, roots)
            if q.get('fms'):
                old_path, old_err = list(sys.path), sys.stderr
                sys.path[:] = list(roots)
                sys.stderr = io.StringIO()
                try:
                    try:
                        r['fms'] = ['ok', rel(base, kernprof.find_module_script(name))]
                    except SystemExit:
                        r['fms'] = ['exit']
                    except Exception as e:  # noqa
                        r['fms'] = ['exc', type(e).__name__]
                finally:
                    sys.path[:] = old_path
                    sys.stderr = old_err
            out.append(r)
        elif kind == 'list':
            p = os.path.join(base, *q['path'])
            try:
                with native_neighbour(U, p):
                    got = [rel(base, x) for x in U.package_modpaths(p)]
                out.append(dict(out=got, err=None))
            except Exception as e:  # noqa
                out.append(dict(out=None, err=type(e).__name__))
        elif kind == 'listpkg':
            p = os.path.join(base, *q['path'])
            try:
                with native_neighbour(U, p):
                    got = [rel(base, x) for x in U.package_modpaths(p, with_pkg=True)]
                out.append(dict(out=got, err=None))
            except Exception as e:  # noqa
                out.append(dict(out=None, err=type(e).__name__))
        elif kind == 'select':
            out.append(run_select(base, sc, q))
        elif kind == 'm2n':
            p = os.path.join(base, *q['path'])
            hi, hm = q['hi'], q['hm']
            nm, e1 = call(U.modpath_to_modname, p, hide_init=hi, hide_main=hm)
            sp, e2 = call(U.split_modpath, p)
            no, e3 = call(U.normalize_modpath, p, hide_init=hi, hide_main=hm)
            out.append(dict(name=nm, name_err=e1,
                            split=None if sp is None else [rel(base, sp[0]), sp[1].split('/')], split_err=e2,
                            norm=rel(base, no), norm_err=e3))
        else:
            raise ValueError(kind)
    return out


def import_listing(pkgdir, name):
    """the names under which the import system knows what is inside a regular package"""
    import pkgutil
    out = []
    for info in pkgutil.iter_modules([pkgdir], name + '.'):
        out.append(info.name)
        if info.ispkg:
            out += import_listing(os.path.join(pkgdir, info.name.rsplit('.', 1)[1]), info.name)
    return out


def run_select(base, sc, q):
    """ProfmodExtractor._get_modnames_to_profile_from_prof_mod with sys.path = the scenario's roots"""
    from line_profiler.autoprofile.profmod_extractor import ProfmodExtractor
    from line_profiler.autoprofile import util_static as U
    script = os.path.join(base, *q['script'])
    sys_path = [os.path.join(base, *r) for r in q['sys_path']]
    entries = [e['name'] if 'name' in e else os.path.join(base, *e['path']) for e in q['entries']]
    old_path = list(sys.path)
    sys.path[:] = list(sys_path)
    try:
        try:
            got = list(ProfmodExtractor._get_modnames_to_profile_from_prof_mod(script, entries))
            r = dict(out=got, err=None)
        except Exception as e:  # noqa
            r = dict(out=None, err=type(e).__name__)
    finally:
        sys.path[:] = old_path
    if q.get('judge'):
        name = q['entries'][0]['name']
        roots = [os.path.dirname(script)] + sys_path
        importlib.invalidate_caches()
        pf = pf_chain(base, name, roots)
        r['pf'] = pf
        raw, _ = call(U._syspath_modname_to_modpath, name, sys_path=list(roots))
        r['raw'] = rel(base, raw)
        if pf[0] == 'found':
            r['oracle'] = [name] + (import_listing(os.path.join(base, *pf[1]), name) if pf[2] else [])
    return r


if __name__ == '__main__':
    main()
