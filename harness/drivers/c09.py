"""Implementation side of C09 (and of the tree half of C08): runs inside the rebuilt
implementation.  For every case a project layout is written to disk, then

 (i)  in-process: the real ProfmodExtractor / AstTree(Module)Profiler are run on it and
      the original, the pre-processed and the transformed Python trees are converted to
      AstLite with one shared intern table;
 (ii) end-to-end (cases with 'cli'): `python -m kernprof -l <cli> <script>` in a
      subprocess; the keys of the written .lprof are returned.
"""
import ast
import os
import pickle
import shutil
import subprocess
import sys
from concurrent.futures import ThreadPoolExecutor

from harness.drivers.common import read_payload, emit
from harness.drivers import c09_astconv as AC


def write_layout(base, files):
    for rel, text in files.items():
        p = os.path.join(base, rel)
        os.makedirs(os.path.dirname(p), exist_ok=True)
        with open(p, 'w', encoding='utf-8', newline='') as f:
            f.write(text)


def make_symlinks(base, links):
    """{link path: target}, both relative to the layout root; the target is stored relative to the link"""
    for link, target in (links or {}).items():
        lp = os.path.join(base, link)
        os.makedirs(os.path.dirname(lp), exist_ok=True)
        os.symlink(os.path.relpath(os.path.join(base, target), os.path.dirname(lp)), lp)


def future_mask():
    import __future__
    m = 0
    for name in __future__.all_feature_names:
        m |= getattr(__future__, name).compiler_flag
    return m


def compile_glue(case, script_file, prof_mod, text):
    """The code object the real autoprofile.run() hands to exec (captured by shadowing the name
    `exec` in that module's globals, nothing is executed) against a plain compile of the file:
    same filename, same compiler (__future__) flags."""
    from line_profiler.autoprofile import autoprofile
    import line_profiler
    got = {}

    def fake_exec(code, *_a, **_k):
        got['code'] = code
    autoprofile.exec = fake_exec
    try:
        autoprofile.run(script_file, {autoprofile.PROFILER_LOCALS_NAME: line_profiler.LineProfiler()}, list(prof_mod),
                        profile_imports=bool(case['imports']), as_module=bool(case.get('module')))
    finally:
        del autoprofile.exec
    ref = compile(text, script_file, 'exec', dont_inherit=True)
    mask = future_mask()
    code = got['code']
    return dict(flags=code.co_flags & mask, ref_flags=ref.co_flags & mask,
                filename_ok=(code.co_filename == script_file))


def inproc(case, base):
    """What autoprofile.run() would build for this case (without executing it)."""
    import kernprof
    from line_profiler.autoprofile.ast_tree_profiler import AstTreeProfiler
    from line_profiler.autoprofile.run_module import AstTreeModuleProfiler
    from line_profiler.autoprofile.profmod_extractor import ProfmodExtractor
    from line_profiler.autoprofile.util_static import modpath_to_modname
    out = {}
    old_cwd, old_path = os.getcwd(), list(sys.path)
    os.chdir(base)
    try:
        module = case.get('module')
        for extra in reversed(case.get('pythonpath') or []):
            sys.path.insert(0, os.path.join(base, extra))      # as PYTHONPATH=<extra> would
        if module:
            sys.path.insert(0, os.path.abspath(os.curdir))
            script_file = kernprof.find_module_script(module)
            Profiler = AstTreeModuleProfiler
            out['modname'] = modpath_to_modname(script_file, hide_main=False, hide_init=False)
        else:
            script_file = kernprof.find_script(case['script'])
            sys.path.insert(0, os.path.dirname(script_file))
            Profiler = AstTreeProfiler
            out['modname'] = None
        prof_mod = list(case['prof_mod'])
        it = AC.Interner()
        with open(script_file, encoding='utf-8') as f:
            text = f.read()
        out['orig'] = AC.conv_module(ast.parse(text), it)
        try:
            out['S'] = ProfmodExtractor._get_modnames_to_profile_from_prof_mod(script_file, prof_mod)
            out['S_elsewhere'] = selection_elsewhere(ProfmodExtractor, script_file, prof_mod, base)
            out['full'] = bool(Profiler._check_profile_full_script(script_file, prof_mod))
            pre = Profiler._get_script_ast_tree(script_file)
            out['pre'] = AC.conv_module(pre, it)
            d = ProfmodExtractor(pre, script_file, prof_mod).run()
            # {tree index: [names]} in insertion order (a bare str value is the pre-repair shape)
            out['dict_order'] = [[int(k), ([v] if isinstance(v, str) else list(v))] for k, v in d.items()]
            out['dict'] = sorted([k, n] for k, ns in out['dict_order'] for n in ns)
            tree = Profiler(script_file, prof_mod, bool(case['imports'])).profile()
            out['out'] = AC.conv_module(tree, it)
            out['err'] = None
            try:
                compile(tree, script_file, 'exec')
                out['compile_err'] = None
            except Exception as e:  # noqa
                out['compile_err'] = type(e).__name__
            if out['compile_err'] is None:
                try:
                    out['glue'] = compile_glue(case, script_file, prof_mod, text)
                except Exception as e:  # noqa
                    out['glue'] = dict(error=type(e).__name__)
        except Exception as e:  # noqa
            out['err'] = type(e).__name__
            out.setdefault('S', None)
            out.setdefault('full', None)
    finally:
        os.chdir(old_cwd)
        sys.path[:] = old_path
    return out


def selection_elsewhere(PE, script_file, prof_mod, base):
    """The same selection resolved with kernprof started from ANOTHER directory, which holds an unrelated plain
    directory named like every selected top-level module.  Only when every selection is an absolute path or a bare
    top-level name that the import system finds as a source module of the layout (then the answer may not depend on
    the start directory); None otherwise."""
    import importlib.machinery
    import shutil
    import tempfile
    sd = os.path.realpath(os.path.dirname(script_file))
    rbase = os.path.realpath(base)
    bare = []
    for m in prof_mod:
        if os.path.isabs(m):
            continue
        if not m.isidentifier():
            return None
        try:
            spec = importlib.machinery.PathFinder.find_spec(m, [sd] + sys.path)
        except Exception:  # noqa
            return None
        if spec is None or not spec.origin or not spec.origin.endswith('.py') \
                or not os.path.realpath(spec.origin).startswith(rbase + os.sep):
            return None
        bare.append(m)
    if not bare:
        return None
    script_abs = os.path.abspath(script_file)
    d = tempfile.mkdtemp(prefix='elsewhere-', dir=os.path.dirname(rbase))
    here = os.getcwd()
    try:
        for m in bare:
            os.makedirs(os.path.join(d, m), exist_ok=True)
            with open(os.path.join(d, m, 'notes.txt'), 'w') as f:
                f.write('unrelated\n')
        os.chdir(d)
        try:
            return list(PE._get_modnames_to_profile_from_prof_mod(script_abs, list(prof_mod)))
        except Exception as e:  # noqa
            return ['<raised %s>' % type(e).__name__]
    finally:
        os.chdir(here)
        shutil.rmtree(d, ignore_errors=True)


def e2e(case, base):
    """kernprof in a subprocess; returns the keys of the written stats."""
    tail = ['-m', case['module']] if case.get('module') else [case['script']]
    env = dict(os.environ)
    if case.get('pythonpath'):
        env['PYTHONPATH'] = os.pathsep.join([os.path.join(base, x) for x in case['pythonpath']]
                                            + [env.get('PYTHONPATH', '')])
    # a program that does not run cleanly under plain python says nothing about kernprof
    plain = subprocess.run([sys.executable] + tail, cwd=base, env=env, stdout=subprocess.PIPE,
                           stderr=subprocess.PIPE, text=True, timeout=120)
    if plain.returncode != 0:
        return dict(malformed=True, rc=None, keys=None, stdout='', stderr=plain.stderr[-400:])
    cmd = [sys.executable, '-m', 'kernprof', '-l', '-o', 'out.lprof'] + list(case['cli']) + tail
    p = subprocess.run(cmd, cwd=base, env=env, stdout=subprocess.PIPE, stderr=subprocess.PIPE,
                       text=True, timeout=120)
    res = dict(rc=p.returncode, stderr=p.stderr[-600:], stdout=p.stdout[-300:], keys=None)
    f = os.path.join(base, 'out.lprof')
    if os.path.exists(f):
        with open(f, 'rb') as fh:
            st = pickle.load(fh)
        keys = []
        rbase = os.path.realpath(base)
        for (fn, ln, nm) in st.timings:
            full = os.path.realpath(os.path.join(base, fn))
            rel = os.path.relpath(full, rbase) if full.startswith(rbase + os.sep) else fn
            keys.append([rel, int(ln), nm])
        res['keys'] = sorted(keys)
    return res


def main():
    payload = read_payload()
    results = []
    bases = []
    try:
        for case in payload['cases']:
            base = case['base']          # chosen by the harness (absolute spellings of selections mention it)
            os.makedirs(base)
            bases.append(base)
            write_layout(base, case['files'])
            make_symlinks(base, case.get('symlinks'))
        for case, base in zip(payload['cases'], bases):
            r = {}
            if case.get('inproc', True):
                r['tree'] = inproc(case, base)
            results.append(r)
        todo = [(i, c, b) for i, (c, b) in enumerate(zip(payload['cases'], bases)) if c.get('cli') is not None]
        with ThreadPoolExecutor(max_workers=int(payload.get('workers', 8))) as ex:
            for (i, _c, _b), r in zip(todo, ex.map(lambda t: e2e(t[1], t[2]), todo)):
                results[i]['e2e'] = r
    finally:
        for b in bases:
            shutil.rmtree(b, ignore_errors=True)
    emit(dict(results=results))


if __name__ == '__main__':
    main()
