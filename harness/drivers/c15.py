"""Implementation side of C15: run the real kernprof.main in-process on generated
command lines; observe what the program sees (sys.argv) and what kernprof decided
(profiler type, output file, view...)."""
import builtins
import contextlib
import io
import os
import sys
import tempfile
import shutil
import threading

from harness.drivers.common import read_payload, emit

PROG = '''
import sys, json, builtins
_rec = dict(argv=list(sys.argv), profile_type=type(getattr(builtins, 'profile', None)).__name__)
# the program also uses the importable decorator: under kernprof it must not start deciding from the program's arguments
from line_profiler import profile as _lp_profile
@_lp_profile
def _decorated(x):
    return x + 1
_decorated(1)
_rec['argv_after_decorating'] = list(sys.argv)
with open(%r, 'w') as _f:
    json.dump(_rec, _f)
'''

# the -s setup file: it uses the importable decorator before kernprof takes it over (the decorator then decides for
# itself, looking at LINE_PROFILE and at sys.argv - which at that moment holds the PROGRAM's arguments)
SETUP = '''
import line_profiler
@line_profiler.profile
def _setup_helper(x):
    return x + 1
_setup_helper(1)
'''


def main():
    payload = read_payload()
    import kernprof
    import line_profiler
    root = tempfile.mkdtemp(prefix='c15_', dir=payload['tmp'])
    os.chdir(root)
    recfile = os.path.join(root, 'rec.json')
    # the programs every generated command line may name: as script and as module
    for name in payload['scripts']:
        with open(os.path.join(root, name), 'w') as f:
            f.write(SETUP if name == 'setup.py' else PROG % recfile)
    # a file a program argument of the form @<file> would name (argparse's fromfile convention is not kernprof's)
    with open(os.path.join(root, 'args.txt'), 'w') as f:
        f.write('-v\n--outfile=stolen.prof\nalice\n')
    sys.path.insert(0, root)
    out = []
    import json
    import argparse
    captured = []
    orig_parse = argparse.ArgumentParser.parse_args

    def spy(self, args=None, namespace=None):
        ns = orig_parse(self, args, namespace)
        captured.append(dict(vars(ns)))
        return ns
    argparse.ArgumentParser.parse_args = spy
    dests = ['line_by_line', 'builtin', 'outfile', 'setup', 'view', 'rich', 'unit', 'skip_zero',
             'output_interval', 'prof_mod', 'prof_imports']
    for args in payload['cases']:
        for f in os.listdir(root):
            if f not in payload['scripts'] and os.path.isfile(os.path.join(root, f)):
                os.unlink(os.path.join(root, f))
        # every case starts from the same files: an earlier case may have named one of them as its output file
        # (`-o -5` writes the statistics over the script called -5)
        for name in payload['scripts']:
            with open(os.path.join(root, name), 'w') as f:
                f.write(SETUP if name == 'setup.py' else PROG % recfile)
        with open(os.path.join(root, 'args.txt'), 'w') as f:
            f.write('-v\n--outfile=stolen.prof\nalice\n')
        saved_argv, saved_path = sys.argv, list(sys.path)
        saved_builtin = builtins.__dict__.get('profile', None)
        had_builtin = 'profile' in builtins.__dict__
        so, se = io.StringIO(), io.StringIO()
        kind, detail = 'ran', None
        del captured[:]
        try:
            with contextlib.redirect_stdout(so), contextlib.redirect_stderr(se):
                kernprof.main(list(args))
        except SystemExit as e:
            kind = 'exit0' if e.code in (0, None) else 'usage'
            detail = str(e.code)
        except ValueError as e:
            kind, detail = 'valueerror', str(e)
        except TypeError as e:
            # `kernprof -b -v` on a program that profiles nothing: pstats cannot load an empty
            # cProfile (a C07 matter); the program has run and the file is written by then
            if 'Cannot create or construct' in str(e):
                kind, detail = 'ran', 'view failed: %s' % e
            else:
                kind, detail = 'exc', '%s: %s' % (type(e).__name__, e)
        except BaseException as e:  # noqa
            kind, detail = 'exc', '%s: %s' % (type(e).__name__, e)
        finally:
            sys.argv = saved_argv
            sys.path[:] = saved_path
            if had_builtin:
                builtins.__dict__['profile'] = saved_builtin
            else:
                builtins.__dict__.pop('profile', None)
            line_profiler.profile.enabled = None
            line_profiler.profile._profile = None
            import atexit
            atexit.unregister(line_profiler.profile.show)
            for t in threading.enumerate():
                if isinstance(t, threading.Timer):
                    t.cancel()
        rec = None
        if os.path.exists(recfile):
            rec = json.load(open(recfile))
        files = sorted(f for f in os.listdir(root) if f not in payload['scripts'] and f not in ('rec.json', 'args.txt')
                       and os.path.isfile(os.path.join(root, f)))
        stdout = so.getvalue()
        ns = None
        if captured:
            c = captured[0]
            ns = {k: c.get(k) for k in dests}
            ns['help'] = bool(c.get('help', False))
        out.append(dict(kind=kind, detail=detail, rec=rec, files=files, ns=ns,
                        viewed=('Timer unit:' in stdout) or ('function calls' in stdout),
                        stderr=se.getvalue()[-300:]))
    os.chdir('/')
    shutil.rmtree(root, ignore_errors=True)
    emit(dict(out=out))


if __name__ == '__main__':
    main()
