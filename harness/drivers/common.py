import json
import sys


def read_payload():
    return json.loads(sys.stdin.read())


def emit(res):
    import line_profiler
    res['impl_file'] = line_profiler.__file__
    sys.stdout.flush()
    print('\nRESULT ' + json.dumps(res))
    sys.stdout.flush()
