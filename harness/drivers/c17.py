"""Implementation side of C17: run the real resolver / transformer / tree loader."""
import ast
import importlib.util
import os
import shutil
import subprocess
import sys
import tempfile

from harness.drivers.common import read_payload, emit


def importlib_resolve(level, target, package):
    try:
        return importlib.util.resolve_name('.' * level + (target or ''), package)
    except ImportError:
        return None


def main():
    payload = read_payload()
    from line_profiler.autoprofile import run_module as RM
    out = []
    for c in payload['unit']:
        level, target, module = c['level'], c['target'], c['module']
        src = 'from %s%s import nm as al, other' % ('.' * level, target or '')
        node = ast.parse(src).body[0]
        try:
            got = RM.get_module_from_importfrom(node, module)
            err = None
        except Exception as e:  # noqa
            got, err = None, type(e).__name__
        package = module.rsplit('.', 1)[0] if '.' in module else ''
        spec = importlib_resolve(level, target, package) if level else target
        # the transformer on a tree with the import nested inside a function and a class
        tree = ast.parse('%s\ndef f():\n    %s\nclass K:\n    %s\n    def g(self):\n        %s\n' % (src, src, src, src))
        before = [(n.lineno, n.col_offset, [(a.name, a.asname) for a in n.names])
                  for n in ast.walk(tree) if isinstance(n, ast.ImportFrom)]
        try:
            new = RM.ImportFromTransformer(module).visit(tree)
            after = [(n.lineno, n.col_offset, [(a.name, a.asname) for a in n.names], n.module, n.level)
                     for n in ast.walk(new) if isinstance(n, ast.ImportFrom)]
            names_ok = [b == a[:3] for b, a in zip(before, after)] == [True] * 4 and len(after) == 4
            mods = sorted({(a[3], a[4]) for a in after})
        except Exception as e:  # noqa
            names_ok, mods = False, [[type(e).__name__, -1]]
        out.append(dict(got=got, err=err, spec=spec, names_ok=names_ok, mods=mods))
    # on-disk packages: module name derivation + transformer, as kernprof -m uses them
    disk = []
    root = tempfile.mkdtemp(prefix='c17_', dir=payload['tmp'])
    try:
        for k, c in enumerate(payload['disk']):
            base = os.path.join(root, 'r%d' % k)
            comps, stem, level, target = c['pcomps'], c['stem'], c['level'], c['target']
            d = base
            os.makedirs(d)
            for comp in comps:
                d = os.path.join(d, comp)
                os.makedirs(d, exist_ok=True)
                open(os.path.join(d, '__init__.py'), 'a').close()
            path = os.path.join(d, stem + '.py')
            with open(path, 'a') as f:
                f.write('from %s%s import nm as al\n' % ('.' * level, target or ''))
            try:
                tree = RM.AstTreeModuleProfiler._get_script_ast_tree(path)
                n = [x for x in ast.walk(tree) if isinstance(x, ast.ImportFrom)][0]
                got = (n.module, n.level, [(a.name, a.asname) for a in n.names])
            except Exception as e:  # noqa
                got = (type(e).__name__, -1, [])
            # what python itself resolves: __package__ of that file when imported / run with -m
            package = '.'.join(comps)
            spec = importlib_resolve(level, target, package)
            disk.append(dict(got=got, spec=spec))
    finally:
        shutil.rmtree(root, ignore_errors=True)
    emit(dict(unit=out, disk=disk))


if __name__ == '__main__':
    main()
