"""Implementation side of C17: run the real resolver / transformer / tree loader."""
import ast
import importlib.util
import os
import shutil
import subprocess
import sys
import tempfile

from harness.drivers.common import read_payload, emit


def importlib_resolve(level, target, package):
    try:
        return importlib.util.resolve_name('.' * level + (target or ''), package)
    except ImportError:
        return None


def main():
    payload = read_payload()
    from line_profiler.autoprofile import run_module as RM
    out = []
    for c in payload['unit']:
        level, target, module = c['level'], c['target'], c['module']
        src = 'from %s%s import nm as al, other' % ('.' * level, target or '')
        node = ast.parse(src).body[0]
        try:
            got = RM.get_module_from_importfrom(node, module)
            err = None
        except Exception as e:  # noqa
            got, err = None, type(e).__name__
        package = module.rsplit('.', 1)[0] if '.' in module else ''
        spec = importlib_resolve(level, target, package) if level else target
        # the transformer on a tree that holds the same target text at EVERY level valid at this position
        # (top level, inside a function, inside a class body, inside a method), plus this case's own level
        depth = module.count('.')
        levels = sorted(set([level] + list(range(1, depth + 1)))) if level else [0]
        # the order in which the levels first appear in the file varies from case to case (increasing, decreasing,
        # deepest first then the others, this case's own level first): each import resolves on its own
        order = (level + len(target or '') + depth) % 4
        if order == 1:
            levels = levels[::-1]
        elif order == 2:
            levels = levels[-1:] + levels[:-1]
        elif order == 3 and level in levels:
            levels = [level] + [x for x in levels if x != level][::-1]
        lines, want = [], {}
        for lv in levels:
            st = 'from %s%s import nm as al, other' % ('.' * lv, target or '')
            for tmpl in ('%s', 'def f%d():\n    %%s' % lv, 'class K%d:\n    %%s\n    def g(self):\n        %%s' % lv):
                block = tmpl.replace('%s', st) if tmpl.count('%s') != 1 or True else tmpl
                lines.append(block)
        src_all = '\n'.join(lines) + '\n'
        tree = ast.parse(src_all)
        before = {}
        for n in ast.walk(tree):
            if isinstance(n, ast.ImportFrom):
                before[(n.lineno, n.col_offset)] = (n.level, [(a.name, a.asname) for a in n.names])
        try:
            new = RM.ImportFromTransformer(module).visit(tree)
            names_ok, mods_ok = True, True
            seen = 0
            for n in ast.walk(new):
                if isinstance(n, ast.ImportFrom):
                    seen += 1
                    lv, nm = before.get((n.lineno, n.col_offset), (None, None))
                    if nm != [(a.name, a.asname) for a in n.names]:
                        names_ok = False
                    exp = (importlib_resolve(lv, target, package) if lv else target)
                    valid_lv = (lv == 0) or (1 <= lv <= depth)
                    if valid_lv and (n.module != exp or n.level != 0):
                        mods_ok = False
            if seen != len(before):
                names_ok = False
            names_ok = names_ok and mods_ok
            mods = [[spec, 0]] if mods_ok else [['<some import in the tree resolved differently>', -1]]
        except Exception as e:  # noqa
            names_ok, mods = False, [[type(e).__name__, -1]]
        out.append(dict(got=got, err=err, spec=spec, names_ok=names_ok, mods=mods))
    # on-disk packages: module name derivation + transformer, as kernprof -m uses them
    disk = []
    root = tempfile.mkdtemp(prefix='c17_', dir=payload['tmp'])
    try:
        import kernprof
        for k, c in enumerate(payload['disk']):
            base = os.path.join(root, 'r%d' % k)
            comps, stem, level, target = c['pcomps'], c['stem'], c['level'], c['target']
            link = c.get('link')
            real_comps = list(comps)
            if link == 'pkg':
                real_comps[0] = comps[0] + '_v2'          # the top package directory is reached through a symlink
            d = os.path.join(base, 'src' if link else '')
            os.makedirs(d, exist_ok=True)
            top = d
            for comp in real_comps:
                d = os.path.join(d, comp)
                os.makedirs(d, exist_ok=True)
                open(os.path.join(d, '__init__.py'), 'a').close()
            path = os.path.join(d, stem + '.py')
            text = 'from %s%s import nm as al\n' % ('.' * level, target or '')
            if link == 'file':
                # the module file is a link to a file that sits at ANOTHER package position
                vend = os.path.join(base, 'src', 'vendorpkg', 'deep')
                os.makedirs(vend, exist_ok=True)
                for q in (os.path.join(base, 'src', 'vendorpkg'), vend):
                    open(os.path.join(q, '__init__.py'), 'a').close()
                with open(os.path.join(vend, 'impl.py'), 'w') as f:
                    f.write(text)
                os.symlink(os.path.join(vend, 'impl.py'), path)
            elif link == 'sub' and len(real_comps) >= 2:
                # the innermost package directory is a link to a directory at another package position
                vend = os.path.join(base, 'src', 'vendorpkg')
                os.makedirs(vend, exist_ok=True)
                open(os.path.join(vend, '__init__.py'), 'a').close()
                shutil.rmtree(d)
                inner = os.path.join(vend, 'inner_v3')
                os.makedirs(inner, exist_ok=True)
                open(os.path.join(inner, '__init__.py'), 'a').close()
                with open(os.path.join(inner, stem + '.py'), 'w') as f:
                    f.write(text)
                os.symlink(inner, d)
            else:
                with open(path, 'a') as f:
                    f.write(text)
            search_root = base
            if link:
                search_root = os.path.join(base, 'site')
                os.makedirs(search_root)
                os.symlink(os.path.join('..', 'src', real_comps[0]), os.path.join(search_root, comps[0]))
            if link in ('file', 'sub'):
                search_root = os.path.join(base, 'src')
            try:
                if c.get('via_main'):
                    # the whole glue of `kernprof -l -p <pkg> -m <module>`: the file main() hands to the auto-profiling
                    # runner (captured; nothing is executed)
                    from line_profiler.autoprofile import autoprofile as AP
                    seen = {}

                    class _Captured(BaseException):
                        pass

                    def fake_compile(tree, filename, mode, *a, **k):
                        # the real run() ran up to here: this is the rewritten tree it is about to compile and execute
                        seen['script_file'] = filename
                        seen['tree'] = tree
                        raise _Captured()
                    orig_run, old_cwd, old_argv, old_path = AP.run, os.getcwd(), list(sys.argv), list(sys.path)
                    AP.compile = fake_compile        # shadows the builtin inside line_profiler.autoprofile.autoprofile only
                    os.chdir(search_root)
                    try:
                        modname = '.'.join(comps + ([] if stem == '__init__' else [stem]))
                        try:
                            kernprof.main(['-l', '-o', os.path.join(base, 'out.lprof'), '-p', comps[0], '-m', modname])
                        except (SystemExit, _Captured):
                            pass
                    finally:
                        del AP.compile
                        os.chdir(old_cwd)
                        sys.argv[:] = old_argv
                        sys.path[:] = old_path
                        import builtins
                        builtins.__dict__.pop('profile', None)
                    use = seen['script_file']
                    tree = seen['tree']
                elif c.get('via_find'):
                    old_path = list(sys.path)
                    sys.path.insert(0, search_root)
                    try:
                        modname = '.'.join(comps + ([] if stem == '__init__' else [stem]))
                        found = kernprof.find_module_script(modname)
                    finally:
                        sys.path[:] = old_path
                    use = found
                else:
                    use = os.path.join(search_root, *comps, stem + '.py')
                if not c.get('via_main'):
                    tree = RM.AstTreeModuleProfiler._get_script_ast_tree(use)
                n = [x for x in ast.walk(tree) if isinstance(x, ast.ImportFrom) and [a.name for a in x.names] == ['nm']][0]
                got = (n.module, n.level, [(a.name, a.asname) for a in n.names])
            except BaseException as e:  # noqa
                got = (type(e).__name__, -1, [])
            # what python itself resolves: __package__ of that file when imported / run with -m
            package = '.'.join(comps)
            spec = importlib_resolve(level, target, package)
            disk.append(dict(got=got, spec=spec))
    finally:
        shutil.rmtree(root, ignore_errors=True)
    emit(dict(unit=out, disk=disk))


if __name__ == '__main__':
    main()
