"""Implementation side of C10, live sessions: the reports of a REAL profiler (statistics served by the real
get_stats() after a history of registrations - also of the same function again after it has run - and runs) through
LineProfiler.print_stats(), and through dump_stats() + load_stats(), against show_text() on the very same snapshot.
show_text on given statistics is the part the Coq model is tied to (harness/drivers/c10.py); this driver covers the glue
between a live profiler and that function: whatever print_stats hands to show_text beside the timings may not change
a single character of the report.

payload: {tmp, seed, sessions: n}  ->  {sessions: [{ok, why, combo, ...}]}"""
import io
import itertools
import os
import random
import shutil

from harness.drivers.common import read_payload, emit


def source(rnd, n):
    lines = []
    for i in range(n):
        lines += ['def f%d(n):' % i, '    s = 0', '    for i in range(n):', '        s += i * %d' % rnd.randrange(1, 9)]
        if rnd.random() < 0.5:
            lines += ['        if i %% 2 == %d:' % rnd.randrange(2), '            s -= 1']
        lines += ['    return s', '']
    return '\n'.join(lines) + '\n'


def one(rnd, d):
    from line_profiler import LineProfiler, load_stats
    from line_profiler.line_profiler import show_text
    os.makedirs(d, exist_ok=True)
    path = os.path.join(d, 'livemod.py')
    n = rnd.randrange(2, 6)
    text = source(rnd, n)
    with open(path, 'w') as f:
        f.write(text)
    ns = {}
    exec(compile(text, path, 'exec'), ns)
    fs = [ns['f%d' % i] for i in range(n)]
    prof = LineProfiler()
    hist = []
    ran = set()
    for _ in range(rnd.randrange(3, 10)):
        i = rnd.randrange(n)
        k = rnd.random()
        if k < 0.45:
            prof.add_function(fs[i])
            hist.append(['add', i])
        elif k < 0.55:
            prof(fs[i])
            hist.append(['deco', i])
        else:
            m = rnd.randrange(0, 40)
            prof.enable_by_count()
            try:
                fs[i](m)
            finally:
                prof.disable_by_count()
            hist.append(['run', i, m])
            ran.add(i)
    # one function does a lot of work, the others a medium amount; the busy one is then registered again (its code
    # object is replaced by a padded copy: one label, two code objects) and afterwards runs only briefly or not at all
    busy = rnd.randrange(n)
    for i in rnd.sample(range(n), n):
        if rnd.random() < 0.8 or i == busy:
            prof.add_function(fs[i])
        prof.enable_by_count()
        try:
            fs[i](rnd.randrange(2500, 4000) if i == busy else rnd.randrange(200, 500))
        finally:
            prof.disable_by_count()
        ran.add(i)
    prof.add_function(fs[busy])
    again = rnd.random() < 0.5
    if again:
        prof.enable_by_count()
        try:
            fs[busy](1)
        finally:
            prof.disable_by_count()
    hist.append(['busy', busy, 'again' if again else 'not again'])
    stats = prof.get_stats()
    fails = []
    for strip, sort, summ, det in itertools.product([False, True], repeat=4):
        for unit in (None, 1e-3):
            a, b = io.StringIO(), io.StringIO()
            prof.print_stats(stream=a, output_unit=unit, stripzeros=strip, details=det, summarize=summ, sort=sort)
            show_text(stats.timings, stats.unit, output_unit=unit, stream=b, stripzeros=strip, details=det, summarize=summ, sort=sort)
            if a.getvalue() != b.getvalue():
                fails.append(dict(combo=[strip, sort, summ, det], output_unit=unit, print_stats=a.getvalue()[-1200:],
                                  show_text=b.getvalue()[-1200:]))
                break
        if fails:
            break
    lprof = os.path.join(d, 'live.lprof')
    prof.dump_stats(lprof)
    back = load_stats(lprof)
    if back.timings != stats.timings or back.unit != stats.unit:
        fails.append(dict(combo=None, why='load_stats(dump_stats()) differs from the snapshot'))
    if prof.get_stats().timings != stats.timings:
        fails.append(dict(combo=None, why='printing or dumping changed the statistics'))
    return dict(ok=not fails, fails=fails[:1], history=hist, source=text, registered_twice=bool(ran))


def main():
    payload = read_payload()
    rnd = random.Random(payload['seed'])
    tmp = os.path.realpath(payload['tmp'])
    out = []
    for k in range(payload['sessions']):
        d = os.path.join(tmp, 'live%d' % k)
        try:
            out.append(one(rnd, d))
        finally:
            shutil.rmtree(d, ignore_errors=True)
    emit(dict(sessions=out))


if __name__ == '__main__':
    main()
