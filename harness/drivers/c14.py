"""Implementation side of C14: fresh real GlobalProfiler objects driven through
histories (in-process), the real show() under every write_config subset, and whole
interpreter runs (subprocess: real LINE_PROFILE variable, real atexit hook, real files).

Instrumentation is limited to the *external names* the methods look up at call time in
explicit_profiler's module namespace: `LineProfiler` (a counting factory around the real
class) and `atexit` (a recorder instead of the real registry, so the driver's own exit
writes nothing).  Subprocess cases use no instrumentation at all."""
import contextlib
import io
import os
import re
import shutil
import subprocess
import sys
import tempfile
from concurrent.futures import ThreadPoolExecutor

from harness.drivers.common import read_payload, emit

EXT_ID = 7


class AtexitRecorder:
    def __init__(self):
        self.calls = []

    def register(self, fn, *a, **k):
        self.calls.append((fn, a, k))
        return fn

    def unregister(self, fn):
        pass


def run_history(EP, RealLP, case):
    created = []

    def factory(*a, **k):
        obj = RealLP(*a, **k)
        created.append(obj)
        return obj
    rec = AtexitRecorder()
    EP.LineProfiler = factory
    EP.atexit = rec
    old_env = os.environ.get('LINE_PROFILE')
    old_argv = sys.argv
    try:
        if case['env'] is None:
            os.environ.pop('LINE_PROFILE', None)
        else:
            os.environ['LINE_PROFILE'] = case['env']
        sys.argv = list(case['argv'])
        gp = EP.GlobalProfiler()
        ext = None
        obs = []
        nfun = 0

        def which(p):
            if p is None:
                return None
            for i, c in enumerate(created):
                if p is c:
                    return ['own', i + 1]
            if ext is not None and p is ext:
                return ['ext', EXT_ID]
            return ['other', type(p).__name__]
        for kind, arg in case['ops']:
            try:
                if kind == 'overwrite':
                    ext = RealLP()
                    r = gp._kernprof_overwrite(ext)
                    obs.append(['unit'] if r is None else ['odd', repr(r)[:60]])
                elif kind == 'overwrite_none':
                    r = gp._kernprof_overwrite(None)
                    obs.append(['unit'] if r is None else ['odd', repr(r)[:60]])
                elif kind == 'enable':
                    r = gp.enable() if arg is None else gp.enable(output_prefix=arg)
                    obs.append(['unit'] if r is None else ['odd', repr(r)[:60]])
                elif kind == 'disable':
                    r = gp.disable()
                    obs.append(['unit'] if r is None else ['odd', repr(r)[:60]])
                elif kind == 'decorate':
                    nfun += 1
                    k = nfun

                    def f(k=k):
                        return k * 3 + 1
                    # what is handed to the decorator: the function, or a TEMPORARY wrapper object around it that
                    # nobody else keeps (decorator stacking, inline profile(partial(...)))
                    if arg == 'partial':
                        import functools
                        given = functools.partial(f)
                    elif arg == 'static':
                        given = staticmethod(f)
                    else:
                        given = f
                    r = gp(given)
                    same = r is given
                    del given
                    if same:
                        obs.append(['same', k])
                    else:
                        owner = None
                        for p in created + ([ext] if ext is not None else []):
                            if f in p.functions:
                                owner = which(p) if owner is None else ['other', 'two profilers']
                        call = r.__func__ if arg == 'static' else r
                        inner = call.func if arg == 'partial' else call
                        calls_ok = (getattr(inner, '__wrapped__', None) is f) and call() == k * 3 + 1
                        if owner is None or not calls_ok:
                            obs.append(['odd', 'not the argument, owner=%r calls_ok=%r' % (owner, calls_ok)])
                        else:
                            obs.append(['wrapped', k] + owner)
                else:
                    raise AssertionError(kind)
            except Exception as e:  # noqa
                obs.append(['err', type(e).__name__])
        hooks_ok = all(getattr(fn, '__self__', None) is gp and getattr(fn, '__func__', None) is EP.GlobalProfiler.show
                       and not a and not k for fn, a, k in rec.calls)
        return dict(obs=obs, enabled=gp.enabled, profile=which(gp._profile), prefix=gp.output_prefix,
                    created=len(created), atexit=len(rec.calls), hooks_ok=hooks_ok,
                    argv_after=list(sys.argv))       # the decision READS the command line
    finally:
        sys.argv = old_argv
        if old_env is None:
            os.environ.pop('LINE_PROFILE', None)
        else:
            os.environ['LINE_PROFILE'] = old_env


def list_files(d):
    out = []
    for root, _dirs, files in os.walk(d):
        for f in files:
            out.append(os.path.relpath(os.path.join(root, f), d))
    return out


def classify_outputs(prefix, names, stdout):
    """-> sorted list of [kind code, file name or None]; 9 = something nobody asked for"""
    out = []
    n = stdout.count('Timer unit:')
    out += [[0, None]] * n
    for nm in sorted(names):
        if nm == prefix + '.txt':
            out.append([1, nm])
        elif nm == prefix + '.lprof':
            out.append([3, nm])
        elif re.fullmatch(re.escape(prefix) + r'_\d{4}-\d\d-\d\dT\d{6}\.txt', nm):
            out.append([2, nm])
        else:
            out.append([9, nm])
    out.sort(key=lambda x: (x[0], x[1] or ''))
    ts = ''
    for code, nm in out:
        if code == 2:
            ts = nm[len(prefix) + 1:-4]
    return out, ts


def run_show(EP, RealLP, case, tmp):
    EP.LineProfiler = RealLP
    EP.atexit = AtexitRecorder()
    d = tempfile.mkdtemp(prefix='c14show_', dir=tmp)
    cwd = os.getcwd()
    try:
        os.chdir(d)
        gp = EP.GlobalProfiler()
        if case['prefix'] is None:
            gp.enable()
        else:
            if os.path.dirname(case['prefix']):
                os.makedirs(os.path.dirname(case['prefix']), exist_ok=True)
            gp.enable(output_prefix=case['prefix'])

        def f(x):
            return x + 1
        if case.get('decorated', True):
            g = gp(f)
            g(1)
        gp.write_config.update(case['wc'])
        buf = io.StringIO()
        err = None
        with contextlib.redirect_stdout(buf):
            try:
                gp.show()
            except Exception as e:  # noqa
                err = type(e).__name__
        names = list_files(d)
        seen, ts = classify_outputs(gp.output_prefix, names, buf.getvalue())
        sizes_ok = all(os.path.getsize(os.path.join(d, n)) > 0 for n in names)
        return dict(seen=seen, ts=ts, err=err, prefix=gp.output_prefix, sizes_ok=sizes_ok)
    finally:
        os.chdir(cwd)
        shutil.rmtree(d, ignore_errors=True)


SCRIPT = '''
import sys, json
import line_profiler
from line_profiler import profile
def f(x):
    return x + 1
def g(x):
    return x + 2
CFG = json.loads(%(cfg)r)
pre = CFG['pre']
if pre == 'enable':
    profile.enable()
elif pre == 'enable_prefix':
    profile.enable(output_prefix=CFG['prefix'])
elif pre == 'disable':
    profile.disable()
F = profile(f)
mid = CFG['mid']
if mid == 'disable':
    profile.disable()
elif mid == 'enable':
    profile.enable()
G = profile(g)
F(1); G(1)
profile.write_config.update(CFG['wc'])
print('OBS ' + json.dumps(dict(same_f=F is f, same_g=G is g, enabled=profile.enabled,
                              has_profile=profile._profile is not None,
                              impl=line_profiler.__file__)))
'''


KP_SETUP = '''
import json
import line_profiler
from line_profiler import profile
CFG = json.loads(%(cfg)r)
if CFG['how'] == 'enable':
    profile.enable(output_prefix=CFG['prefix'])
def setup_helper(x):
    return x + 3
H = profile(setup_helper)
H(1)
profile.write_config.update(CFG['wc'])
print('OBS ' + json.dumps(dict(same_h=H is setup_helper, impl=line_profiler.__file__)))
'''
KP_SCRIPT = '''
@profile
def script_func(n):
    return n * 2
script_func(3)
'''
# a program that uses the IMPORTABLE decorator - through both import paths - under kernprof (any mode)
KP_SCRIPT_EXPLICIT = '''
import json
import line_profiler
from line_profiler import profile as top_profile
from line_profiler.explicit_profiler import profile as sub_profile
def via_top(n):
    return n * 2
def via_sub(n):
    return n * 3
T = top_profile(via_top)
S = sub_profile(via_sub)
T(3); S(3)
kp = top_profile._profile
print('OBS2 ' + json.dumps(dict(one_object=top_profile is sub_profile and line_profiler.profile is line_profiler.explicit_profiler.profile,
                               taken_over=kp is not None and type(kp).__name__ in ('LineProfiler', 'ContextualProfile'),
                               same_profiler=sub_profile._profile is top_profile._profile,
                               wrapped=[T is not via_top, S is not via_sub])))
'''


def run_sub_kernprof(case, tmp):
    """python -m kernprof -l -s setup.py script.py: the setup file asks for explicit profiling (enable(), or a
    decoration under LINE_PROFILE / --line-profile); what appears at interpreter exit?"""
    import json
    d = tempfile.mkdtemp(prefix='c14kp_', dir=tmp)
    try:
        with open(os.path.join(d, 'setup_code.py'), 'w') as fh:
            fh.write(KP_SETUP % dict(cfg=json.dumps(dict(how=case['how'], prefix=case.get('prefix'), wc=case['wc']))))
        with open(os.path.join(d, 'script.py'), 'w') as fh:
            fh.write(KP_SCRIPT_EXPLICIT if case.get('explicit') else KP_SCRIPT)
        env = dict(os.environ)
        env.pop('LINE_PROFILE', None)
        if case['env'] is not None:
            env['LINE_PROFILE'] = case['env']
        mode = case.get('mode', ['-l'])
        setup = ['-s', 'setup_code.py'] if case['how'] else []
        p = subprocess.run([sys.executable, '-m', 'kernprof'] + mode + setup + ['script.py'] + case['args'], cwd=d, env=env,
                           stdout=subprocess.PIPE, stderr=subprocess.PIPE, text=True, timeout=120)
        obs, obs2 = ({} if not case['how'] else None), None
        for line in p.stdout.splitlines():
            if line.startswith('OBS '):
                obs = json.loads(line[4:])
            if line.startswith('OBS2 '):
                obs2 = json.loads(line[5:])
        names = [n for n in list_files(d) if n not in ('setup_code.py', 'script.py', 'script.py.lprof', 'script.py.prof')
                 and not n.startswith('__pycache__')]
        prefix = case['prefix'] if case['how'] == 'enable' else 'profile_output'
        seen, ts = classify_outputs(prefix, names, p.stdout)
        return dict(rc=p.returncode, obs=obs, obs2=obs2, seen=seen, ts=ts, prefix=prefix,
                    kernprof_out=os.path.exists(os.path.join(d, 'script.py.lprof' if '-l' in mode else 'script.py.prof')),
                    traceback=('Traceback' in p.stderr or 'Exception ignored' in p.stderr), stderr=p.stderr[-400:])
    finally:
        shutil.rmtree(d, ignore_errors=True)


OPS_SCRIPT = '''
import sys, json
import line_profiler
from line_profiler import profile
CFG = json.loads(%(cfg)r)
sames = []
for k, (op, arg) in enumerate(CFG['ops']):
    if op == 'enable':
        profile.enable() if arg is None else profile.enable(output_prefix=arg)
    elif op == 'disable':
        profile.disable()
    elif op == 'decorate_sub':
        # the same decorator, imported through the sub-module path
        from line_profiler.explicit_profiler import profile as sub_profile
        def fs(x, k=k):
            return x - k
        FS = sub_profile(fs)
        FS(1)
        sames.append(FS is fs)
    elif op == 'decorate_ghost':
        # a function whose source file does not exist (code built with exec), decorated and NEVER called
        ns = {}
        exec(compile('def ghost(x):\\n    y = x + 1\\n    return y\\n', '/nowhere/gone_' + str(k) + '.py', 'exec'), ns)
        g = ns['ghost']
        G = profile(g)
        sames.append(G is g)
    else:
        def f(x, k=k):
            return x + k
        F = profile(f)
        F(1)
        sames.append(F is f)
profile.write_config.update(CFG['wc'])
profile.show_config.update(CFG.get('show') or {})
# the observation goes through a file: the program's stdout may have any encoding (PYTHONIOENCODING)
with open('c14_observation.json', 'w', encoding='utf-8') as _fh:
    json.dump(dict(sames=sames, impl=line_profiler.__file__, argv=sys.argv), _fh)
'''


def run_sub_ops(case, tmp):
    """a whole interpreter run of an arbitrary enable / disable / decorate history; what appears at exit?"""
    import json
    d = tempfile.mkdtemp(prefix='c14ops_', dir=tmp)
    try:
        with open(os.path.join(d, 'prog.py'), 'w') as fh:
            fh.write(OPS_SCRIPT % dict(cfg=json.dumps(dict(ops=case['ops'], wc=case['wc'], show=case.get('show')))))
        env = dict(os.environ)
        env.pop('LINE_PROFILE', None)
        env.pop('PYTHONIOENCODING', None)
        if case.get('ioenc'):
            env['PYTHONIOENCODING'] = case['ioenc']      # the encoding of the interpreter's stdout
        if case['env'] is not None:
            env['LINE_PROFILE'] = case['env']
        p = subprocess.run([sys.executable, 'prog.py'] + case['args'], cwd=d, env=env,
                           stdout=subprocess.PIPE, stderr=subprocess.PIPE, timeout=120)
        enc = (case.get('ioenc') or 'utf-8').split(':')[0]
        out_text = p.stdout.decode(enc, errors='replace')        # the child's stdio is read in the child's own encoding
        err_text = p.stderr.decode(enc, errors='replace')
        obs = None
        if os.path.exists(os.path.join(d, 'c14_observation.json')):
            with open(os.path.join(d, 'c14_observation.json'), encoding='utf-8') as fh:
                obs = json.load(fh)
        names = [n for n in list_files(d) if n not in ('prog.py', 'c14_observation.json') and not n.startswith('__pycache__')]
        prefix = 'profile_output'
        for op, arg in case['ops']:
            if op == 'enable' and arg is not None:
                prefix = arg
        seen, ts = classify_outputs(prefix, names, out_text)
        return dict(rc=p.returncode, obs=obs, seen=seen, ts=ts, prefix=prefix,
                    traceback=('Traceback' in err_text or 'Exception ignored' in err_text), stderr=err_text[-400:])
    finally:
        shutil.rmtree(d, ignore_errors=True)


def run_sub(case, tmp):
    import json
    d = tempfile.mkdtemp(prefix='c14sub_', dir=tmp)
    try:
        cfg = dict(pre=case['pre'], mid=case['mid'], wc=case['wc'], prefix=case.get('prefix'))
        with open(os.path.join(d, 'prog.py'), 'w') as fh:
            fh.write(SCRIPT % dict(cfg=json.dumps(cfg)))
        env = dict(os.environ)          # the driver already runs under core.impl_env(impl)
        env.pop('LINE_PROFILE', None)
        if case['env'] is not None:
            env['LINE_PROFILE'] = case['env']
        p = subprocess.run([sys.executable, 'prog.py'] + case['args'], cwd=d, env=env,
                           stdout=subprocess.PIPE, stderr=subprocess.PIPE, text=True, timeout=120)
        obs = None
        for line in p.stdout.splitlines():
            if line.startswith('OBS '):
                obs = json.loads(line[4:])
        names = [n for n in list_files(d) if n != 'prog.py' and not n.startswith('__pycache__')]
        prefix = case.get('prefix') if case['pre'] == 'enable_prefix' else 'profile_output'
        seen, ts = classify_outputs(prefix, names, p.stdout)
        return dict(rc=p.returncode, obs=obs, seen=seen, ts=ts, stderr=p.stderr[-400:], prefix=prefix)
    finally:
        shutil.rmtree(d, ignore_errors=True)


def main():
    payload = read_payload()
    import line_profiler.explicit_profiler as EP
    from line_profiler.line_profiler import LineProfiler as RealLP
    real_atexit = EP.atexit
    tmp = payload['tmp']
    os.makedirs(tmp, exist_ok=True)
    hist = [run_history(EP, RealLP, c) for c in payload.get('hist', [])]
    show = [run_show(EP, RealLP, c, tmp) for c in payload.get('show', [])]
    EP.LineProfiler = RealLP
    EP.atexit = real_atexit
    with ThreadPoolExecutor(max_workers=8) as ex:
        sub = list(ex.map(lambda c: run_sub(c, tmp), payload.get('sub', [])))
        subkp = list(ex.map(lambda c: run_sub_kernprof(c, tmp), payload.get('subkp', [])))
        subops = list(ex.map(lambda c: run_sub_ops(c, tmp), payload.get('subops', [])))
    emit(dict(hist=hist, show=show, sub=sub, subkp=subkp, subops=subops))


if __name__ == '__main__':
    main()
