"""Two-phase oracle for the tracer engine (C01 C02 C04 C12 C13).

Phase A: the program runs with an always-on sys.settrace recorder and a subclass of the
REAL LineProfiler whose enable()/disable() only log markers (registration, NOP padding and
the by-count logic are the real ones).  The recorder logs every line/return event of the
program's own code, registrations, clock advances and snapshot points: the *history*.
Phase B: a fresh exec of the same program under the real profiler and the virtual clock
(LD_PRELOAD harness/vclock.so); every snapshot (get_stats) and the final bucket map are
recorded.  Both phases run in this process (same hash salt).
"""
import ctypes
import gc
import faulthandler
import os
import sys
import threading

from harness.drivers.common import read_payload, emit

NOP2 = None


class Recorder:
    def __init__(self, files):
        self.files = set(files)
        self.ops = []
        self.codes = []          # list of dict(b,k,lbl,hash,lines)
        self.cid_by_key = {}
        self.keep = []           # keep code objects alive
        self.by_id = {}
        self.labels = {}
        self.bases = {}
        self.padinfo = {}        # co_code bytes -> (base bytes, k)
        self.tids = {}
        self.serial = 0
        self.wf_errors = []
        self.direct = []
        self.lock = threading.Lock()

    def tid(self):
        i = threading.get_ident()
        if i not in self.tids:
            self.tids[i] = len(self.tids)
        return self.tids[i]

    def label(self, code):
        key = (os.path.basename(code.co_filename), code.co_firstlineno, code.co_name)
        if key not in self.labels:
            self.labels[key] = len(self.labels)
        return self.labels[key]

    def scan_lines(self, code):
        n = len(code.co_code)
        table = [-1] * n
        for start, end, line in code.co_lines():
            for off in range(start, min(end, n)):
                table[off] = -1 if line is None else line
        out = []
        seen = set()
        for off in range(n):
            l = table[off]
            if l not in seen:
                seen.add(l)
                out.append(l)
        return out

    def cid(self, code):
        c = self.by_id.get(id(code))
        if c is not None:
            return c
        c = self._cid(code)
        self.by_id[id(code)] = c
        self.keep.append(code)
        return c

    def _cid(self, code):
        lbl = self.label(code)
        key = (code.co_code, lbl)
        c = self.cid_by_key.get(key)
        if c is None:
            base, k = self.padinfo.get(code.co_code, (code.co_code, 0))
            if base not in self.bases:
                self.bases[base] = len(self.bases)
            c = len(self.codes)
            self.cid_by_key[key] = c
            self.codes.append(dict(b=self.bases[base], k=k, lbl=lbl, hash=hash(code.co_code), lines=self.scan_lines(code),
                                   name=code.co_name, first=code.co_firstlineno))
            self.keep.append(code)
        return c

    def note_padding(self, before, after):
        if after is not before and after.co_code != before.co_code:
            base, k = self.padinfo.get(before.co_code, (before.co_code, 0))
            delta = (len(after.co_code) - len(before.co_code)) // 2
            self.padinfo[after.co_code] = (base, k + delta)

    # ---- sys.settrace recorder (phase A) ---------------------------------------
    def gtrace(self, frame, event, arg):
        if event != 'call' or frame.f_code.co_filename not in self.files:
            return None
        lt = frame.f_trace
        if isinstance(lt, Local):
            lt.seg += 1
        else:
            self.serial += 1
            lt = Local(self, self.serial, self.cid(frame.f_code))
        # who runs this activation segment: the profiler's wrapper (call / send / throw from profiler_mixin.py) or
        # somebody else (an undecorated call, or the interpreter finalising an abandoned generator directly)
        back = frame.f_back
        if back is None or not back.f_code.co_filename.endswith('profiler_mixin.py'):
            self.direct.append([lt.fid, lt.seg])
        return lt


class Local:
    __slots__ = ('rec', 'fid', 'seg', 'c')

    def __init__(self, rec, fid, c):
        self.rec, self.fid, self.seg, self.c = rec, fid, 0, c

    def __call__(self, frame, event, arg):
        rec = self.rec
        if event == 'line':
            rec.ops.append(('L', rec.tid(), self.c, self.fid, self.seg, frame.f_lineno))
        elif event == 'return':
            rec.ops.append(('R', rec.tid(), self.c, self.fid, self.seg, frame.f_lineno))
        return self


def code_of(func):
    try:
        return func.__code__
    except AttributeError:
        return func.__func__.__code__


def make_prof_class(rec, phase):
    from line_profiler import LineProfiler

    class Prof(LineProfiler):
        def add_function(self, func):
            try:
                before = code_of(func)
            except AttributeError:
                return LineProfiler.add_function(self, func)
            cb = rec.cid(before)
            result = LineProfiler.add_function(self, func)
            after = code_of(func)
            rec.note_padding(before, after)
            ca = rec.cid(after)
            if phase == 'A':
                rec.ops.append(('G', cb, ca))
            return result         # (transparent for callers that look at what add_function returns)

        if phase == 'A':
            # windows the PROGRAM opens and closes itself (`with prof:`, prof.enable_by_count() in its own files), as
            # opposed to the ones the wrappers and the auto-profiling hook open: while the program holds one open, its
            # thread must stay enabled
            def enable_by_count(self):
                if sys._getframe(1).f_code.co_filename in rec.files:
                    rec.ops.append(('WO', rec.tid()))
                LineProfiler.enable_by_count(self)

            def disable_by_count(self):
                if sys._getframe(1).f_code.co_filename in rec.files:
                    rec.ops.append(('WC', rec.tid()))
                LineProfiler.disable_by_count(self)

            def __enter__(self):
                if sys._getframe(1).f_code.co_filename in rec.files:
                    rec.ops.append(('WO', rec.tid()))
                LineProfiler.enable_by_count(self)

            def __exit__(self, *a):
                if sys._getframe(1).f_code.co_filename in rec.files:
                    rec.ops.append(('WC', rec.tid()))
                LineProfiler.disable_by_count(self)

            def enable(self):
                rec.ops.append(('E', rec.tid()))

            def disable(self):
                rec.ops.append(('D', rec.tid()))
    return Prof


class P:
    def __init__(self, phase, rec, prof, ns, lib, snaps):
        self.phase, self.rec, self.prof, self.ns, self.lib, self.snaps = phase, rec, prof, ns, lib, snaps
        self.raw = {}
        self.baton = None
        self.sched = None
        self.not_registered = []
        self.impure = []
        self.peeks = []
        self.counts = {}

    def fn(self, name):
        return self.ns[name]

    def filename(self, fn):
        import os
        path = os.path.join(self.root, 'p%d_%s' % (self.k, fn))
        self.rec.files.add(path)
        return path

    def rawfn(self, name):
        f = self.ns[name]
        while hasattr(f, '__wrapped__'):
            f = f.__wrapped__
        return f

    def reg(self, name):
        self.prof.add_function(self.rawfn(name))

    def deco(self, name):
        self.ns[name] = self.prof(self.ns[name])
        if self.phase == 'A':
            # from now on every execution of this function goes through the profiler's wrapper
            self.rec.ops.append(('W', self.rec.label(code_of(self.rawfn(name)))))
        self._check_registered([name], 'the decorator')

    def _check_registered(self, names, how):
        # the intent of every registration entry point: afterwards the profiler knows THIS function object's code
        known = list(self.prof.code_hash_map)
        for nm in names:
            code = code_of(self.rawfn(nm))
            if not any(k is code or (k == code and k.co_filename == code.co_filename) for k in known):
                self.not_registered.append('%s via %s' % (nm, how))

    def addmod(self, names):
        import types
        mod = types.ModuleType('m_' + '_'.join(names))
        for nm in names:
            setattr(mod, nm, self.rawfn(nm))
        self.prof.add_module(mod)
        self._check_registered(names, 'add_module')

    def addcls(self, names):
        # the functions as methods of a class inside a module (add_module walks classes too)
        import types
        mod = types.ModuleType('mc_' + '_'.join(names))
        cls = type('K', (), {nm: self.rawfn(nm) for nm in names})
        cls.__module__ = mod.__name__
        mod.K = cls
        self.prof.add_module(mod)
        self._check_registered(names, 'add_module(class)')

    def regimp(self, names, as_class=False):
        # the entry point the auto-profiling rewriter calls after a selected import; it switches the profiler on
        # (by count) as well, main() balances that with P.unwind()
        from line_profiler.autoprofile.line_profiler_utils import add_imported_function_or_module
        if as_class:
            item = type('K', (), {nm: self.rawfn(nm) for nm in names})
            add_imported_function_or_module(self.prof, item)
        else:
            for nm in names:
                add_imported_function_or_module(self.prof, self.rawfn(nm))
        self._check_registered(names, 'add_imported_function_or_module' + ('(class)' if as_class else ''))

    def unwind(self):
        while self.prof.enable_count > 0:
            self.prof.disable_by_count()

    def bare_on(self):
        self.prof.enable()

    def bare_off(self):
        self.prof.disable()

    def adv(self, d):
        if self.phase == 'A':
            self.rec.ops.append(('A', d))
        else:
            self.lib.vclock_advance(d)
        if self.baton is not None:
            self.baton.handoff()

    def snap(self, mode=0):
        # reference cycles (e.g. a wrapper frame <-> the exception it forwards) make the moment abandoned
        # generators are finalised depend on the cyclic collector; automatic collection is off in this driver
        # and cycles are collected HERE, at the same point of both phases, so the two executions see the
        # finalisers' events at the same place
        gc.collect()
        n0 = len(self.rec.ops)
        me = self.rec.tid() if self.phase == 'A' else None
        if mode == 1:
            # the text report is a reader too
            import io
            self.prof.print_stats(stream=io.StringIO())
            st = self.prof.get_stats()
        elif mode == 2:
            # and so is the pickle: what was written is what is compared
            from line_profiler import load_stats
            path = os.path.join(self.root, 'snap_%d_%d.lprof' % (self.k, threading.get_ident()))
            self.prof.dump_stats(path)
            st = load_stats(path)
            os.unlink(path)
        else:
            st = self.prof.get_stats()
        if self.phase == 'A':
            # a read is pure: it performs no profiler operation (enable/disable/registration) in this thread
            for op in self.rec.ops[n0:]:
                if op[0] == 'G' or (op[0] in ('E', 'D') and op[1] == me):
                    self.impure.append([mode, list(op)])
            self.rec.ops.append(('S',))
        else:
            out = []
            for (fn, ln, nm), ents in st.timings.items():
                key = (os.path.basename(fn), ln, nm)
                out.append([self.rec.labels.get(key, -1), [list(e) for e in ents]])
            out.sort()
            self.snaps.append(dict(unit=st.unit, timings=out))

    def peek(self, mode=0):
        # a monitoring thread reads the statistics while workers run: the value depends on the schedule, so it
        # is only required to be well-formed and below the final snapshot; it must not change later results
        if self.phase == 'A':
            return
        if mode == 1:
            import io
            self.prof.print_stats(stream=io.StringIO())
        st = self.prof.get_stats()
        out = []
        for (fn, ln, nm), ents in st.timings.items():
            key = (os.path.basename(fn), ln, nm)
            out.append([self.rec.labels.get(key, -1), [list(e) for e in ents]])
        out.sort()
        self.peeks.append(out)

    # threads (C13): real threads, joined; the schedule is whatever the interpreter does
    def yield_(self):
        import time
        if self.baton is not None:
            self.baton.handoff()
        else:
            time.sleep(0)

    def note_count(self, k):
        self.counts[k] = self.prof.enable_count

    def run_threads(self, work, n):
        if self.sched is not None:
            # an explicit schedule: one thread runs at a time, switches happen at the A()/yield points (between two
            # line events of the running code, also deep inside profiled functions) as a seeded PRNG decides; both
            # phases replay the same schedule
            self.baton = Baton(n, self.sched)
            try:
                self.baton.run(work)
            finally:
                self.baton = None
            return
        if getattr(self, 'raw_threads', False):
            # threads that the `threading` module did not start (as a C extension or a GUI toolkit starts them):
            # _thread.start_new_thread, joined through locks
            import _thread
            done = [_thread.allocate_lock() for _ in range(n)]
            for lk in done:
                lk.acquire()

            def runner(k):
                # what threading.Thread does for its threads: the recorder of phase A (threading.settrace) is
                # installed here too
                hook = getattr(threading, '_trace_hook', None)
                if hook is not None:
                    sys.settrace(hook)
                try:
                    work(k)
                finally:
                    done[k].release()
            for k in range(n):
                _thread.start_new_thread(runner, (k,))
            for lk in done:
                lk.acquire()
            return
        ts = [threading.Thread(target=work, args=(k,)) for k in range(n)]
        for t in ts:
            t.start()
        for t in ts:
            t.join()


class Baton:
    def __init__(self, n, seed):
        import random
        self.n = n
        self.rnd = random.Random(seed)
        self.cv = threading.Condition()
        self.alive = set(range(n))
        self.turn = 0
        self.idx = {}
        self.errors = []

    def _me(self):
        return self.idx.get(threading.get_ident())

    def handoff(self):
        me = self._me()
        if me is None or me not in self.alive:
            return
        with self.cv:
            others = sorted(self.alive - {me})
            if not others or self.rnd.random() < 0.4:
                return
            self.turn = self.rnd.choice(others)
            self.cv.notify_all()
            while self.turn != me:
                self.cv.wait()

    def run(self, work):
        def runner(k):
            self.idx[threading.get_ident()] = k
            with self.cv:
                while self.turn != k:
                    self.cv.wait()
            try:
                try:
                    work(k)
                except BaseException as e:   # noqa
                    # caught HERE, so that the frames of work() (and the generators they abandon) are released while this
                    # thread still holds the turn; a worker that has left the schedule must not wait for a turn again
                    self.errors.append('%d: %s: %s' % (k, type(e).__name__, e))
                    e = None
            finally:
                with self.cv:
                    self.alive.discard(k)
                    if self.alive:
                        self.turn = self.rnd.choice(sorted(self.alive))
                    self.cv.notify_all()
        ts = [threading.Thread(target=runner, args=(k,)) for k in range(self.n)]
        for t in ts:
            t.start()
        for t in ts:
            t.join()
        if self.errors:
            raise RuntimeError('worker threads ended with: ' + '; '.join(sorted(self.errors)))


def run_program(prog, root, lib, k):
    files = {}
    for fn, text in prog['files']:
        files[fn] = (os.path.join(root, 'p%d_%s' % (k, fn)), text)
    result = dict()
    rec = Recorder([p for p, _ in files.values()])
    for phase in ('A', 'B'):
        ns = {'__name__': 'prog'}
        snaps = []
        Prof = make_prof_class(rec, phase)
        prof = Prof()
        h = P(phase, rec, prof, ns, lib, snaps)
        h.root, h.k = root, k
        h.sched = prog.get('sched')
        h.raw_threads = 'rawthreads' in (prog.get('features') or [])
        ns['A'] = h.adv
        ns['PROF'] = prof
        ns['SNAP'] = h.snap
        for fn, (path, text) in files.items():
            if fn == 'main.py' or not fn.startswith('twin'):
                exec(compile(text, path, 'exec'), ns, ns)
            else:
                ns2 = {'__name__': 'twinmod', 'A': h.adv, 'PROF': prof, 'SNAP': h.snap}
                exec(compile(text, path, 'exec'), ns2, ns2)
                for nm, v in list(ns2.items()):
                    if nm[:1] == 'f' and nm[1:].isdigit() and callable(v):
                        ns['u' + nm[1:]] = v
        err = None
        if phase == 'A':
            threading.settrace(rec.gtrace)
            sys.settrace(rec.gtrace)
        try:
            try:
                ns['main'](h)
            except BaseException as e:   # noqa
                err = '%s: %s' % (type(e).__name__, e)
            # also when main() was aborted by an exception: what it leaves behind (suspended generators, their
            # wrappers, cycles through the traceback) is finalised HERE - after the handler released the exception,
            # inside the recorded / profiled window of both phases - not at some later allocation
            gc.collect()
        finally:
            if phase == 'A':
                sys.settrace(None)
                threading.settrace(None)
            else:
                while prof.enable_count > 0:
                    prof.disable_by_count()
                # a program aborted inside a plain enable()/disable() window leaves the profiler on (count 0): switch
                # it off so that the next program of this worker starts from a clean interpreter
                prof.disable()
        if phase == 'A':
            result['errA'] = err
            result['ops'] = rec.ops
            result['ncodesA'] = len(rec.codes)
            result['direct_segs'] = rec.direct
            result['impure'] = h.impure
            result['not_registered'] = list(h.not_registered)
        else:
            result['errB'] = err
            result['snaps'] = snaps
            cm = prof.c_code_map
            result['cmap'] = sorted([int(kk), sorted([int(l), int(v['nhits']), int(v['total_time'])] for l, v in vv.items())]
                                    for kk, vv in cm.items())
            result['chm'] = [[rec.cid(code), [int(x) for x in hs]] for code, hs in prof.code_hash_map.items()]
            result['counts'] = h.counts
            result['not_registered'] = sorted(set(result.get('not_registered', []) + h.not_registered))
            result['peeks'] = h.peeks
            result['gettrace_clear'] = sys.gettrace() is None
            try:
                result['tool_free'] = sys.monitoring.get_tool(sys.monitoring.PROFILER_ID) is None
            except Exception:   # noqa
                result['tool_free'] = True
    result['codes'] = rec.codes
    result['labels'] = [[i, list(kk)] for kk, i in rec.labels.items()]
    result['nthreads'] = len(rec.tids)
    return result


def main():
    payload = read_payload()
    gc.disable()
    lib = ctypes.CDLL(None)
    try:
        lib.vclock_advance.argtypes = [ctypes.c_int64]
        lib.vclock_now.restype = ctypes.c_int64
        have_clock = True
    except AttributeError:
        have_clock = False
    if have_clock:
        import line_profiler._line_profiler as _lp
        lib.vclock_add_range.argtypes = [ctypes.c_uint64, ctypes.c_uint64]
        so = os.path.realpath(_lp.__file__)
        n = 0
        for line in open('/proc/self/maps'):
            parts = line.split()
            if len(parts) >= 6 and os.path.realpath(parts[5]) == so and 'x' in parts[1]:
                lo, hi = parts[0].split('-')
                lib.vclock_add_range(int(lo, 16), int(hi, 16))
                n += 1
        if n == 0:
            have_clock = False
    root = payload['root']
    os.makedirs(root, exist_ok=True)
    out = []
    if have_clock:
        lib.vclock_set_tick.argtypes = [ctypes.c_int64]
    for k, prog in enumerate(payload['programs']):
        if have_clock:
            lib.vclock_set_tick(int(prog.get('tick', 0)))
        faulthandler.dump_traceback_later(150, exit=True)
        try:
            r = run_program(prog, root, lib, k)
        except BaseException as e:   # noqa
            import traceback
            r = dict(fatal=traceback.format_exc()[-1500:])
        faulthandler.cancel_dump_traceback_later()
        gc.collect()        # nothing of this program is left to be finalised inside the next one
        out.append(r)
    emit(dict(out=out, have_clock=have_clock))


if __name__ == '__main__':
    main()
