"""Implementation side of C07, in-process part: call the rebuilt kernprof.main and look
at the interpreter's thread state when it returns (no stopwatch): which
non-daemon helper threads are alive, how many RepeatedTimer objects were
created / stopped.  The wrappers below are installed on the imported class
object in this driver process only; /repo is not touched."""
import contextlib
import io
import os
import sys
import threading

from harness.drivers.common import read_payload, emit


def main():
    payload = read_payload()
    import kernprof
    import line_profiler
    counts = dict(created=0, stopped=0, fired=0)
    RT = kernprof.RepeatedTimer
    orig_init, orig_stop, orig_run = RT.__init__, RT.stop, RT._run

    def init(self, *a, **k):
        counts['created'] += 1
        return orig_init(self, *a, **k)

    def stop(self):
        counts['stopped'] += 1
        return orig_stop(self)

    def _run(self):
        counts['fired'] += 1
        return orig_run(self)
    RT.__init__, RT.stop, RT._run = init, stop, _run
    out = []
    home = os.getcwd()
    for run in payload['runs']:
        for k in counts:
            counts[k] = 0
        argv0, path0 = sys.argv, list(sys.path)
        prof0 = (line_profiler.profile.enabled, line_profiler.profile._profile)
        before = set(threading.enumerate())
        os.chdir(run['cwd'])
        buf, ebuf = io.StringIO(), io.StringIO()
        exc = None
        try:
            with contextlib.redirect_stdout(buf), contextlib.redirect_stderr(ebuf):
                kernprof.main(list(run['args']))
        except BaseException as e:  # noqa
            exc = type(e).__name__
        alive = [t for t in threading.enumerate() if t not in before and t.is_alive()]
        rec = dict(exc=exc, created=counts['created'], stopped=counts['stopped'], fired=counts['fired'],
                   helpers=[dict(cls=type(t).__name__, daemon=t.daemon, timer=isinstance(t, threading.Timer)) for t in alive],
                   live_nondaemon=sum(1 for t in alive if not t.daemon),
                   stdout_tail=buf.getvalue()[-300:], stderr=ebuf.getvalue()[-600:])
        # clean up so that the next run starts from the same state
        for t in alive:
            if isinstance(t, threading.Timer):
                t.cancel()
        for t in alive:
            t.join(5)
        rec['alive_after_cleanup'] = sum(1 for t in alive if t.is_alive())
        sys.argv = argv0
        sys.path[:] = path0
        line_profiler.profile.enabled, line_profiler.profile._profile = prof0
        import builtins
        builtins.__dict__.pop('profile', None)
        os.chdir(home)
        out.append(rec)
    import kernprof as K
    emit(dict(runs=out, kernprof_file=K.__file__))


if __name__ == '__main__':
    main()
