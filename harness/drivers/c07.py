"""Implementation side of C07, in-process part: call the rebuilt kernprof.main and look
at the interpreter's thread state when it returns (no stopwatch): which
non-daemon helper threads are alive, how many RepeatedTimer objects were
created / stopped.  The wrappers below are installed on the imported class
object in this driver process only; /repo is not touched."""
import contextlib
import io
import os
import sys
import threading

from harness.drivers.common import read_payload, emit

# a run with "block": true makes the periodic dump deterministic-ally slow: the dump
# called from a timer thread signals DUMP_STARTED and waits for RELEASE; the profiled
# program (which runs in this process) waits for DUMP_STARTED before it ends, so main's
# rt.stop() arrives while a dump is in flight - by state, not by timing
DUMP_STARTED = threading.Event()
RELEASE = threading.Event()
STATE = dict(block=False, entered=[], left=0)


def main():
    payload = read_payload()
    import kernprof
    import line_profiler
    counts = dict(created=0, stopped=0, fired=0)
    RT = kernprof.RepeatedTimer
    orig_init, orig_stop, orig_run = RT.__init__, RT.stop, RT._run

    def init(self, *a, **k):
        counts['created'] += 1
        orig_init(self, *a, **k)
        real = self.dump_func

        def dump(outfile):
            if STATE['block'] and threading.current_thread() is not threading.main_thread():
                STATE['entered'].append(threading.current_thread())
                DUMP_STARTED.set()
                RELEASE.wait(30)
            try:
                return real(outfile)
            finally:
                if threading.current_thread() in STATE['entered']:
                    STATE['left'] += 1
        self.dump_func = dump

    def stop(self):
        counts['stopped'] += 1
        return orig_stop(self)

    def _run(self):
        counts['fired'] += 1
        return orig_run(self)
    RT.__init__, RT.stop, RT._run = init, stop, _run
    out = []
    home = os.getcwd()
    for run in payload['runs']:
        for k in counts:
            counts[k] = 0
        argv0, path0 = sys.argv, list(sys.path)
        prof0 = (line_profiler.profile.enabled, line_profiler.profile._profile)
        before = set(threading.enumerate())
        DUMP_STARTED.clear()
        RELEASE.clear()
        STATE.update(block=bool(run.get('block')), entered=[], left=0)
        os.chdir(run['cwd'])
        buf, ebuf = io.StringIO(), io.StringIO()
        exc = None
        try:
            with contextlib.redirect_stdout(buf), contextlib.redirect_stderr(ebuf):
                kernprof.main(list(run['args']))
        except BaseException as e:  # noqa
            exc = type(e).__name__
        # dumps in flight when main returned: let them finish (this is where a timer that
        # re-arms after its dump would come back to life), then look at what is left
        inflight = len(STATE['entered']) - STATE['left']
        RELEASE.set()
        for t in list(STATE['entered']):
            t.join(20)
        STATE['block'] = False
        # a cancelled Timer (finished is set) is not pending: its thread is on its way out
        for t in threading.enumerate():
            if t not in before and isinstance(t, threading.Timer) and t.finished.is_set():
                t.join(10)
        alive = [t for t in threading.enumerate() if t not in before and t.is_alive()]
        rec = dict(inflight=inflight, exc=exc, created=counts['created'], stopped=counts['stopped'], fired=counts['fired'],
                   helpers=[dict(cls=type(t).__name__, daemon=t.daemon, timer=isinstance(t, threading.Timer)) for t in alive],
                   live_nondaemon=sum(1 for t in alive if not t.daemon),
                   stdout_tail=buf.getvalue()[-300:], stderr=ebuf.getvalue()[-600:])
        # clean up so that the next run starts from the same state
        for t in alive:
            if isinstance(t, threading.Timer):
                t.cancel()
        for t in alive:
            t.join(5)
        rec['alive_after_cleanup'] = sum(1 for t in alive if t.is_alive())
        sys.argv = argv0
        sys.path[:] = path0
        line_profiler.profile.enabled, line_profiler.profile._profile = prof0
        import builtins
        builtins.__dict__.pop('profile', None)
        os.chdir(home)
        out.append(rec)
    import kernprof as K
    emit(dict(runs=out, kernprof_file=K.__file__))


if __name__ == '__main__':
    main()
