"""Implementation side of C20: drive the real %lprun magic inside an in-process
IPython (IPython.testing.globalipapp, as /repo/tests/test_ipython.py does).

The only instrumentation lives here, never in /repo:
  * `line_profiler.ipython_extension.page` is replaced by a recorder;
  * every statement starts with `_c20_grab()`, an ordinary (unnamed, hence
    unprofiled) function of the user namespace that notes what
    builtins.__dict__['profile'] is while the statement runs.
Payload: {tmp, cases:[{pre_profile, invs:[{line, stmt_calls..., T, D, u, s, post}]}]}."""
import builtins
import contextlib
import io
import os
import shutil
import sys
import tempfile

from harness.drivers.common import read_payload, emit

def loop_src(name, e, k, indent='', self_=False):
    """a Loop-e function: 4 + e body lines, distinct bytecode length per e"""
    ls = ['def %s(%sn):' % (name, 'self, ' if self_ else ''), '    s = 0', '    for i in range(n):', '        s += i']
    ls += ['    s += %d' % k] * e + ['    return s']
    return ''.join(indent + l + '\n' for l in ls)


MOD_A = '''\
# module a of the C20 universe
def a0(n):
    s = 0
    for i in range(n):
        s += i
    s += 3
    s += 3
    s += 3
    return s
def a1(n):
    s = 0
    for i in range(n):
        s += i
    s += 4
    s += 4
    s += 4
    s += 4
    return s
class KA:
    def am(self, n):
        s = 0
        for i in range(n):
            s += i
        s += 5
        s += 5
        s += 5
        s += 5
        s += 5
        return s
def one(n): return n - 3
lam2 = lambda n: n // 2
'''

# two vendored copies of one helper file: value-equal code objects (same name, same line,
# same body) that differ only in co_filename, both bound in ONE module
VENDORED = '# vendored helper\n' + '#\n' * 130 + loop_src('norm', 11, 11)
MOD_W = 'from c20v_a.textutil import norm as norm_a\nfrom c20v_b.textutil import norm as norm_b\n'

MOD_B = '''\
# module b of the C20 universe
#
#
#
#
#
#
#
#
#
#
#
#
#
#
#
#
#
#
#
#
#
#
#
#
#
#
#
#
#
def b0(n):
    s = 0
    for i in range(n):
        s += i
    s += 6
    s += 6
    s += 6
    s += 6
    s += 6
    s += 6
    return s
def wb(n):
    r = b0(n)
    return r
class KB:
    def bm(self, n):
        s = 0
        for i in range(n):
            s += i
        s += 7
        s += 7
        s += 7
        s += 7
        s += 7
        s += 7
        s += 7
        return s
'''

# a package whose __init__ has its own functions and a sub-module with different ones:
# `-m c20pkg.sub` must profile sub's functions, `-m c20pkg` the package's
PKG_INIT = '# package of the C20 universe\n' + '#\n' * 70 + loop_src('pinit', 8, 8) + 'def pw(n):\n    r = pinit(n)\n    return r\n'
PKG_SUB = '# sub-module of the C20 universe\n' + '#\n' * 100 + loop_src('ps0', 9, 9) + 'class KS:\n' + loop_src('pm', 10, 10, indent='    ', self_=True)

CELL = '''\
import c20m_a, c20m_b
import c20pkg.sub
import c20base, c20m_d, c20t_1, c20t_2, c20t_3
def c0(n):
    s = 0
    for i in range(n):
        s += i
    return s
def c1(n):
    s = 0
    for i in range(n):
        s += i
    s += 1
    return s
def c2(n):
    s = 0
    for i in range(n):
        s += i
    s += 2
    s += 2
    return s
def w0(n):
    r = c0(n)
    return r
def x_exit():
    raise SystemExit(3)
def x_kbd():
    raise KeyboardInterrupt
def x_err():
    raise ValueError("c20")
def sq(n): return n * n
lam = lambda n: n + 1
import c20m_w
'''

# function id -> (expression reaching the function object, number of lines in the hits vector[, offset of
# its first line from co_firstlineno: 1 = the line after `def` (default), 0 = the header line itself])
UNIVERSE = {
    0: ('c0', 4), 1: ('c1', 5), 2: ('c2', 6), 3: ('w0', 2), 4: ('x_exit', 1), 5: ('x_kbd', 1), 6: ('x_err', 1),
    7: ('sq', 1, 0), 8: ('lam', 1, 0),
    10: ('c20m_a.a0', 7), 11: ('c20m_a.a1', 8), 12: ('c20m_a.KA.am', 9), 13: ('c20m_a.one', 1, 0), 14: ('c20m_a.lam2', 1, 0),
    40: ('c20m_w.norm_a', 15), 41: ('c20m_w.norm_b', 15),
    50: ('ex0', 16), 51: ('ex1', 17),
    60: ('c20base.Base.describe', 18), 61: ('c20m_d.KD.own', 19),
    70: ('c20t_1.trip', 20), 71: ('c20t_2.trip', 20), 72: ('c20t_3.trip', 20),
    20: ('c20m_b.b0', 10), 21: ('c20m_b.wb', 2), 22: ('c20m_b.KB.bm', 11),
    30: ('c20pkg.pinit', 12), 31: ('c20pkg.pw', 2), 32: ('c20pkg.sub.ps0', 13), 33: ('c20pkg.sub.KS.pm', 14),
}
METHODS = (12, 22, 33, 60, 61)


class Sentinel:
    """a pre-existing builtins.profile that is not a profiler"""
    def __call__(self, f):
        return f


def main():
    payload = read_payload()
    root = tempfile.mkdtemp(prefix='c20_', dir=payload['tmp'])
    sys.path.insert(0, root)
    with open(os.path.join(root, 'c20m_a.py'), 'w') as f:
        f.write(MOD_A)
    with open(os.path.join(root, 'c20m_b.py'), 'w') as f:
        f.write(MOD_B)
    # a class of the named module inheriting a method from a base class that lives in ANOTHER module
    with open(os.path.join(root, 'c20base.py'), 'w') as f:
        f.write('# base of the C20 universe\n' + '#\n' * 160 + 'class Base:\n' + loop_src('describe', 14, 14, indent='    ', self_=True))
    with open(os.path.join(root, 'c20m_d.py'), 'w') as f:
        f.write('import c20base\n' + '#\n' * 190 + 'class KD(c20base.Base):\n' + loop_src('own', 15, 15, indent='    ', self_=True))
    # three byte-identical functions, all on the same line numbers, in three files
    for j in (1, 2, 3):
        with open(os.path.join(root, 'c20t_%d.py' % j), 'w') as f:
            f.write('# triplet\n' + '#\n' * 220 + loop_src('trip', 16, 16))
    for v in ('c20v_a', 'c20v_b'):
        os.makedirs(os.path.join(root, v))
        open(os.path.join(root, v, '__init__.py'), 'w').close()
        with open(os.path.join(root, v, 'textutil.py'), 'w') as f:
            f.write(VENDORED)
    with open(os.path.join(root, 'c20m_w.py'), 'w') as f:
        f.write(MOD_W)
    os.makedirs(os.path.join(root, 'c20pkg'))
    with open(os.path.join(root, 'c20pkg', '__init__.py'), 'w') as f:
        f.write(PKG_INIT)
    with open(os.path.join(root, 'c20pkg', 'sub.py'), 'w') as f:
        f.write(PKG_SUB)
    os.environ.setdefault('IPYTHONDIR', os.path.join(root, 'ipy'))
    from IPython.testing.globalipapp import get_ipython
    ip = get_ipython()
    ip.run_line_magic('load_ext', 'line_profiler')
    import line_profiler.ipython_extension as EXT
    from line_profiler import LineProfiler, load_stats
    pages = []
    EXT.page = lambda s, *a, **k: pages.append(s)
    with contextlib.redirect_stdout(io.StringIO()):
        ip.run_cell(raw_cell=CELL)
    # functions without a file: made by exec() under pseudo file names that have no linecache entry
    # (what dataclass / namedtuple generated methods, doctests, REPL input look like)
    exec(compile(loop_src('ex0', 12, 12), '<string>', 'exec'), ip.user_ns)
    exec(compile('\n' * 6 + loop_src('ex1', 13, 13), '<c20 generated code>', 'exec'), ip.user_ns)
    grabbed = []

    def _c20_grab():
        p = builtins.__dict__.get('profile')
        grabbed.append((p, getattr(p, 'enable_count', -1)))
    ip.user_ns['_c20_grab'] = _c20_grab
    funcs = {fid: eval(u[0], ip.user_ns) for fid, u in UNIVERSE.items()}
    by_code = {}
    for fid, fo in funcs.items():
        c = fo.__code__
        by_code[(c.co_filename, c.co_firstlineno, c.co_name)] = fid
    # add_function pads the bytecode of a duplicate IN PLACE (func.__code__ is rebound); every invocation gets the
    # functions as they were defined
    pristine = {fid: fo.__code__ for fid, fo in funcs.items()}
    sentinel = Sentinel()
    out_cases = []

    def stats_of(p):
        res = []
        for key, rows in p.get_stats().timings.items():
            fid = by_code.get(tuple(key), -1)
            n = UNIVERSE[fid][1] if fid in UNIVERSE else 0
            first = UNIVERSE[fid][2] if fid in UNIVERSE and len(UNIVERSE[fid]) > 2 else 1
            vec = [0] * n
            extra = 0
            for (line, hits, _t) in rows:
                off = line - key[1]
                if first <= off < first + n:
                    vec[off - first] = hits
                else:
                    extra += 1
            res.append([fid if not extra else -1, vec])
        return res

    def interp_state():
        import threading
        mon = getattr(sys, 'monitoring', None)
        tools = tuple(mon.get_tool(i) for i in range(6)) if mon else ()
        return (tools, repr(sys.gettrace()), repr(sys.getprofile()), repr(threading.gettrace()), repr(threading.getprofile()))

    def classify(obj, profs):
        if obj is None:
            return None
        if obj is sentinel:
            return 1
        for k, p in profs.items():
            if obj is p:
                return 100 + k
        return -1

    try:
        for c in payload['cases']:
            builtins.__dict__.pop('profile', None)
            if c['pre_profile']:
                builtins.__dict__['profile'] = sentinel
            profs = {}
            invs = []
            for k, iv in enumerate(c['invs']):
                for key in ('T', 'D'):
                    if iv.get(key):
                        iv[key + '_path'] = os.path.join(root, iv[key])
                        with contextlib.suppress(FileNotFoundError):
                            os.unlink(iv[key + '_path'])
                line = iv['line'].replace('@T@', iv.get('T_path', '')).replace('@D@', iv.get('D_path', ''))
                for fid, co in pristine.items():
                    if funcs[fid].__code__ is not co:
                        funcs[fid].__code__ = co
                b_before = classify(builtins.__dict__.get('profile'), profs)
                istate = interp_state()
                bsnap = {kk: id(v) for kk, v in builtins.__dict__.items() if kk != 'profile'}
                nsnap = set(ip.user_ns)
                del grabbed[:]
                npages = len(pages)
                buf = io.StringIO()
                ret = None
                exc = None
                try:
                    with contextlib.redirect_stdout(buf):
                        ret = ip.run_line_magic('lprun', line)
                except BaseException as e:  # noqa  (SystemExit / KeyboardInterrupt must not kill the driver)
                    exc = e
                so = buf.getvalue()
                ran = bool(grabbed)
                p = grabbed[0][0] if ran else None
                if not ran and exc is not None:
                    # the statement never started (it does not compile): the magic's profiler is still a
                    # local of the lprun frame in the traceback
                    tb = exc.__traceback__
                    while tb is not None:
                        cand = tb.tb_frame.f_locals.get('profile') if tb.tb_frame.f_code.co_name == 'lprun' else None
                        if isinstance(cand, LineProfiler):
                            p = cand
                        tb = tb.tb_next
                in_magic = p is not None and not ran
                is_prof = isinstance(p, LineProfiler)
                if is_prof and p is not sentinel and all(p is not q for q in profs.values()):
                    profs[k] = p
                o = dict(line=line)
                if exc is None:
                    o['kind'] = 0 if (ret is None or ret is p) else 4
                elif ran:
                    o['kind'] = 3
                elif type(exc).__name__ == 'UsageError':
                    o['kind'] = 1
                elif type(exc).__name__ == 'TypeError' and 'Timer unit setting' in str(exc):
                    o['kind'] = 2
                else:
                    o['kind'] = 3 if in_magic else 4
                o['exc'] = None if exc is None else '%s: %s' % (type(exc).__name__, str(exc)[:120])
                o['ret'] = ret is not None and ret is p
                o['b_before'] = b_before
                o['b_during'] = classify(p, profs) if ran else None
                o['b_after'] = classify(builtins.__dict__.get('profile'), profs)
                bafter = {kk: id(v) for kk, v in builtins.__dict__.items() if kk != 'profile'}
                o['interp_same'] = interp_state() == istate
                o['builtins_other_same'] = bafter == bsnap and o['interp_same']
                o['ns_added'] = sorted(set(ip.user_ns) - nsnap)
                o['ns_removed'] = sorted(nsnap - set(ip.user_ns))
                o['pages'] = pages[npages:]
                o['stdout'] = so
                o['msg'] = (1 if '*** SystemExit exception caught in code being profiled.' in so else
                            2 if '*** KeyboardInterrupt exception caught in code being profiled.' in so else
                            3 if '*** ' in so.replace('*** Profile ', '') else 0)
                o['msg_D'] = '*** Profile stats pickled to file' in so
                o['msg_T'] = '*** Profile printout saved to text file' in so
                if o['kind'] in (1, 2):
                    is_prof = False         # stopped before the profiler was put anywhere: nothing of it is observable
                if is_prof:
                    o['stats'] = stats_of(p)
                    o['count_during'] = grabbed[0][1] if ran else -1
                    o['count_after'] = p.enable_count
                    live = io.StringIO()
                    u = iv.get('u_ok')
                    p.print_stats(live, output_unit=(float(u) if u is not None else None), stripzeros=bool(iv.get('s')))
                    o['live'] = live.getvalue().rstrip()
                    _ls = p.get_stats()
                    o['snapshot'] = dict(timings=[[list(kk), [list(r) for r in v]] for kk, v in _ls.timings.items()],
                                         unit=float(_ls.unit).hex())
                else:
                    o['stats'] = None
                    o['count_during'] = -1
                    o['count_after'] = -1
                    o['live'] = None
                o['T'] = None
                if iv.get('T') and os.path.exists(iv['T_path']):
                    o['T'] = open(iv['T_path'], encoding='utf-8', errors='replace').read()
                o['D'] = None
                if iv.get('D') and os.path.exists(iv['D_path']):
                    try:
                        ls = load_stats(iv['D_path'])
                        st = p.get_stats() if is_prof else None
                        o['D'] = bool(st is not None and ls.timings == st.timings and ls.unit == st.unit
                                      and list(ls.timings) == list(st.timings))
                    except Exception:  # noqa
                        o['D'] = False
                # after the magic: nothing may be recorded any more
                o['stable'] = True
                if is_prof:
                    before = p.get_stats().timings
                    with contextlib.redirect_stdout(io.StringIO()):
                        for fid in iv.get('post', []):
                            fo = funcs[fid]
                            if fid in METHODS:
                                fo(None, 1)
                            else:
                                fo(1)
                    o['stable'] = p.get_stats().timings == before
                invs.append(o)
            builtins.__dict__.pop('profile', None)
            out_cases.append(dict(invs=invs))
        # exploratory probes (reported as notes, never a verdict)
        probes = {}
        try:
            with open(os.path.join(root, 'c20m_c.py'), 'w') as f:
                f.write('from c20m_a import a0 as imported_fn\ndef own(n):\n    return imported_fn(n)\n'
                        'class KC:\n    @staticmethod\n    def sm(n):\n        return n\n    @classmethod\n    def cm(cls, n):\n        return n\n')
            with contextlib.redirect_stdout(io.StringIO()):
                ip.run_cell(raw_cell='import c20m_c')
                r = ip.run_line_magic('lprun', '-r -m c20m_c c20m_c.own(1); c20m_c.KC.sm(1); c20m_c.KC.cm(1)')
            names = sorted(k[2] for k in r.get_stats().timings)
            probes['module_with_imported_function_and_static_class_methods'] = names
            # linecache.clearcache() in show_func wipes IPython's cell sources: later reports of cell functions have no rows
            del pages[:]
            with contextlib.redirect_stdout(io.StringIO()):
                ip.run_line_magic('lprun', '-f c0 c0(2)')
            probes['cell_function_rows_after_a_file_report'] = sum(1 for l in pages[-1].splitlines() if l[:6].strip().isdigit())
        except Exception as e:  # noqa
            probes['error'] = repr(e)
        builtins.__dict__.pop('profile', None)
    finally:
        shutil.rmtree(root, ignore_errors=True)
    emit(dict(cases=out_cases, probes=probes, universe={str(k): v[1] for k, v in UNIVERSE.items()}))


if __name__ == '__main__':
    main()
