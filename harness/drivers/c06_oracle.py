"""Oracle of C06: run a generated program under a plain sys.settrace recorder
(no profiler, line_profiler is not imported) and print the stream of
call / line / return events of the functions defined in the program file, with the
way the program ended.  usage: python -m harness.drivers.c06_oracle <script> <K> <KIND> [<OUT>]"""
import json
import os
import runpy
import sys


def main():
    script, k, kind = sys.argv[1:4]
    out_state = sys.argv[4] if len(sys.argv) > 4 else 'ok'
    target = os.path.abspath(script)
    events = []

    def tracer(frame, event, arg):
        co = frame.f_code
        if os.path.abspath(co.co_filename) != target or co.co_name.startswith('<'):
            return None
        if event == 'call':
            events.append(['c', co.co_name])
        elif event == 'line':
            events.append(['l', co.co_name, frame.f_lineno])
        elif event == 'return':
            events.append(['r', co.co_name])
        return tracer

    sys.argv = [script, k, kind, 'nodeco', out_state]
    ended = 'return'
    out, err = sys.stdout, sys.stderr
    sys.stdout = open(os.devnull, 'w')
    sys.settrace(tracer)
    try:
        runpy.run_path(script, run_name='__main__')
    except SystemExit as e:
        ended = 'exit:%r' % (e.code,)
    except KeyboardInterrupt:
        ended = 'kbd'
    except BaseException as e:  # noqa
        ended = 'exc:' + type(e).__name__
    finally:
        sys.settrace(None)
        sys.stdout, sys.stderr = out, err     # the program may have replaced them
    print('EVENTS ' + json.dumps(dict(events=events, ended=ended, line_profiler_loaded='line_profiler' in sys.modules)))


if __name__ == '__main__':
    main()
