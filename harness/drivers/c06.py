"""Implementation side of C06: load the statistics files that the kernprof /
explicit-mode subprocesses wrote, with the rebuilt package's own loaders
(line_profiler.load_stats for .lprof, pstats for .prof), and hand back plain
data."""
import marshal
import os
import pstats

from harness.drivers.common import read_payload, emit


def main():
    payload = read_payload()
    import line_profiler
    out = []
    for path in payload['paths']:
        rec = dict(path=path, ok=False, exists=os.path.isfile(path), entries=[], err=None)
        if rec['exists']:
            try:
                with open(path, 'rb') as f:
                    raw = f.read()
                rec['stale'] = raw == payload.get('stale', '\0').encode()
                if rec['stale']:
                    raise ValueError('the file still holds what was there before the run')
                if path.endswith('.lprof'):
                    st = line_profiler.load_stats(path)
                    rec['kind'] = 'lprof'
                    rec['unit'] = st.unit
                    for (fn, first, name), rows in sorted(st.timings.items()):
                        rec['entries'].append([os.path.basename(fn), first, name, [[l, h] for l, h, t in rows]])
                else:
                    # the .prof format is a marshalled dict; pstats refuses to construct a Stats object from an
                    # EMPTY one (nothing was profiled), which is a complete, valid file all the same
                    data = marshal.loads(raw)
                    if not isinstance(data, dict):
                        raise TypeError('not a stats dict')
                    rec['kind'] = 'prof'
                    if data:
                        data = pstats.Stats(path).stats
                    for (fn, line, name), (cc, nc, tt, ct, callers) in sorted(data.items()):
                        rec['entries'].append([os.path.basename(fn), line, name, nc])
                rec['ok'] = True
            except BaseException as e:  # noqa
                rec['err'] = '%s: %s' % (type(e).__name__, e)
        out.append(rec)
    emit(dict(files=out))


if __name__ == '__main__':
    main()
