"""Implementation side of C03, differential streams on generated REAL objects:

  nest  - functions decorated by / blocks guarded by up to four profiler instances nested in
          one another (two LineProfiler, two kernprof.ContextualProfile)
  desc  - descriptor / partial terms (classmethod, staticmethod, bound method, partial,
          partialmethod, property, cached_property and their compositions) placed in a class,
          unwrapped vs wrapped by the profiler, every access path
  meta  - __name__, __doc__, inspect.signature, is*function of generated functions
  reg   - behaviour of functions before / after LineProfiler.add_function (incl. byte-identical
          twins that receive NOP padding, double registration, enabled profiler)

Every stream returns, per case, the observation of the ORIGINAL object and of the object that
went through the profiler, canonicalised (no addresses, exception class names only)."""
import functools
import gc
import inspect
import sys
import types


# ----------------------------------------------------------------------------
def tool_free():
    return sys.monitoring.get_tool(sys.monitoring.PROFILER_ID) is None


def force_free(profs=()):
    for p in profs:
        try:
            while p.enable_count > 0:
                p.disable_by_count()
        except Exception:
            pass
    if not tool_free():
        sys.monitoring.free_tool_id(sys.monitoring.PROFILER_ID)


def new_profiler(which):
    if which == 'lp':
        import line_profiler
        return line_profiler.LineProfiler()
    import kernprof
    return kernprof.ContextualProfile()


EXC = {1: ValueError, 2: KeyError, 5: RuntimeError, 6: TypeError, 8: ZeroDivisionError, 9: KeyboardInterrupt}


def exc_code(e):
    for k, cls in EXC.items():
        if type(e) is cls:
            return k
    return 99


# ----------------------------------------------------------------------------
# consuming results of generator-like callables in one go
def consume(kind, call):
    """call() -> canonical outcome; generators / coroutines / async generators are driven to the
    end.  ['ret', value] | ['exc', name, phase] (phase: 'call' or 'run')"""
    try:
        r = call()
    except BaseException as e:      # noqa
        return ['exc', type(e).__name__, 'call']
    try:
        if kind in ('gen', 'tgen'):
            items = []
            while True:
                try:
                    items.append(next(r))
                except StopIteration as e:
                    return ['ret', ['gen', items, e.value]]
        if kind == 'coro':
            items = []
            while True:
                try:
                    items.append(r.send(None))
                except StopIteration as e:
                    return ['ret', ['coro', items, e.value]]
        if kind == 'agen':
            items = []
            while True:
                aw = r.__anext__()
                try:
                    aw.send(None)
                except StopIteration as e:
                    items.append(e.value)
                except StopAsyncIteration:
                    return ['ret', ['agen', items]]
                else:
                    return ['exc', 'suspended', 'run']
        return ['ret', r]
    except BaseException as e:      # noqa
        return ['exc', type(e).__name__, 'run']


def canon(x):
    if isinstance(x, type):
        return 'cls:' + x.__name__
    if hasattr(type(x), '_c03_instance'):
        return 'inst:' + type(x).__name__
    if isinstance(x, (list, tuple)):
        return [canon(y) for y in x]
    if isinstance(x, dict):
        return {str(k): canon(v) for k, v in sorted(x.items())}
    if x is None or isinstance(x, (int, str, bool)):
        return x
    return 'obj:' + type(x).__name__


# ----------------------------------------------------------------------------
# generated functions
SIGS = ['x', 'x, y=5', 'x, *rest', 'x, y=5, *, k=None', '*args, **kw', 'x, /, y, *, k=7, **kw', '']

BODY = {
    'func': '    log.append(("{tag}", canon(({names}))))\n    {fail}\n    return ("{tag}", canon(({names})))\n',
    'gen': '    log.append(("{tag}", canon(({names}))))\n    yield ("{tag}", 1)\n    {fail}\n    yield canon(({names}))\n',
    'coro': '    log.append(("{tag}", canon(({names}))))\n    {fail}\n    return ("{tag}", canon(({names})))\n',
    'agen': '    log.append(("{tag}", canon(({names}))))\n    yield ("{tag}", 1)\n    {fail}\n    yield canon(({names}))\n',
}
BODY['tgen'] = BODY['gen']      # a generator function marked @types.coroutine


def sig_names(sig):
    names = []
    for part in sig.split(','):
        p = part.strip()
        if p in ('', '/', '*'):
            continue
        names.append(p.lstrip('*').split('=')[0].strip())
    return names


def make_fn(spec, log, first_param=None):
    """spec: dict(kind, sig (index), tag, name, doc, fail (exception code or 0))"""
    sig = SIGS[spec['sig']]
    if first_param:
        sig = first_param + (', ' + sig if sig else '')
    names = sig_names(sig)
    fail = 'raise EXC[%d]()' % spec['fail'] if spec.get('fail') else 'pass'
    head = ('async def ' if spec['kind'] in ('coro', 'agen') else 'def ') + spec['name'] + '(' + sig + '):\n'
    doc = ('    %r\n' % spec['doc']) if spec.get('doc') is not None else ''
    body = BODY[spec['kind']].format(tag=spec['tag'], names=''.join(n + ', ' for n in names), fail=fail)
    ns = dict(log=log, canon=canon, EXC=EXC)
    exec(compile(head + doc + body, '<c03:%s>' % spec['name'], 'exec'), ns)
    if spec['kind'] == 'tgen':
        return types.coroutine(ns[spec['name']])
    return ns[spec['name']]


# ----------------------------------------------------------------------------
# nest stream
def run_nest(c):
    """c: layers [[how, pid]...] outermost first, inner ['ret', v] | ['raise', e], kind"""
    import line_profiler
    import kernprof
    profs = [line_profiler.LineProfiler(), line_profiler.LineProfiler(),
             kernprof.ContextualProfile(), kernprof.ContextualProfile()]
    kind = c.get('kind', 'func')
    how, val = c['inner']
    ran = []

    if kind == 'func':
        def inner():
            ran.append(1)
            if how == 'raise':
                raise EXC[val]()
            return val
    elif kind == 'gen':
        def inner():
            ran.append(1)
            yield 1
            if how == 'raise':
                raise EXC[val]()
            yield val
    elif kind == 'coro':
        async def inner():
            ran.append(1)
            if how == 'raise':
                raise EXC[val]()
            return val
    else:
        async def inner():
            ran.append(1)
            yield 1
            if how == 'raise':
                raise EXC[val]()
            yield val

    def with_layer(p, f):
        def g():
            with p:
                return f()
        return g

    if kind == 'func':
        f = inner
        layers = c['layers']
    else:
        # the innermost layer decorates the generator-like function; everything outside it
        # surrounds a plain function that consumes the decorated object completely
        layers, (lay, q) = c['layers'][:-1], c['layers'][-1]
        assert lay == 'wrap'
        wi = profs[q](inner)

        def f():
            return consume(kind, wi)
    for lay, pid in reversed(layers):
        if lay == 'wrap':
            f = profs[pid](f)
        else:
            f = with_layer(profs[pid], f)
    try:
        try:
            r = f()
            out = ['ret', r] if kind == 'func' else r
        except BaseException as e:      # noqa
            out = ['exc', type(e).__name__, 'call']
        free = tool_free()
        counts = [p.enable_count for p in profs]
    finally:
        force_free(profs)
    return dict(out=canon(out), free=free, counts=counts, ran=len(ran))


# ----------------------------------------------------------------------------
# desc stream
def build_callable(term, log, first_param=None):
    """term: ['fn', spec] | ['partial', term, args, kw] | ['bound', spec]"""
    t = term[0]
    if t == 'fn':
        return make_fn(term[1], log, first_param)
    if t == 'partial':
        return functools.partial(build_callable(term[1], log, first_param), *term[2], **term[3])
    if t == 'bound':
        holder = type('Holder', (), {'_c03_instance': True})()
        return types.MethodType(make_fn(term[1], log, 'self'), holder)
    raise ValueError(t)


class SubClassMethod(classmethod):
    pass


class SubStaticMethod(staticmethod):
    pass


class SubPartialMethod(functools.partialmethod):
    pass


class SubPartial(functools.partial):
    pass


class SubProperty(property):
    """a user subclass of property (`class lazy(property)`, abc.abstractproperty style)"""


class SubCachedProperty(functools.cached_property):
    pass


def build_descriptor(term, log, sub=False):
    """sub: use user SUBCLASSES of the wrapper types (they are still classmethods, properties, ...)"""
    t = term[0]
    CM, SM, PM, PR, CP = ((SubClassMethod, SubStaticMethod, SubPartialMethod, SubProperty, SubCachedProperty) if sub else
                          (classmethod, staticmethod, functools.partialmethod, property, functools.cached_property))
    if t == 'plain':
        f = build_callable(term[1], log, 'self' if term[1][0] == 'fn' else None)
        if sub and isinstance(f, functools.partial):
            f = SubPartial(f.func, *f.args, **f.keywords)
        return f
    if t == 'classmethod':
        return CM(build_callable(term[1], log, 'cls'))
    if t == 'staticmethod':
        return SM(build_callable(term[1], log))
    if t == 'partialmethod':
        return PM(build_callable(term[1], log, 'self'), *term[2], **term[3])
    if t == 'property':
        parts = []
        for sub, fp in zip(term[1], ('self', 'self, value', 'self')):
            if sub is None:
                parts.append(None)
            else:
                spec = dict(sub[1], sig=6)
                parts.append(make_fn(spec, log, fp))
        return PR(*parts, doc=term[2])
    if t == 'cached_property':
        return CP(make_fn(dict(term[1][1], sig=6), log, 'self'))
    raise ValueError(t)


def term_kind(term):
    """kind of the function at the bottom of a callable term"""
    t = term[0]
    if t == 'fn' or t == 'bound':
        return term[1]['kind']
    if t == 'partial':
        return term_kind(term[1])
    return 'func'


ARGSETS = [[[], {}], [[1], {}], [[1, 2], {}], [[1, 2, 3], {}], [[1], {'k': 9}], [[], {'y': 4}], [[1, 2], {'zz': 0}]]


def exercise(term, desc, log, K=None):
    """put the descriptor into a class (or use the class K that already holds it), walk every access path"""
    if K is None:
        K = type('K', (), {'attr': desc, '_c03_instance': True})
    outs = []
    t = term[0]
    raw = K.__dict__['attr']
    outs.append(['type', type(raw).__name__])
    if t in ('plain', 'classmethod', 'staticmethod', 'partialmethod'):
        kind = term_kind(term[1])
        for args, kw in ARGSETS:
            for path in ('class', 'instance'):
                mark = len(log)
                if path == 'class':
                    o = consume(kind, lambda: K.attr(*args, **kw))
                else:
                    o = consume(kind, lambda: K().attr(*args, **kw))
                outs.append([path, args, kw, canon(o), canon(log[mark:])])
        for nm in ('__name__', '__doc__'):
            try:
                outs.append([nm, canon(getattr(K.attr, nm))])
            except Exception as e:      # noqa
                outs.append([nm, 'exc:' + type(e).__name__])
        if t == 'plain' and term[1][0] == 'partial' or t in ('staticmethod',) and term[1][0] == 'partial':
            p = K.__dict__['attr']
            p = getattr(p, '__func__', p)
            outs.append(['partial-args', canon(list(p.args)), canon(p.keywords)])
    elif t == 'property':
        k = K()
        for step in ('get', 'set', 'get', 'del', 'get', 'classget'):
            mark = len(log)
            try:
                if step == 'get':
                    o = ['ret', canon(k.attr)]
                elif step == 'set':
                    k.attr = 42
                    o = ['ret', None]
                elif step == 'del':
                    del k.attr
                    o = ['ret', None]
                else:
                    o = ['ret', type(K.attr).__name__]
            except BaseException as e:      # noqa
                o = ['exc', type(e).__name__]
            outs.append([step, o, canon(log[mark:])])
        outs.append(['doc', K.attr.__doc__])
        outs.append(['parts', [x is not None for x in (raw.fget, raw.fset, raw.fdel)]])
    elif t == 'cached_property':
        k = K()
        for step in ('get', 'get', 'dict', 'classget', 'del', 'get'):
            mark = len(log)
            try:
                if step == 'get':
                    o = ['ret', canon(k.attr)]
                elif step == 'dict':
                    o = ['ret', canon(sorted(vars(k)))]
                elif step == 'del':
                    del k.attr
                    o = ['ret', None]
                else:
                    o = ['ret', type(K.attr).__name__]
            except BaseException as e:      # noqa
                o = ['exc', type(e).__name__]
            outs.append([step, o, canon(log[mark:])])
        outs.append(['attrname', raw.attrname, raw.__doc__])
    return outs


def run_desc(c):
    """c: term, prof ('lp'|'cp'), twice (bool), late (bool: wrap after the class exists), sub (bool: the wrapper
    objects are instances of user subclasses of classmethod / property / ...), setattr (bool: the class is created
    with the ORIGINAL descriptor, which is then decorated and put back with setattr - no __set_name__ call)"""
    log0, log1 = [], []
    term = c['term']
    sub = bool(c.get('sub'))
    d0 = build_descriptor(term, log0, sub)
    ref = exercise(term, d0, log0)
    prof = new_profiler(c['prof'])
    try:
        d1 = build_descriptor(term, log1, sub)
        if c.get('late') and term[0] == 'cached_property':
            type('Pre', (), {'attr': d1})      # __set_name__ ran: attrname is set before wrapping
        if c.get('setattr'):
            K = type('K', (), {'attr': d1, '_c03_instance': True})
            w = prof(K.__dict__['attr'])
            if c.get('twice'):
                w = prof(w)
            setattr(K, 'attr', w)
            got = exercise(term, w, log1, K)
        else:
            w = prof(d1)
            if c.get('twice'):
                w = prof(w)
            got = exercise(term, w, log1)
        leaked = not tool_free()
    except BaseException as e:      # noqa
        got = [['wrap-failed', type(e).__name__, str(e)[:200]]]
        leaked = not tool_free()
    finally:
        force_free([prof])
    return dict(ref=ref, got=got, leaked=leaked)


# ----------------------------------------------------------------------------
# meta stream
def kind_code(f):
    if inspect.isasyncgenfunction(f):
        return 'agen'
    if inspect.iscoroutinefunction(f):
        return 'coro'
    if inspect.isgeneratorfunction(f):
        code = getattr(f, '__code__', None)
        return 'tgen' if (getattr(code, 'co_flags', 0) & inspect.CO_ITERABLE_COROUTINE) else 'gen'
    return 'func'


def meta_of(f):
    try:
        sig = str(inspect.signature(f))
    except Exception as e:      # noqa
        sig = 'exc:' + type(e).__name__
    return dict(name=getattr(f, '__name__', None), doc=getattr(f, '__doc__', None), sig=sig, kind=kind_code(f),
                qualname=getattr(f, '__qualname__', None), module=getattr(f, '__module__', None),
                extra=getattr(f, 'extra_attr', None), callable=callable(f),
                defaults=canon(getattr(f, '__defaults__', None)) if not hasattr(f, '__wrapped__') else canon(getattr(f.__wrapped__, '__defaults__', None)))


def run_meta(c):
    f = make_fn(c['spec'], [])
    if c.get('extra') is not None:
        f.extra_attr = c['extra']
    orig = meta_of(f)
    prof = new_profiler(c['prof'])
    try:
        w = prof(f)
        if c.get('twice'):
            w = prof(w)
        got = meta_of(w)
        got['wrapped_is_orig'] = getattr(w, '__wrapped__', None) is f
    finally:
        force_free([prof])
    return dict(orig=orig, got=got)


# ----------------------------------------------------------------------------
# reg stream
REG_SOURCES = {
    'branch': 'def f(x, y=3):\n    if x > y:\n        return ("gt", x - y)\n    elif x == y:\n        return ("eq", [i * i for i in range(x)])\n    return ("lt", {k: k + y for k in range(x)})\n',
    'loop': 'def f(x, y=2):\n    s = 0\n    for i in range(x):\n        if i % 2:\n            continue\n        s += i * y\n    else:\n        s += 100\n    while s > 150:\n        s -= 7\n    return s\n',
    'tryexc': 'def f(x, y=0):\n    try:\n        return 10 // (x - y)\n    except ZeroDivisionError as e:\n        return ("zde", type(e).__name__)\n    finally:\n        x += 1\n',
    'raises': 'def f(x, y=1):\n    z = x + y\n    if z > 3:\n        raise ValueError(z)\n    return z\n',
    'closure': 'def mk(n):\n    def f(x, y=1):\n        return n + x * y\n    return f\nf = mk(5)\n',
    'recur': 'def f(x, y=1):\n    return y if x <= 0 else f(x - 1, y * 2)\n',
    'gen': 'def f(x, y=1):\n    for i in range(x):\n        got = yield i * y\n        if got:\n            y += got\n    return "done"\n',
    'coro': 'async def f(x, y=1):\n    return x * y + 1\n',
    'tgen': 'import types\n@types.coroutine\ndef f(x, y=1):\n    for i in range(x):\n        got = yield i * y\n    return "tdone"\n',
    'agen': 'async def f(x, y=1):\n    for i in range(x):\n        yield i + y\n',
    'lambda': 'f = lambda x, y=2: (x, y, x ** y)\n',
    'nested': 'def f(x, y=1):\n    def g(a):\n        return a + y\n    return [g(i) for i in range(x)]\n',
    'kwonly': 'def f(x, *rest, y=1, **kw):\n    return (x, rest, y, sorted(kw.items()))\n',
}
REG_ARGS = [[0], [1], [2, 2], [4], [5, 5], [3, 1], []]


def reg_behaviour(kind, f):
    outs = []
    for args in REG_ARGS:
        try:
            r = f(*args)
        except BaseException as e:      # noqa
            tb = e.__traceback__
            while tb.tb_next is not None:
                tb = tb.tb_next
            outs.append(['exc', type(e).__name__, repr(e.args)[:40], tb.tb_lineno, 'call'])
            continue
        if kind in ('gen', 'coro', 'agen'):
            outs.append(canon(consume(kind, lambda: r)))
        else:
            outs.append(['ret', canon(r)])
    c = f.__code__
    outs.append(['code', c.co_name, c.co_firstlineno, c.co_argcount, c.co_kwonlyargcount, c.co_flags,
                 canon(list(c.co_varnames)), canon(list(c.co_freevars)),
                 [ln for _, _, ln in c.co_lines() if ln is not None][:40]])
    outs.append(['fn', f.__name__, canon(f.__defaults__), str(inspect.signature(f)), kind_code(f)])
    return outs


def run_reg(c):
    """c: src (key), twins (how many byte-identical functions are registered BEFORE f), again (register f twice),
    via ('add_function' | 'add_callable' | 'call'), enabled (check under `with prof:` too)"""
    import line_profiler
    src = REG_SOURCES[c['src']]
    kind = {'tgen': 'gen'}.get(c['src'], c['src']) if c['src'] in ('gen', 'coro', 'agen', 'tgen') else 'func'

    def fresh():
        ns = {}
        exec(compile(src, '<c03reg:%s>' % c['src'], 'exec'), ns)
        return ns['f']
    f = fresh()
    before = reg_behaviour(kind, f)
    code_before = f.__code__.co_code
    prof = line_profiler.LineProfiler()
    try:
        twins = [fresh() for _ in range(c.get('twins', 0))]
        for t in twins:
            prof.add_function(t)
        reg = {'add_function': prof.add_function, 'add_callable': prof.add_callable,
               'call': prof.__call__}[c.get('via', 'add_function')]
        reg(f)
        if c.get('again'):
            reg(f)
        after = reg_behaviour(kind, f)
        padded = f.__code__.co_code != code_before
        twin_after = [reg_behaviour(kind, t) for t in twins[:2]]
        enabled = None
        if c.get('enabled'):
            with prof:
                enabled = reg_behaviour(kind, f)
        free = tool_free()
    finally:
        force_free([prof])
    return dict(before=before, after=after, padded=padded, twin_after=twin_after, enabled=enabled, free=free)


# ----------------------------------------------------------------------------
# family stream: ONE `def` executed several times (loop / factory) - the function objects share a code
# object but differ in __defaults__, __kwdefaults__, attributes, __name__ and the objects they are bound to
FAMILY_BODY = {
    'func': "        log.append(x)\n        return ('r', x, i, k, len(log))\n",
    'gen': "        log.append(x)\n        got = yield (x, i)\n        yield (got, k)\n        return ('ret', i, k, len(log))\n",
    'tgen': "        log.append(x)\n        got = yield (x, i)\n        yield (got, k)\n        return ('ret', i, k, len(log))\n",
    'coro': "        log.append(x)\n        return ('co', x, i, k, len(log))\n",
    'agen': "        log.append(x)\n        yield (x, i)\n        yield (k, len(log))\n",
}


def family_source(kind, how):
    head = ('async def ' if kind in ('coro', 'agen') else 'def ') + 'cb(x=0, i=I, *, k=K, log=LOG):\n'
    deco = '    @types.coroutine\n' if kind == 'tgen' else ''
    body = FAMILY_BODY[kind]
    if how == 'loop':
        # the `def cb(x, i=i)` idiom: a def statement in a loop, values bound as defaults (no closure)
        return ('import types\nfs = []\nfor j in range(N):\n    I, K, LOG = ivals[j], kvals[j], logs[j]\n' + deco +
                '    ' + head + body + '    post(cb, j)\n    fs.append(hook(cb))\n')
    # a factory called several times; the inner def binds its argument as a default (no closure either)
    return ('import types\ndef mk(I, K, LOG, j):\n' + deco + '    ' + head + body +
            '    post(cb, j)\n    return hook(cb)\nfs = [mk(ivals[j], kvals[j], logs[j], j) for j in range(N)]\n')


def build_family(c, hook):
    n = c['n']
    ivals = [10] * n if c['same_defaults'] else [10 + j for j in range(n)]
    kvals = [7] * n if c['same_defaults'] else [100 * (j + 1) for j in range(n)]
    logs = [[] for _ in range(n)]          # equal values, distinct objects

    def post(f, j):
        f.tag = 'tag%d' % j
        if c.get('rename'):
            f.__name__ = 'cb_%d' % j
            f.__qualname__ = 'renamed.cb_%d' % j
    originals = []

    def hook_(f):
        originals.append(f)
        return hook(f)
    ns = dict(N=n, ivals=ivals, kvals=kvals, logs=logs, post=post, hook=hook_ if c['when'] == 'each' else (lambda f: (originals.append(f), f)[1]))
    exec(compile(family_source(c['kind'], c['how']), '<c03family>', 'exec'), ns)
    fs = ns['fs']
    if c['when'] != 'each':
        fs = [hook(f) for f in fs]
    return fs, originals, logs


def family_observe(c, fs, originals, logs):
    kind = c['kind']
    out = []
    order = list(range(len(fs)))
    if c.get('reverse'):
        order.reverse()
    for j in order:
        f = fs[j]
        row = [j]
        for args, kw in (((), {}), ((5,), {}), ((5, 6), {}), ((5,), {'k': 1})):
            row.append(canon(consume(kind, lambda: f(*args, **kw))))
        row.append([getattr(f, 'tag', None), f.__name__, f.__qualname__])
        try:
            row.append(str(inspect.signature(f)))
        except Exception as e:      # noqa
            row.append('exc:' + type(e).__name__)
        w = getattr(f, '__wrapped__', f)
        row.append([canon(w.__defaults__), canon(w.__kwdefaults__)])
        out.append(row)
    out.append(['logs', [len(x) for x in logs]])
    out.append(['distinct', len({id(f) for f in fs})])
    return out


def run_family(c):
    """c: kind, n, how ('loop'|'factory'), same_defaults, when ('each': decorated where defined, like @profile /
    auto-profiling; 'after': all decorated afterwards), rename, reverse, prof"""
    ref_fs, ref_orig, ref_logs = build_family(c, lambda f: f)
    ref = family_observe(c, ref_fs, ref_orig, ref_logs)
    prof = new_profiler(c['prof'])
    try:
        fs, orig, logs = build_family(c, prof)
        got = family_observe(c, fs, orig, logs)
        wrapped_own = [getattr(f, '__wrapped__', None) is o for f, o in zip(fs, orig)]
        leaked = not tool_free()
    except BaseException as e:      # noqa
        got, wrapped_own, leaked = [['failed', type(e).__name__, str(e)[:200]]], [], not tool_free()
    finally:
        force_free([prof])
    return dict(ref=ref, got=got, wrapped_own=wrapped_own, leaked=leaked)


# ----------------------------------------------------------------------------
# inst stream: callable INSTANCES (objects with __call__) - several value-equal but distinct ones, optionally
# falsy (their class defines __len__ -> 0), decorated by ONE profiler directly and inside every wrapper kind
def make_callable_class(eqhash, falsy):
    ns = {}

    def __init__(self, factor, journal):
        self.factor = factor
        self.journal = journal

    def __call__(self, *args, **kw):
        self.journal.append(len(args))
        n = 3
        for a in args:
            if isinstance(a, int) and not isinstance(a, bool):
                n = a
        return self.factor * n
    ns.update(__init__=__init__, __call__=__call__, __doc__='callable instance')
    if eqhash:
        ns['__eq__'] = lambda self, other: type(other) is type(self) and other.factor == self.factor
        ns['__hash__'] = lambda self: hash(self.factor)
    if falsy:
        ns['__len__'] = lambda self: 0          # an "empty container" that can be called
    return type('Scale', (), ns)


INST_WRAPS = ['direct', 'partial', 'static', 'class', 'bound', 'partialmethod', 'property', 'cached']


def inst_build(kind, obj):
    if kind == 'direct':
        return obj
    if kind == 'partial':
        return functools.partial(obj, 1)
    if kind == 'static':
        return staticmethod(obj)
    if kind == 'class':
        return classmethod(obj)
    if kind == 'bound':
        return types.MethodType(obj, type('Holder', (), {})())
    if kind == 'partialmethod':
        return functools.partialmethod(obj, 1)
    if kind == 'property':
        return property(obj)
    if kind == 'cached':
        return functools.cached_property(obj)
    raise ValueError(kind)


def typed(v):
    return [type(v).__name__, v if isinstance(v, (int, float, str, type(None))) else None]


def inst_exercise(kind, thing):
    """use the (decorated or original) thing in every way its kind allows -> outcomes"""
    outs = []

    def rec(thunk):
        try:
            outs.append(['ret', typed(thunk())])
        except BaseException as e:      # noqa
            outs.append(['exc', type(e).__name__])
    if kind in ('direct', 'partial', 'bound'):
        rec(lambda: thing(4))
        rec(lambda: thing())
    else:
        K = type('K', (), {'attr': thing})
        if kind in ('static', 'class', 'partialmethod'):
            if kind != 'partialmethod':
                rec(lambda: K.attr(4))
            rec(lambda: K().attr(4))
            rec(lambda: K().attr())
        else:
            k = K()
            rec(lambda: k.attr)
            rec(lambda: k.attr)
            rec(lambda: type(K.attr).__name__)
    return outs


def run_inst(c):
    """c: factors (list), eqhash, falsy, wrap, prof, order ('each' | 'after')"""
    cls = make_callable_class(c['eqhash'], c['falsy'])
    sides = {}
    for side in ('ref', 'got'):
        prof = new_profiler(c['prof']) if side == 'got' else None
        journals = [[] for _ in c['factors']]
        objs = [cls(f, j) for f, j in zip(c['factors'], journals)]
        outs = []
        try:
            things = []
            for o in objs:
                t = inst_build(c['wrap'], o)
                if prof is not None:
                    try:
                        t = prof(t)
                    except BaseException as e:      # noqa
                        t = None
                        outs.append(['wrap-failed', type(e).__name__])
                things.append(t)
                if c['order'] == 'each' and t is not None:
                    outs.append(inst_exercise(c['wrap'], t))
            if c['order'] != 'each':
                for t in reversed(things):
                    if t is not None:
                        outs.append(inst_exercise(c['wrap'], t))
            outs.append(['journals', [list(j) for j in journals]])
            outs.append(['truthy', [bool(o) for o in objs]])
            leaked = not tool_free()
        finally:
            if prof is not None:
                force_free([prof])
        sides[side] = outs
    return dict(ref=sides['ref'], got=sides['got'], leaked=leaked)


# ----------------------------------------------------------------------------
# kwnames stream: keyword arguments whose NAMES coincide with names the wrappers use internally
KW_NAMES = ['func', 'self', 'args', 'kwds', 'kw', 'cmd', 'wrapper', 'g', 'input_', 'exc', 'item', 'result', 'cls']


def run_kwnames(c):
    """c: kind (func|gen|coro|agen|tgen), shape (plain|method|static|class|partial|runcall), names (list), prof"""
    kind = c['kind']
    body = {'func': '    return (a, sorted(kw.items()))\n',
            'gen': '    yield a\n    yield sorted(kw.items())\n', 'tgen': '    yield a\n    yield sorted(kw.items())\n',
            'coro': '    return (a, sorted(kw.items()))\n', 'agen': '    yield a\n    yield sorted(kw.items())\n'}[kind]
    first = {'method': 'this, ', 'class': 'klass, '}.get(c['shape'], '')
    src = ('async def ' if kind in ('coro', 'agen') else 'def ') + 'f(' + first + '*a, **kw):\n' + body

    def fresh():
        ns = {}
        exec(compile(src, '<c03kw>', 'exec'), ns)
        return types.coroutine(ns['f']) if kind == 'tgen' else ns['f']
    kw = {n: i for i, n in enumerate(c['names'])}
    outs = {}
    for side in ('ref', 'got'):
        prof = new_profiler(c['prof']) if side == 'got' else None
        deco = (lambda x: prof(x)) if prof is not None else (lambda x: x)
        f = fresh()
        try:
            sh = c['shape']
            if sh == 'plain':
                g = deco(f)
                call = lambda: g(1, **kw)
            elif sh == 'method':
                K = type('K', (), {'m': deco(f)})
                call = lambda: K().m(1, **kw)[1:] if kind in ('func', 'coro') else K().m(1, **kw)
            elif sh == 'static':
                K = type('K', (), {'m': deco(staticmethod(f))})
                call = lambda: K.m(1, **kw)
            elif sh == 'class':
                K = type('K', (), {'m': deco(classmethod(f))})
                call = lambda: K.m(1, **kw)
            elif sh == 'partial':
                g = deco(functools.partial(f, 0, **{c['names'][0]: 'bound'}))
                call = lambda: g(1, **{n: v for n, v in kw.items() if n != c['names'][0]})
            else:   # runcall: prof.runcall(f, ...) vs f(...)
                call = (lambda: prof.runcall(f, 1, **kw)) if prof is not None else (lambda: f(1, **kw))
            o = consume(kind, call)
            if sh in ('method', 'class') and o[0] == 'ret':
                o = ['ret', canon(o[1])[-1:]] if kind in ('func', 'coro') else o   # drop the bound instance / class
            outs[side] = canon(o)
        except BaseException as e:      # noqa
            outs[side] = ['failed', type(e).__name__, str(e)[:120]]
        finally:
            if prof is not None:
                force_free([prof])
    return dict(ref=outs['ref'], got=outs['got'], leaked=not tool_free())


# ----------------------------------------------------------------------------
# measured observation (not part of the verdict): where does an argument-binding TypeError of a
# generator-like callable surface?
def run_defer(c):
    f = make_fn(dict(kind=c['kind'], sig=0, tag='d', name='d', doc=None, fail=0), [])
    prof = new_profiler(c['prof'])
    try:
        w = prof(f)
        return dict(orig=consume(c['kind'], lambda: f(1, 2, 3))[1:], got=consume(c['kind'], lambda: w(1, 2, 3))[1:])
    finally:
        force_free([prof])


def run(payload):
    out = {}
    for key, fn in (('nest', run_nest), ('desc', run_desc), ('meta', run_meta), ('reg', run_reg), ('family', run_family), ('inst', run_inst), ('kwnames', run_kwnames), ('defer', run_defer)):
        res = []
        for c in payload.get(key, []):
            try:
                res.append(fn(c))
            except BaseException as e:      # noqa
                import traceback
                res.append(dict(driver_error='%s: %s' % (type(e).__name__, e), tb=traceback.format_exc()[-1500:]))
                force_free()
            gc.collect(0)
        out[key] = res
    return out
