"""Implementation side of C03: table-driven real generators / coroutines / async
generators / functions, run unwrapped and through the REAL wrap_* methods of
line_profiler.LineProfiler and kernprof.ContextualProfile.

A body table is `table[state][column] = action`:
  columns: 0 = resumed by a sent value, 1.. = resumed by a thrown exception of THROWN[column-1]
           (a row may be shorter: a missing column means re-raise)
  actions: ['Y', k, echo, next]  yield  k (+ sent value if echo), continue in state `next`
           ['R', k, echo]        return k (+ sent value if echo)      (async generators: bare return)
           ['X', e]              raise EXC[e]()
           ['RR']                re-raise what was thrown in (ValueError if resumed by a send)
Values are small ints, 0 encodes None.  Exceptions are small codes (EXC).

Observation of one run = [[events, outcome] per op] + events while the object is dropped.
  event   : 1 Enable, 2 Disable, 100+v body resumed by send v, 200+e body resumed by throw e
  outcome : 1000+v yielded v, 2000+v StopIteration(v), 3000 StopAsyncIteration, 4000+e raised e,
            5000 returned None (close), 6000 awaitable suspended unexpectedly
"""
import gc
import sys
import types
import warnings

from harness.drivers.common import read_payload, emit

import asyncio


class Signal(BaseException):
    """a user-defined control-flow exception deriving from BaseException, not from Exception"""


EXC = {1: ValueError, 2: KeyError, 3: GeneratorExit, 4: StopIteration, 5: RuntimeError,
       6: TypeError, 7: StopAsyncIteration, 8: ZeroDivisionError,
       # BaseException subclasses that are not Exception
       9: KeyboardInterrupt, 10: SystemExit, 11: asyncio.CancelledError, 12: Signal}
THROWN = [1, 2, 3, 4, 7, 9, 10, 11, 12]          # column c+1 handles a throw of THROWN[c]
OTHER = 99


def code(e):
    for k, cls in EXC.items():
        if type(e) is cls:
            return k
    return OTHER


def enc(v):
    return 0 if v is None else int(v)


def dec(n):
    return None if n == 0 else n


def col(r, val):
    if r == 's':
        return 0
    return THROWN.index(val) + 1 if val in THROWN else None


class Susp:
    """awaitable that suspends the coroutine once, handing `v` to whoever drives it"""
    __slots__ = ('v',)

    def __init__(self, v):
        self.v = v

    def __await__(self):
        r = yield self.v
        return r


def _action(table, s, r, val):
    c = col(r, val)
    if c is None or c >= len(table[s]):
        return ['RR']
    return table[s][c]


def make_body(kind, table, log):
    """a fresh function object of the requested kind whose behaviour is `table`.
    kind 'tgen': a generator function marked @types.coroutine (a generator function for inspect, whose
    result may also be awaited)"""
    if kind == 'tgen':
        body = types.coroutine(make_body('gen', table, log))
        body.__name__ = body.__qualname__ = 'body_tgen'
        body.__doc__ = 'table-driven tgen'
        return body
    if kind == 'gen':
        def body(*args):
            s, r, val = 0, 's', 0
            while True:
                log.append(100 + val if r == 's' else 200 + val)
                a = _action(table, s, r, val)
                if a[0] == 'Y':
                    out = dec(a[1] + (val if (a[2] and r == 's') else 0))
                    try:
                        got = yield out
                        r, val = 's', enc(got)
                    except BaseException as e:
                        r, val = 't', code(e)
                    s = a[3]
                elif a[0] == 'R':
                    return dec(a[1] + (val if (a[2] and r == 's') else 0))
                elif a[0] == 'X':
                    raise EXC[a[1]]()
                else:
                    raise (EXC[val]() if r == 't' else ValueError())
    elif kind == 'coro':
        async def body(*args):
            s, r, val = 0, 's', 0
            while True:
                log.append(100 + val if r == 's' else 200 + val)
                a = _action(table, s, r, val)
                if a[0] == 'Y':
                    out = dec(a[1] + (val if (a[2] and r == 's') else 0))
                    try:
                        got = await Susp(out)
                        r, val = 's', enc(got)
                    except BaseException as e:
                        r, val = 't', code(e)
                    s = a[3]
                elif a[0] == 'R':
                    return dec(a[1] + (val if (a[2] and r == 's') else 0))
                elif a[0] == 'X':
                    raise EXC[a[1]]()
                else:
                    raise (EXC[val]() if r == 't' else ValueError())
    elif kind == 'agen':
        async def body(*args):
            s, r, val = 0, 's', 0
            while True:
                log.append(100 + val if r == 's' else 200 + val)
                a = _action(table, s, r, val)
                if a[0] == 'Y':
                    out = dec(a[1] + (val if (a[2] and r == 's') else 0))
                    try:
                        got = yield out
                        r, val = 's', enc(got)
                    except BaseException as e:
                        r, val = 't', code(e)
                    s = a[3]
                elif a[0] == 'R':
                    return
                elif a[0] == 'X':
                    raise EXC[a[1]]()
                else:
                    raise (EXC[val]() if r == 't' else ValueError())
    else:
        raise ValueError(kind)
    body.__name__ = body.__qualname__ = 'body_' + kind
    body.__doc__ = 'table-driven ' + kind
    return body


def _agen_op(obj, op):
    """one async-generator operation, its awaitable driven to completion.  The awaitable
    (which keeps the thrown exception instance alive) is released before returning, so no
    reference cycle delays the finalisation of anything the operation dropped."""
    o = op[0]
    if o == 'n':
        aw = obj.__anext__()
    elif o == 's':
        aw = obj.asend(dec(op[1]))
    elif o == 't':
        aw = obj.athrow(EXC[op[1]]())
    else:
        aw = obj.aclose()
    try:
        x = aw.send(None)
    except StopIteration as e:
        v = e.value
        out = (5000 if v is None else 1000 + enc(v)) if o == 'c' else 1000 + enc(v)
    except StopAsyncIteration as e:
        out = 3000 if type(e) is StopAsyncIteration else 4000 + code(e)
    except BaseException as e:
        out = 4000 + code(e)
    else:
        # suspended: not expected for bodies that never await a pending awaitable
        out = 6000
        try:
            aw.close()
        except BaseException:
            pass
    del aw
    return out


def do_op(obj, kind, op):
    """one protocol operation -> outcome code"""
    if kind == 'agen':
        return _agen_op(obj, op)
    o = op[0]
    try:
        if o == 'n':
            v = obj.send(None) if kind == 'coro' else next(obj)
        elif o == 's':
            v = obj.send(dec(op[1]))
        elif o == 't':
            v = obj.throw(EXC[op[1]]())
        else:
            v = obj.close()
            return 5000 if v is None else 1000 + enc(v)
        return 1000 + enc(v)
    except StopIteration as e:
        if type(e) is StopIteration:
            return 2000 + enc(e.value)
        return 4000 + code(e)
    except BaseException as e:
        return 4000 + code(e)


def drive(make_obj, kind, ops, log):
    """create the object, apply the ops, drop it; returns the observation"""
    holder = [make_obj()]
    per_op = []
    for op in ops:
        mark = len(log)
        out = do_op(holder[0], kind, op)
        per_op.append([log[mark:], out])
    mark = len(log)
    holder.clear()
    gc.collect(0)       # automatic collection is off (main): everything this case made is young
    return [per_op, log[mark:]]


_UNRAISABLE = []


def _quiet_hook(u):
    _UNRAISABLE.append(type(u.exc_value).__name__ if u.exc_value is not None else 'None')


def make_profiler(which, log):
    """a real profiler whose enable_by_count / disable_by_count additionally log"""
    if which == 'lp':
        import line_profiler

        class P(line_profiler.LineProfiler):
            def enable_by_count(self):
                super().enable_by_count()
                log.append(1)

            def disable_by_count(self):
                super().disable_by_count()
                log.append(2)
    else:
        import kernprof

        class P(kernprof.ContextualProfile):
            def enable_by_count(self, *a, **k):
                super().enable_by_count(*a, **k)
                log.append(1)

            def disable_by_count(self):
                super().disable_by_count()
                log.append(2)
    return P()


def tool_free():
    return sys.monitoring.get_tool(sys.monitoring.PROFILER_ID) is None


def awaited(f):
    """a native coroutine function that awaits f(): how an event loop / another coroutine uses a coroutine
    function or a @types.coroutine generator function"""
    async def outer():
        return await f()
    return outer


def run_protocol_case(c):
    """c: kind, table, ops, prof (None | 'lp' | 'cp'), how ('call' | 'method': wrap via prof(f) or prof.wrap_*(f)),
    via ('direct' | 'await': the operations go to a coroutine that awaits the callable's result)"""
    log = []
    kind = c['kind']
    body = make_body(kind, c['table'], log)
    prof = None
    f = body
    if c.get('prof'):
        prof = make_profiler(c['prof'], log)
        if c.get('how') == 'method':
            f = {'gen': prof.wrap_generator, 'coro': prof.wrap_coroutine, 'agen': prof.wrap_async_generator,
                 'tgen': prof.wrap_callable}[kind](body)
        else:
            f = prof(body)
    if c.get('via') == 'await':
        obs = drive(awaited(f), 'coro', c['ops'], log)
    else:
        obs = drive(f, 'gen' if kind == 'tgen' else kind, c['ops'], log)
    leaked = not tool_free()
    if leaked:
        # a leaked enable would poison every later case: release it and say so
        try:
            while prof is not None and prof.enable_count > 0:
                prof.disable_by_count()
        except Exception:
            pass
        if not tool_free():
            sys.monitoring.free_tool_id(sys.monitoring.PROFILER_ID)
    return dict(obs=obs, leaked=leaked)


def main():
    payload = read_payload()
    warnings.simplefilter('ignore')
    sys.unraisablehook = _quiet_hook
    # deterministic finalisation: no automatic collections; the payload is moved out of the
    # collector's sight so that the per-case young collection stays cheap
    gc.disable()
    gc.collect()
    gc.freeze()
    out = {}
    if 'protocol' in payload:
        out['protocol'] = [run_protocol_case(c) for c in payload['protocol']]
    if 'extra' in payload:
        from harness.drivers import c03_objects
        out['extra'] = c03_objects.run(payload['extra'])
    if 'kern' in payload:
        from harness.drivers import c03_kern
        out['kern'] = c03_kern.run(payload['kern'], payload['tmp'])
    out['unraisable'] = len(_UNRAISABLE)
    emit(out)


if __name__ == '__main__':
    main()
